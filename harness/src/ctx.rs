//! Monitor context: counters, distinct-case set, samples, tagged violations, panic capture,
//! in-process watchdog.

use serde_json::{json, Map, Value};
use std::cell::RefCell;
use std::collections::{BTreeMap, HashSet};
use std::panic::{catch_unwind, AssertUnwindSafe};
use std::sync::atomic::{AtomicBool, AtomicPtr, AtomicU64, AtomicUsize, Ordering};
use std::time::Instant;

#[derive(Clone, Copy, Debug, PartialEq, Eq)]
pub enum Tier {
    Quick,
    Thorough,
}

impl Tier {
    pub fn name(self) -> &'static str {
        match self {
            Tier::Quick => "quick",
            Tier::Thorough => "thorough",
        }
    }
}

pub const DISTINCT_CAP: usize = 1 << 18;
/// per-shard cap of the distinct-case set in the thorough tier
pub const DISTINCT_CAP_THOROUGH: usize = 1 << 21;
const MAX_SAMPLES: usize = 8;
const MAX_WITNESS_PER_SIG: u64 = 1;
const MAX_SIGS: usize = 200;

#[derive(Clone, Debug, PartialEq, Eq)]
pub struct PanicInfo {
    pub msg: String,
    pub loc: String,
}

thread_local! {
    static LAST_PANIC: RefCell<Option<PanicInfo>> = const { RefCell::new(None) };
}

static HOOK_INSTALLED: AtomicBool = AtomicBool::new(false);

pub fn install_panic_hook() {
    if HOOK_INSTALLED.swap(true, Ordering::SeqCst) {
        return;
    }
    std::panic::set_hook(Box::new(|info| {
        let msg = if let Some(s) = info.payload().downcast_ref::<&str>() {
            (*s).to_string()
        } else if let Some(s) = info.payload().downcast_ref::<String>() {
            s.clone()
        } else {
            "<non-string panic payload>".to_string()
        };
        let loc = info
            .location()
            .map(|l| format!("{}:{}:{}", l.file(), l.line(), l.column()))
            .unwrap_or_default();
        LAST_PANIC.with(|p| *p.borrow_mut() = Some(PanicInfo { msg, loc }));
    }));
}

/// Run `f` catching a Rust panic as an observed event.
pub fn guard<T>(f: impl FnOnce() -> T) -> Result<T, PanicInfo> {
    LAST_PANIC.with(|p| *p.borrow_mut() = None);
    match catch_unwind(AssertUnwindSafe(f)) {
        Ok(v) => Ok(v),
        Err(_) => Err(LAST_PANIC
            .with(|p| p.borrow_mut().take())
            .unwrap_or(PanicInfo { msg: "<panic without hook record>".into(), loc: String::new() })),
    }
}

// ---------------------------------------------------------------------------------------------
// watchdog: the monitor publishes the current case (pointer + length of its input buffer and a
// start time); a background thread notices a single call that has run for too long, writes the
// input as a hang witness and terminates the shard with exit code 3.
static WD_PTR: AtomicPtr<u8> = AtomicPtr::new(std::ptr::null_mut());
static WD_LEN: AtomicUsize = AtomicUsize::new(0);
static WD_START_MS: AtomicU64 = AtomicU64::new(0); // 0 = idle
static WD_LABEL: AtomicPtr<u8> = AtomicPtr::new(std::ptr::null_mut());
static WD_LABEL_LEN: AtomicUsize = AtomicUsize::new(0);
static WD_LIMIT_MS: AtomicU64 = AtomicU64::new(10_000);
// the limit of the region published right now (an enclosing "case" region gets three times the
// single-call limit)
static WD_CUR_LIMIT_MS: AtomicU64 = AtomicU64::new(10_000);
// enclosing region: the whole case (one buffer through every operation, one history, one builder
// program).  A call region inside it takes over while it lasts; when it ends the enclosing region is
// published again with a fresh start time, so what is measured is always one stretch of library
// calls on one input, never the case as a whole.
static WD_OPTR: AtomicPtr<u8> = AtomicPtr::new(std::ptr::null_mut());
static WD_OLEN: AtomicUsize = AtomicUsize::new(0);
static WD_OLABEL: AtomicPtr<u8> = AtomicPtr::new(std::ptr::null_mut());
static WD_OLABEL_LEN: AtomicUsize = AtomicUsize::new(0);
// a witness source for cases that are not a byte buffer: (fn(*const ()) -> Value, *const ())
static WD_SRC_FN: AtomicUsize = AtomicUsize::new(0);
static WD_SRC_DATA: AtomicUsize = AtomicUsize::new(0);
// small numbers that complete a byte witness (attribute kind, raw type, transaction id)
static WD_AUX: [AtomicU64; 4] = [AtomicU64::new(0), AtomicU64::new(0), AtomicU64::new(0), AtomicU64::new(0)];

/// Something that can describe the case it is (as the witness `./check replay` understands).
pub trait WitnessSrc {
    fn witness(&self) -> Value;
}
fn call_src<T: WitnessSrc>(p: *const ()) -> Value {
    unsafe { (*(p as *const T)).witness() }
}

/// Change the single-call limit of the in-process watchdog (isolated replays use 55 s).
pub fn set_watchdog_limit(ms: u64) {
    WD_LIMIT_MS.store(ms, Ordering::SeqCst);
}

/// one time base for every thread's regions and for the watchdog thread
static WD_T0: std::sync::OnceLock<Instant> = std::sync::OnceLock::new();
fn now_ms(_t0: Instant) -> u64 {
    WD_T0.get_or_init(Instant::now).elapsed().as_millis() as u64 + 1
}

pub struct Watchdog {
    t0: Instant,
    /// false for the helper contexts of worker threads: they publish nothing (the regions are
    /// process-wide and belong to the shard's main thread)
    live: bool,
}

/// Snapshot of the currently published case, for the crash handler in the binary
/// (async-signal-safe: only atomics are read).
pub fn current_case_raw() -> (*const u8, usize, *const u8, usize) {
    (
        WD_PTR.load(Ordering::SeqCst) as *const u8,
        WD_LEN.load(Ordering::SeqCst),
        WD_LABEL.load(Ordering::SeqCst) as *const u8,
        WD_LABEL_LEN.load(Ordering::SeqCst),
    )
}

impl Watchdog {
    pub fn start(out_path: Option<String>, prop: String, limit_ms: u64) -> Watchdog {
        let t0 = Instant::now();
        // instrumented builds (AddressSanitizer) are several times slower: STUNMON_WD_SCALE stretches
        // the limits; a sanitizer build also stretches them by itself
        let scale = std::env::var("STUNMON_WD_SCALE").ok().and_then(|s| s.parse::<u64>().ok()).unwrap_or(if cfg!(stunmon_asan) { 6 } else { 1 }).clamp(1, 100);
        let limit_ms = limit_ms * scale;
        WD_LIMIT_MS.store(limit_ms, Ordering::SeqCst);
        #[cfg(not(miri))]
        {
            let t0c = t0;
            std::thread::spawn(move || loop {
                std::thread::sleep(std::time::Duration::from_millis(250));
                let st = WD_START_MS.load(Ordering::SeqCst);
                if st == 0 {
                    continue;
                }
                let now = now_ms(t0c);
                if now > st && now - st > WD_CUR_LIMIT_MS.load(Ordering::SeqCst) {
                    // the main thread is stuck inside one library call that only borrows the
                    // published buffer immutably, so reading it here is sound in practice.
                    let p = WD_PTR.load(Ordering::SeqCst);
                    let l = WD_LEN.load(Ordering::SeqCst);
                    let buf: Vec<u8> = if p.is_null() {
                        vec![]
                    } else {
                        unsafe { std::slice::from_raw_parts(p, l).to_vec() }
                    };
                    let lp = WD_LABEL.load(Ordering::SeqCst);
                    let ll = WD_LABEL_LEN.load(Ordering::SeqCst);
                    let label = if lp.is_null() {
                        String::new()
                    } else {
                        String::from_utf8_lossy(unsafe { std::slice::from_raw_parts(lp, ll) }).to_string()
                    };
                    // the witness: what the case says it is (the main thread is stuck inside the
                    // library, the case it borrowed is not changing), or the published bytes
                    let sf = WD_SRC_FN.load(Ordering::SeqCst);
                    let sd = WD_SRC_DATA.load(Ordering::SeqCst);
                    let mut witness = if sf != 0 && sd != 0 {
                        let f: fn(*const ()) -> Value = unsafe { std::mem::transmute(sf) };
                        f(sd as *const ())
                    } else if label == "AttributeFromRaw::from_raw" {
                        let a: Vec<u64> = WD_AUX.iter().map(|x| x.load(Ordering::SeqCst)).collect();
                        let mut tid = [0u8; 12];
                        tid[..8].copy_from_slice(&a[2].to_be_bytes());
                        tid[8..].copy_from_slice(&(a[3] as u32).to_be_bytes());
                        json!({"kind": "typed-decode", "attr": crate::refimpl::attrs::Kind::from_code(a[0] as u16).map(|k| k.name()).unwrap_or("?"), "raw_type": a[1], "value": crate::refimpl::crypto::hex(&buf), "tid": crate::refimpl::crypto::hex(&tid)})
                    } else {
                        json!({"kind": "bytes", "buf": crate::refimpl::crypto::hex(&buf)})
                    };
                    witness["entry"] = json!(label);
                    let rec = json!({
                        "hang": true,
                        "property": prop,
                        "label": label,
                        "elapsed_ms": now - st,
                        "witness": witness,
                    });
                    if let Some(p) = &out_path {
                        let _ = std::fs::write(format!("{p}.hang"), rec.to_string());
                    }
                    eprintln!("WATCHDOG: a single call exceeded the limit: {label} ({} bytes)", buf.len());
                    std::process::exit(3);
                }
            });
        }
        #[cfg(miri)]
        let _ = (&out_path, &prop);
        Watchdog { t0, live: true }
    }
    /// A watchdog handle that never starts a thread (for helper contexts on worker threads).
    pub fn inert() -> Watchdog {
        Watchdog { t0: Instant::now(), live: false }
    }
    /// Publish the case about to run.  `label` must be a 'static string.
    #[inline]
    pub fn enter(&self, label: &'static str, buf: &[u8]) {
        if !self.live {
            return;
        }
        WD_START_MS.store(0, Ordering::SeqCst);
        WD_PTR.store(buf.as_ptr() as *mut u8, Ordering::SeqCst);
        WD_LEN.store(buf.len(), Ordering::SeqCst);
        WD_LABEL.store(label.as_ptr() as *mut u8, Ordering::SeqCst);
        WD_LABEL_LEN.store(label.len(), Ordering::SeqCst);
        WD_CUR_LIMIT_MS.store(WD_LIMIT_MS.load(Ordering::SeqCst), Ordering::SeqCst);
        WD_START_MS.store(now_ms(self.t0), Ordering::SeqCst);
    }
    /// `enter` plus four numbers that complete the witness (see the watchdog thread).
    #[inline]
    pub fn enter_aux(&self, label: &'static str, buf: &[u8], aux: [u64; 4]) {
        for (a, v) in WD_AUX.iter().zip(aux) {
            a.store(v, Ordering::SeqCst);
        }
        self.enter(label, buf);
    }
    /// End of a call region: the enclosing case region (if any) is published again, its clock restarted.
    #[inline]
    pub fn leave(&self) {
        if !self.live {
            return;
        }
        WD_START_MS.store(0, Ordering::SeqCst);
        let ol = WD_OLABEL.load(Ordering::SeqCst);
        if ol.is_null() {
            WD_PTR.store(std::ptr::null_mut(), Ordering::SeqCst);
            WD_LEN.store(0, Ordering::SeqCst);
            return;
        }
        WD_PTR.store(WD_OPTR.load(Ordering::SeqCst), Ordering::SeqCst);
        WD_LEN.store(WD_OLEN.load(Ordering::SeqCst), Ordering::SeqCst);
        WD_LABEL.store(ol, Ordering::SeqCst);
        WD_LABEL_LEN.store(WD_OLABEL_LEN.load(Ordering::SeqCst), Ordering::SeqCst);
        WD_CUR_LIMIT_MS.store(3 * WD_LIMIT_MS.load(Ordering::SeqCst), Ordering::SeqCst);
        WD_START_MS.store(now_ms(self.t0), Ordering::SeqCst);
    }
    /// The case is making progress (a library call returned, a new one is about to start): restart the
    /// clock of the enclosing case region.  What the watchdog measures is one stretch between ticks.
    #[inline]
    pub fn tick(&self) {
        if self.live && !WD_OLABEL.load(Ordering::SeqCst).is_null() {
            WD_START_MS.store(now_ms(self.t0), Ordering::SeqCst);
        }
    }
    /// Begin a case region over a byte buffer: every stretch of work on this buffer that is not inside
    /// a call region of its own is attributed to `label` and the buffer.  Returns false (and does
    /// nothing) when a case region is already open, so that nested engines keep the outermost case.
    #[inline]
    pub fn enter_case(&self, label: &'static str, buf: &[u8]) -> bool {
        if !self.live || !WD_OLABEL.load(Ordering::SeqCst).is_null() {
            return false;
        }
        WD_OPTR.store(buf.as_ptr() as *mut u8, Ordering::SeqCst);
        WD_OLEN.store(buf.len(), Ordering::SeqCst);
        WD_OLABEL_LEN.store(label.len(), Ordering::SeqCst);
        WD_OLABEL.store(label.as_ptr() as *mut u8, Ordering::SeqCst);
        self.leave();
        true
    }
    /// Begin a case region over a case that describes itself (a history, a builder program).
    #[inline]
    pub fn enter_case_src<T: WitnessSrc>(&self, label: &'static str, src: &T) -> bool {
        if !self.live || !WD_OLABEL.load(Ordering::SeqCst).is_null() {
            return false;
        }
        WD_SRC_DATA.store(src as *const T as usize, Ordering::SeqCst);
        WD_SRC_FN.store(call_src::<T> as usize, Ordering::SeqCst);
        self.enter_case(label, &[])
    }
    /// End of the case region opened by an `enter_case*` call that returned true.
    #[inline]
    pub fn leave_case(&self, opened: bool) {
        if !opened {
            return;
        }
        WD_START_MS.store(0, Ordering::SeqCst);
        WD_SRC_FN.store(0, Ordering::SeqCst);
        WD_SRC_DATA.store(0, Ordering::SeqCst);
        WD_OLABEL.store(std::ptr::null_mut(), Ordering::SeqCst);
        WD_OPTR.store(std::ptr::null_mut(), Ordering::SeqCst);
        WD_OLEN.store(0, Ordering::SeqCst);
        WD_PTR.store(std::ptr::null_mut(), Ordering::SeqCst);
        WD_LEN.store(0, Ordering::SeqCst);
    }
}

// ---------------------------------------------------------------------------------------------

pub struct Ctx {
    pub prop: String,
    pub tier: Tier,
    pub seed: u64,
    pub shard: u64,
    pub nshards: u64,
    pub build: String,
    pub budget: f64,
    pub evals: u64,
    distinct: HashSet<u64>,
    distinct_capped: bool,
    pub counters: BTreeMap<String, u64>,
    samples: Vec<Value>,
    sample_labels: BTreeMap<String, u32>,
    sigs: BTreeMap<String, u64>,
    pub violations: Vec<Value>,
    pub foreign: BTreeMap<String, u64>,
    pub notes: Vec<String>,
    pub inconclusive: Vec<String>,
    pub sets: BTreeMap<String, std::collections::BTreeSet<String>>,
    pub wd: Watchdog,
    pub t0: Instant,
    pub eventlog: Option<std::io::BufWriter<std::fs::File>>,
    pub eventlog_left: u64,
    pub replaying: bool,
    pub requires: BTreeMap<String, u64>,
    pub quiet: bool,
}

impl Ctx {
    pub fn new(prop: &str, tier: Tier, seed: u64, shard: u64, nshards: u64, out: Option<String>) -> Ctx {
        let wd = Watchdog::start(out, prop.to_string(), 10_000);
        Ctx::new_with(prop, tier, seed, shard, nshards, wd)
    }

    fn new_with(prop: &str, tier: Tier, seed: u64, shard: u64, nshards: u64, wd: Watchdog) -> Ctx {
        install_panic_hook();
        crate::trace_sub::install();
        let build = if cfg!(miri) {
            "miri"
        } else if cfg!(stunmon_asan) {
            "asan"
        } else if cfg!(debug_assertions) {
            "checked"
        } else {
            "release"
        };
        let mut budget = std::env::var("VERIF_BUDGET").ok().and_then(|s| s.parse::<f64>().ok()).unwrap_or(1.0);
        // the thorough tier of the cheap properties is scaled up so that every thorough run explores
        // for minutes, not seconds (measured on 16 cores: see DESIGN.md 11.7)
        if tier == Tier::Thorough {
            budget *= match prop {
                "C17" | "C19" => 20.0,
                "C12" | "C14" => 8.0,
                "C16" => 6.0,
                "C13" | "C04" => 4.0,
                "C08" | "C09" | "C10" => 2.0,
                _ => 1.0,
            };
        }
        Ctx {
            prop: prop.to_string(),
            tier,
            seed,
            shard,
            nshards,
            build: build.to_string(),
            budget,
            evals: 0,
            distinct: HashSet::new(),
            distinct_capped: false,
            counters: BTreeMap::new(),
            samples: vec![],
            sample_labels: BTreeMap::new(),
            sigs: BTreeMap::new(),
            violations: vec![],
            foreign: BTreeMap::new(),
            notes: vec![],
            inconclusive: vec![],
            sets: BTreeMap::new(),
            wd,
            quiet: false,
            t0: Instant::now(),
            eventlog: None,
            eventlog_left: 0,
            replaying: false,
            requires: BTreeMap::new(),
        }
    }

    /// A context without its own watchdog thread (worker threads of the C20 variants).
    pub fn new_quiet(prop: &str, tier: Tier, seed: u64, shard: u64, nshards: u64) -> Ctx {
        let mut c = Ctx::new_with(prop, tier, seed, shard, nshards, Watchdog::inert());
        c.quiet = true;
        c
    }

    /// scale a case count by tier budget
    pub fn n(&self, quick: u64, thorough: u64) -> u64 {
        let base = match self.tier {
            Tier::Quick => quick,
            Tier::Thorough => thorough,
        };
        let per = ((base as f64 * self.budget) / self.nshards as f64).ceil() as u64;
        per.max(1)
    }

    /// true if global index `i` of a systematic enumeration belongs to this shard
    #[inline]
    pub fn mine(&self, i: u64) -> bool {
        i % self.nshards == self.shard
    }

    pub fn rng(&self, stream: &str, idx: u64) -> crate::prng::Rng {
        crate::prng::Rng::from_parts(
            self.seed,
            &format!("{}/{}/{}", self.prop, self.tier.name(), stream),
            self.shard,
            idx,
        )
    }

    #[inline]
    pub fn eval(&mut self) {
        self.evals += 1;
    }
    #[inline]
    pub fn evals_n(&mut self, n: u64) {
        self.evals += n;
    }
    #[inline]
    pub fn distinct(&mut self, key: u64) {
        if self.distinct.len() < if self.tier == Tier::Thorough { DISTINCT_CAP_THOROUGH } else { DISTINCT_CAP } {
            self.distinct.insert(key);
        } else {
            self.distinct_capped = true;
        }
    }
    #[inline]
    pub fn count(&mut self, name: &str) {
        if let Some(c) = self.counters.get_mut(name) {
            *c += 1;
        } else {
            self.counters.insert(name.to_string(), 1);
        }
    }
    pub fn count_n(&mut self, name: &str, n: u64) {
        *self.counters.entry(name.to_string()).or_insert(0) += n;
    }
    pub fn set_insert(&mut self, set: &str, item: String) {
        let s = self.sets.entry(set.to_string()).or_default();
        if s.len() < 4096 {
            s.insert(item);
        }
    }
    /// keep up to 2 samples per label, MAX_SAMPLES+ in total
    pub fn sample(&mut self, label: &str, f: impl FnOnce() -> Value) {
        let c = self.sample_labels.entry(label.to_string()).or_insert(0);
        if *c >= 2 || self.samples.len() >= MAX_SAMPLES * 3 {
            return;
        }
        *c += 1;
        let mut v = f();
        if let Value::Object(m) = &mut v {
            m.insert("label".into(), Value::String(label.to_string()));
        }
        self.samples.push(v);
    }

    /// Record a failed assertion.  `tag` is the property the assertion belongs to; failures
    /// tagged with another property than the one being checked are only counted.
    #[allow(clippy::too_many_arguments)]
    pub fn violation(
        &mut self,
        tag: &str,
        assertion: &str,
        entry: &str,
        feature: &str,
        witness: impl FnOnce() -> Value,
        expected: String,
        observed: String,
    ) {
        if tag != self.prop {
            *self.foreign.entry(format!("{tag}|{assertion}|{entry}")).or_insert(0) += 1;
            return;
        }
        let sig = format!("{tag}|{assertion}|{entry}|{feature}");
        let n = self.sigs.entry(sig.clone()).or_insert(0);
        *n += 1;
        if *n <= MAX_WITNESS_PER_SIG && self.violations.len() < MAX_SIGS {
            self.violations.push(json!({
                "property": tag,
                "signature": sig,
                "assertion": assertion,
                "entry": entry,
                "feature": feature,
                "expected": expected,
                "observed": observed,
                "build": self.build,
                "seed": self.seed,
                "tier": self.tier.name(),
                "shard": self.shard,
                "witness": witness(),
            }));
        }
    }

    /// Declare a reach threshold: the driver sums counter `name` over all shards and builds and
    /// reports `inconclusive` if the total is below `min_total`.
    pub fn require(&mut self, name: &str, min_total: u64) {
        self.requires.insert(name.to_string(), min_total);
        self.counters.entry(name.to_string()).or_insert(0);
    }

    pub fn has_violations(&self) -> bool {
        !self.sigs.is_empty()
    }

    pub fn log_event(&mut self, v: impl FnOnce() -> Value) {
        if self.eventlog_left == 0 {
            return;
        }
        if let Some(w) = &mut self.eventlog {
            use std::io::Write;
            let _ = writeln!(w, "{}", v());
            self.eventlog_left -= 1;
        }
    }

    pub fn finish(mut self, keys_path: Option<&str>) -> Value {
        if let Some(w) = &mut self.eventlog {
            use std::io::Write;
            let _ = w.flush();
        }
        if let Some(p) = keys_path {
            let mut bytes = Vec::with_capacity(self.distinct.len() * 8);
            for k in &self.distinct {
                bytes.extend_from_slice(&k.to_le_bytes());
            }
            let _ = std::fs::write(p, bytes);
        }
        let mut sets = Map::new();
        for (k, v) in &self.sets {
            sets.insert(k.clone(), Value::Array(v.iter().map(|s| Value::String(s.clone())).collect()));
        }
        json!({
            "property": self.prop,
            "tier": self.tier.name(),
            "seed": self.seed,
            "shard": self.shard,
            "nshards": self.nshards,
            "build": self.build,
            "evaluations": self.evals,
            "distinct": self.distinct.len(),
            "distinct_capped": self.distinct_capped,
            "counters": self.counters,
            "sets": Value::Object(sets),
            "samples": self.samples,
            "violation_counts": self.sigs,
            "violations": self.violations,
            "foreign_assertions": self.foreign,
            "notes": self.notes,
            "inconclusive": self.inconclusive,
            "requires": self.requires,
            "wall_s": self.t0.elapsed().as_secs_f64(),
        })
    }
}

pub fn hash64(parts: &[u64]) -> u64 {
    let mut h: u64 = 0xcbf2_9ce4_8422_2325;
    for p in parts {
        for b in p.to_le_bytes() {
            h ^= b as u64;
            h = h.wrapping_mul(0x0000_0100_0000_01b3);
        }
    }
    h
}

pub fn hash_bytes(b: &[u8]) -> u64 {
    crate::prng::fnv(b)
}
