//! splitmix64 seeded xoshiro256** — every generated case is a pure function of
//! (VERIF_SEED, property, tier, shard, stream, case index).

#[derive(Clone, Debug)]
pub struct Rng {
    s: [u64; 4],
}

fn splitmix(x: &mut u64) -> u64 {
    *x = x.wrapping_add(0x9E37_79B9_7F4A_7C15);
    let mut z = *x;
    z = (z ^ (z >> 30)).wrapping_mul(0xBF58_476D_1CE4_E5B9);
    z = (z ^ (z >> 27)).wrapping_mul(0x94D0_49BB_1331_11EB);
    z ^ (z >> 31)
}

pub fn fnv(s: &[u8]) -> u64 {
    let mut h: u64 = 0xcbf2_9ce4_8422_2325;
    for b in s {
        h ^= *b as u64;
        h = h.wrapping_mul(0x0000_0100_0000_01b3);
    }
    h
}

impl Rng {
    pub fn new(seed: u64) -> Self {
        let mut x = seed;
        let s = [splitmix(&mut x), splitmix(&mut x), splitmix(&mut x), splitmix(&mut x)];
        Rng { s }
    }
    pub fn from_parts(seed: u64, label: &str, a: u64, b: u64) -> Self {
        let mut x = seed ^ fnv(label.as_bytes()).rotate_left(17);
        let _ = splitmix(&mut x);
        x ^= a.wrapping_mul(0xA24B_AED4_963E_E407);
        let _ = splitmix(&mut x);
        x ^= b.wrapping_mul(0x9FB2_1C65_1E98_DF25);
        Rng::new(splitmix(&mut x))
    }
    pub fn next(&mut self) -> u64 {
        let r = self.s[1].wrapping_mul(5).rotate_left(7).wrapping_mul(9);
        let t = self.s[1] << 17;
        self.s[2] ^= self.s[0];
        self.s[3] ^= self.s[1];
        self.s[1] ^= self.s[2];
        self.s[0] ^= self.s[3];
        self.s[2] ^= t;
        self.s[3] = self.s[3].rotate_left(45);
        r
    }
    /// uniform in 0..n (n > 0)
    pub fn below(&mut self, n: u64) -> u64 {
        debug_assert!(n > 0);
        ((self.next() as u128 * n as u128) >> 64) as u64
    }
    pub fn range(&mut self, lo: u64, hi_incl: u64) -> u64 {
        lo + self.below(hi_incl - lo + 1)
    }
    pub fn usize(&mut self, n: usize) -> usize {
        self.below(n as u64) as usize
    }
    pub fn chance(&mut self, num: u64, den: u64) -> bool {
        self.below(den) < num
    }
    pub fn byte(&mut self) -> u8 {
        self.next() as u8
    }
    pub fn bytes(&mut self, n: usize) -> Vec<u8> {
        let mut v = Vec::with_capacity(n);
        while v.len() + 8 <= n {
            v.extend_from_slice(&self.next().to_le_bytes());
        }
        while v.len() < n {
            v.push(self.byte());
        }
        v
    }
    pub fn pick<'a, T>(&mut self, v: &'a [T]) -> &'a T {
        &v[self.usize(v.len())]
    }
    pub fn u128(&mut self) -> u128 {
        ((self.next() as u128) << 64) | self.next() as u128
    }
    pub fn shuffle<T>(&mut self, v: &mut [T]) {
        for i in (1..v.len()).rev() {
            let j = self.usize(i + 1);
            v.swap(i, j);
        }
    }
}
