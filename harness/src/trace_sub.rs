//! A `tracing::Subscriber` that enables everything at TRACE and formats every span field, event
//! field, `ret` and `err` value (so that every `#[instrument]`/`debug!` formatter in the library
//! actually runs), deterministically and without reading a clock.

use std::cell::Cell;
use std::fmt::Write;
use std::sync::atomic::{AtomicU64, Ordering};
use tracing::field::{Field, Visit};
use tracing::span::{Attributes, Id, Record};
use tracing::{Event, Metadata, Subscriber};

pub struct FmtAll {
    next: AtomicU64,
}

thread_local! {
    pub static FORMATTED_BYTES: Cell<u64> = const { Cell::new(0) };
    pub static EVENTS: Cell<u64> = const { Cell::new(0) };
    pub static SPANS: Cell<u64> = const { Cell::new(0) };
}

struct V {
    buf: String,
}

impl Visit for V {
    fn record_debug(&mut self, field: &Field, value: &dyn std::fmt::Debug) {
        let _ = write!(self.buf, "{}={:?};", field.name(), value);
    }
    fn record_str(&mut self, field: &Field, value: &str) {
        let _ = write!(self.buf, "{}={};", field.name(), value);
    }
    fn record_error(&mut self, field: &Field, value: &(dyn std::error::Error + 'static)) {
        let _ = write!(self.buf, "{}={};", field.name(), value);
    }
}

impl FmtAll {
    pub fn new() -> Self {
        FmtAll { next: AtomicU64::new(1) }
    }
}

impl Default for FmtAll {
    fn default() -> Self {
        Self::new()
    }
}

fn account(v: V) {
    FORMATTED_BYTES.with(|c| c.set(c.get() + v.buf.len() as u64));
}

impl Subscriber for FmtAll {
    fn enabled(&self, _m: &Metadata<'_>) -> bool {
        true
    }
    fn new_span(&self, span: &Attributes<'_>) -> Id {
        let mut v = V { buf: String::new() };
        span.record(&mut v);
        account(v);
        SPANS.with(|c| c.set(c.get() + 1));
        Id::from_u64(self.next.fetch_add(1, Ordering::Relaxed))
    }
    fn record(&self, _span: &Id, values: &Record<'_>) {
        let mut v = V { buf: String::new() };
        values.record(&mut v);
        account(v);
    }
    fn record_follows_from(&self, _span: &Id, _follows: &Id) {}
    fn event(&self, event: &Event<'_>) {
        let mut v = V { buf: String::new() };
        event.record(&mut v);
        account(v);
        EVENTS.with(|c| c.set(c.get() + 1));
    }
    fn enter(&self, _span: &Id) {}
    fn exit(&self, _span: &Id) {}
}

thread_local! {
    static DISPATCH: tracing::Dispatch = tracing::Dispatch::new(FmtAll::new());
}

/// Run `f` with the formatting subscriber as this thread's default.
pub fn with_subscriber<T>(f: impl FnOnce() -> T) -> T {
    DISPATCH.with(|d| tracing::dispatcher::with_default(d, f))
}

pub fn formatted_bytes() -> u64 {
    FORMATTED_BYTES.with(|c| c.get())
}
pub fn events() -> u64 {
    EVENTS.with(|c| c.get())
}
pub fn spans() -> u64 {
    SPANS.with(|c| c.get())
}
