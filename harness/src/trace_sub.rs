//! A `tracing::Subscriber` that enables everything at TRACE and formats every span field, event
//! field, `ret` and `err` value (so that every `#[instrument]`/`debug!` formatter in the library
//! actually runs), deterministically and without reading a clock.

use std::cell::Cell;
use std::fmt::Write;
use std::sync::atomic::{AtomicU64, Ordering};
use tracing::field::{Field, Visit};
use tracing::span::{Attributes, Id, Record};
use tracing::{Event, Metadata, Subscriber};

pub struct FmtAll {
    next: AtomicU64,
}

thread_local! {
    pub static FORMATTED_BYTES: Cell<u64> = const { Cell::new(0) };
    pub static EVENTS: Cell<u64> = const { Cell::new(0) };
    pub static SPANS: Cell<u64> = const { Cell::new(0) };
}

struct V {
    buf: String,
}

impl Visit for V {
    fn record_debug(&mut self, field: &Field, value: &dyn std::fmt::Debug) {
        let _ = write!(self.buf, "{}={:?};", field.name(), value);
    }
    fn record_str(&mut self, field: &Field, value: &str) {
        let _ = write!(self.buf, "{}={};", field.name(), value);
    }
    fn record_error(&mut self, field: &Field, value: &(dyn std::error::Error + 'static)) {
        let _ = write!(self.buf, "{}={};", field.name(), value);
    }
}

impl FmtAll {
    pub fn new() -> Self {
        FmtAll { next: AtomicU64::new(1) }
    }
}

impl Default for FmtAll {
    fn default() -> Self {
        Self::new()
    }
}

fn account(v: V) {
    FORMATTED_BYTES.with(|c| c.set(c.get() + v.buf.len() as u64));
}

impl Subscriber for FmtAll {
    // The subscriber is the process-wide default from the first use on; whether it listens is a
    // per-thread switch that `enabled` consults for every event and span ("sometimes" interest).  A
    // scoped (thread-local) dispatcher does not work here: tracing caches a callsite's interest the
    // first time the callsite is hit, and a callsite first hit outside the scope stays disabled for good.
    fn register_callsite(&self, _m: &'static Metadata<'static>) -> tracing::subscriber::Interest {
        tracing::subscriber::Interest::sometimes()
    }
    fn enabled(&self, _m: &Metadata<'_>) -> bool {
        ACTIVE.with(|a| a.get())
    }
    fn max_level_hint(&self) -> Option<tracing::level_filters::LevelFilter> {
        Some(tracing::level_filters::LevelFilter::TRACE)
    }
    fn new_span(&self, span: &Attributes<'_>) -> Id {
        let mut v = V { buf: String::new() };
        span.record(&mut v);
        account(v);
        SPANS.with(|c| c.set(c.get() + 1));
        Id::from_u64(self.next.fetch_add(1, Ordering::Relaxed))
    }
    fn record(&self, _span: &Id, values: &Record<'_>) {
        let mut v = V { buf: String::new() };
        values.record(&mut v);
        account(v);
    }
    fn record_follows_from(&self, _span: &Id, _follows: &Id) {}
    fn event(&self, event: &Event<'_>) {
        let mut v = V { buf: String::new() };
        event.record(&mut v);
        account(v);
        EVENTS.with(|c| c.set(c.get() + 1));
    }
    fn enter(&self, _span: &Id) {}
    fn exit(&self, _span: &Id) {}
}

thread_local! {
    static ACTIVE: Cell<bool> = const { Cell::new(false) };
}

/// Install the subscriber as the process-wide default (idempotent).
pub fn install() {
    static ONCE: std::sync::Once = std::sync::Once::new();
    ONCE.call_once(|| {
        let _ = tracing::dispatcher::set_global_default(tracing::Dispatch::new(FmtAll::new()));
    });
}

/// Run `f` with the formatting subscriber listening on this thread (everything enabled at TRACE,
/// every field formatted).  Restores the previous state also when `f` unwinds.
pub fn with_subscriber<T>(f: impl FnOnce() -> T) -> T {
    install();
    struct Reset(bool);
    impl Drop for Reset {
        fn drop(&mut self) {
            ACTIVE.with(|a| a.set(self.0));
        }
    }
    let _r = Reset(ACTIVE.with(|a| a.replace(true)));
    f()
}

/// Is the subscriber really receiving the library's events?  (one parse of a short buffer must log)
pub fn probe() -> bool {
    let before = events() + spans();
    with_subscriber(|| {
        let _ = stun_types::message::Message::from_bytes(&[0u8; 4]);
        tracing::trace!("stunmon probe");
    });
    events() + spans() > before
}

pub fn formatted_bytes() -> u64 {
    FORMATTED_BYTES.with(|c| c.get())
}
pub fn events() -> u64 {
    EVENTS.with(|c| c.get())
}
pub fn spans() -> u64 {
    SPANS.with(|c| c.get())
}
