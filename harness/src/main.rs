use serde_json::{json, Value};
use stunmon::ctx::{Ctx, Tier};

// ---------------------------------------------------------------------------------------------
// Clock interposers.  They must live in the binary crate to win symbol resolution against libc
// for the statically linked std.  They forward to the raw syscall and count.
#[cfg(all(not(miri), target_os = "linux"))]
mod interpose {
    use stunmon::clock::on_clock_read;

    #[no_mangle]
    pub unsafe extern "C" fn clock_gettime(clk: libc::clockid_t, ts: *mut libc::timespec) -> libc::c_int {
        on_clock_read();
        libc::syscall(libc::SYS_clock_gettime, clk, ts) as libc::c_int
    }

    #[no_mangle]
    pub unsafe extern "C" fn gettimeofday(tv: *mut libc::timeval, tz: *mut libc::c_void) -> libc::c_int {
        on_clock_read();
        libc::syscall(libc::SYS_gettimeofday, tv, tz) as libc::c_int
    }

    /// Environment reads are ambient state too (C20): `std::env::var` goes through libc's getenv.
    /// Re-implemented over `environ` (the libc one cannot be reached once it is shadowed).
    #[no_mangle]
    pub unsafe extern "C" fn getenv(name: *const libc::c_char) -> *mut libc::c_char {
        extern "C" {
            static environ: *const *mut libc::c_char;
        }
        stunmon::clock::on_env_read();
        if name.is_null() || environ.is_null() {
            return std::ptr::null_mut();
        }
        let n = libc::strlen(name);
        let mut p = environ;
        while !(*p).is_null() {
            let e = *p;
            if libc::strncmp(e, name, n) == 0 && *e.add(n) == b'=' as libc::c_char {
                return e.add(n + 1);
            }
            p = p.add(1);
        }
        std::ptr::null_mut()
    }

    #[no_mangle]
    pub unsafe extern "C" fn secure_getenv(name: *const libc::c_char) -> *mut libc::c_char {
        getenv(name)
    }

    #[no_mangle]
    pub unsafe extern "C" fn time(t: *mut libc::time_t) -> libc::time_t {
        on_clock_read();
        let mut ts = libc::timespec { tv_sec: 0, tv_nsec: 0 };
        libc::syscall(libc::SYS_clock_gettime, libc::CLOCK_REALTIME, &mut ts as *mut libc::timespec);
        if !t.is_null() {
            *t = ts.tv_sec;
        }
        ts.tv_sec
    }
}

// ---------------------------------------------------------------------------------------------
// Crash handler: a fatal signal (abort from an allocation failure, stack overflow, sanitizer
// trap) inside a library call dumps the currently published input next to the shard output so the
// driver can replay it in isolation.  Only async-signal-safe calls are made.
#[cfg(all(not(miri), target_os = "linux"))]
mod crash {
    use std::sync::atomic::{AtomicPtr, Ordering};
    static PATH: AtomicPtr<libc::c_char> = AtomicPtr::new(std::ptr::null_mut());

    extern "C" fn handler(sig: libc::c_int) {
        unsafe {
            let p = PATH.load(Ordering::SeqCst);
            if !p.is_null() {
                let fd = libc::open(p, libc::O_WRONLY | libc::O_CREAT | libc::O_TRUNC, 0o644);
                if fd >= 0 {
                    let (bp, bl, lp, ll) = stunmon::ctx::current_case_raw();
                    let hdr = [sig as u8, ll as u8];
                    libc::write(fd, hdr.as_ptr() as *const libc::c_void, 2);
                    if !lp.is_null() {
                        libc::write(fd, lp as *const libc::c_void, ll & 0xff);
                    }
                    if !bp.is_null() {
                        libc::write(fd, bp as *const libc::c_void, bl);
                    }
                    libc::close(fd);
                }
            }
            libc::_exit(4);
        }
    }

    pub fn install(out: &str) {
        let c = std::ffi::CString::new(format!("{out}.crash")).unwrap();
        PATH.store(c.into_raw(), Ordering::SeqCst);
        unsafe {
            for sig in [libc::SIGSEGV, libc::SIGABRT, libc::SIGBUS, libc::SIGILL, libc::SIGFPE] {
                let mut sa: libc::sigaction = std::mem::zeroed();
                sa.sa_sigaction = handler as *const () as usize;
                sa.sa_flags = libc::SA_ONSTACK;
                libc::sigemptyset(&mut sa.sa_mask);
                libc::sigaction(sig, &sa, std::ptr::null_mut());
            }
        }
    }
}

fn arg_val(args: &[String], name: &str) -> Option<String> {
    args.iter().position(|a| a == name).and_then(|i| args.get(i + 1).cloned())
}

fn usage() -> ! {
    eprintln!(
        "usage: stunmon run <Cxx> --tier quick|thorough --seed N --shard i/n --out FILE [--keys FILE] [--eventlog FILE]\n       stunmon replay <witness.json> [--out FILE]\n       stunmon merge-keys FILE...\n       stunmon selftest"
    );
    std::process::exit(64)
}

fn main() {
    let args: Vec<String> = std::env::args().collect();
    if args.len() < 2 {
        usage();
    }
    match args[1].as_str() {
        "selftest" => match stunmon::refimpl::crypto::self_test() {
            Ok(()) => println!("reference self-test ok"),
            Err(e) => {
                eprintln!("HARNESS-FAULT {e}");
                std::process::exit(2);
            }
        },
        "fuzz-witness" => {
            // print the replayable witness for a libFuzzer artefact
            let data = std::fs::read(args.get(2).cloned().unwrap_or_else(|| usage())).expect("read artefact");
            println!("{}", json!({"property": "C01", "seed": 0, "witness": stunmon::fuzz::witness(&data)}));
        }
        "gen-corpus" => {
            // seed corpus for the fuzz target: grammar-generated messages and mutants
            let dir = args.get(2).cloned().unwrap_or_else(|| usage());
            let n: u64 = args.get(3).and_then(|s| s.parse().ok()).unwrap_or(200);
            let seed: u64 = args.get(4).and_then(|s| s.parse().ok()).unwrap_or(0);
            std::fs::create_dir_all(&dir).expect("corpus dir");
            let mut rng = stunmon::prng::Rng::from_parts(seed, "corpus", 0, 0);
            for i in 0..n {
                let (b, _) = stunmon::gen::msg::gen_message(&mut rng, 5);
                let b = if i % 3 == 2 { stunmon::gen::msg::mutate(&mut rng, &b, None) } else { b };
                if b.len() > 4000 {
                    continue;
                }
                let mut data = vec![rng.byte(), rng.byte()];
                data.extend_from_slice(&b);
                std::fs::write(format!("{dir}/seed-{i:05}"), data).expect("write corpus file");
            }
        }
        "merge-keys" => {
            let mut set = std::collections::HashSet::new();
            for f in &args[2..] {
                if let Ok(b) = std::fs::read(f) {
                    for c in b.chunks_exact(8) {
                        let mut a = [0u8; 8];
                        a.copy_from_slice(c);
                        set.insert(u64::from_le_bytes(a));
                    }
                }
            }
            println!("{}", set.len());
        }
        "run" => {
            let prop = args.get(2).cloned().unwrap_or_else(|| usage());
            let tier = match arg_val(&args, "--tier").as_deref() {
                Some("thorough") => Tier::Thorough,
                _ => Tier::Quick,
            };
            let seed: u64 = arg_val(&args, "--seed").and_then(|s| s.parse().ok()).unwrap_or(0);
            let (shard, nshards) = arg_val(&args, "--shard")
                .and_then(|s| {
                    let mut it = s.split('/');
                    Some((it.next()?.parse::<u64>().ok()?, it.next()?.parse::<u64>().ok()?))
                })
                .unwrap_or((0, 1));
            let out = arg_val(&args, "--out");
            let keys = arg_val(&args, "--keys");
            if let Err(e) = stunmon::refimpl::crypto::self_test() {
                let v = json!({"property": prop, "harness_fault": e});
                if let Some(o) = &out {
                    let _ = std::fs::write(o, v.to_string());
                }
                eprintln!("HARNESS-FAULT {e}");
                std::process::exit(2);
            }
            #[cfg(all(not(miri), target_os = "linux"))]
            if let Some(o) = &out {
                crash::install(o);
            }
            let mut ctx = Ctx::new(&prop, tier, seed, shard, nshards, out.clone());
            if let Some(p) = arg_val(&args, "--eventlog") {
                if let Ok(f) = std::fs::File::create(&p) {
                    ctx.eventlog = Some(std::io::BufWriter::new(f));
                    ctx.eventlog_left = arg_val(&args, "--eventlog-max").and_then(|s| s.parse().ok()).unwrap_or(400);
                }
            }
            if let Some(m) = arg_val(&args, "--mode") {
                ctx.notes.push(format!("mode={m}"));
            }
            let res = stunmon::mon::run(&prop, &mut ctx);
            let mut v = ctx.finish(keys.as_deref());
            if let Err(e) = res {
                v["harness_fault"] = Value::String(e.clone());
                eprintln!("HARNESS-FAULT {e}");
            }
            let fault = v.get("harness_fault").is_some();
            let viol = v["violation_counts"].as_object().map(|m| !m.is_empty()).unwrap_or(false);
            match &out {
                Some(o) => std::fs::write(o, v.to_string()).expect("write shard output"),
                None => println!("{}", serde_json::to_string_pretty(&v).unwrap()),
            }
            std::process::exit(if fault { 2 } else if viol { 1 } else { 0 });
        }
        "replay" => {
            let path = args.get(2).cloned().unwrap_or_else(|| usage());
            let txt = std::fs::read_to_string(&path).expect("read witness file");
            let w: Value = serde_json::from_str(&txt).expect("witness json");
            let prop = w["property"].as_str().expect("property").to_string();
            let out = arg_val(&args, "--out");
            let mut ctx = Ctx::new(&prop, Tier::Quick, w["seed"].as_u64().unwrap_or(0), 0, 1, out.clone());
            ctx.replaying = true;
            // second stage of the hang rule: one input, alone, 55 s per call (the driver's outer limit is 60 s)
            stunmon::ctx::set_watchdog_limit(55_000);
            let res = stunmon::mon::replay(&prop, &mut ctx, &w["witness"]);
            let mut v = ctx.finish(None);
            if let Err(e) = res {
                v["harness_fault"] = Value::String(e);
            }
            let fault = v.get("harness_fault").is_some();
            let viol = v["violation_counts"].as_object().map(|m| !m.is_empty()).unwrap_or(false);
            match &out {
                Some(o) => std::fs::write(o, v.to_string()).expect("write output"),
                None => println!("{}", serde_json::to_string_pretty(&v).unwrap()),
            }
            std::process::exit(if fault { 2 } else if viol { 1 } else { 0 });
        }
        _ => usage(),
    }
}
