//! Grammar generator, mutators and skeleton enumerator for STUN byte buffers.  Everything is
//! encoded by the harness's own encoder (refimpl::parse), never through `MessageBuilder`.

use super::vals::*;
use crate::prng::Rng;
use crate::refimpl::attrs::{ref_encode, Kind, ALL_KINDS};
use crate::refimpl::parse::*;

pub const ORD_REQ: u16 = 0x7f01; // unknown comprehension-required type
pub const ORD_OPT: u16 = 0xff01; // unknown comprehension-optional type

#[derive(Clone, Debug)]
pub struct GenMsg {
    pub class: u8,
    pub method: u16,
    pub tid: [u8; 12],
    pub tlvs: Vec<Tlv>,
    pub seals: Vec<Seal>,
    pub creds: RefCreds,
}

pub fn gen_tid(rng: &mut Rng) -> [u8; 12] {
    let mut t = [0u8; 12];
    match rng.below(8) {
        0 => {}
        1 => t.fill(0xff),
        2 => t[rng.usize(12)] = 1 << rng.usize(8),
        3 => {
            // cookie pattern
            for i in 0..12 {
                t[i] = COOKIE[i % 4];
            }
        }
        _ => {
            for b in t.iter_mut() {
                *b = rng.byte();
            }
        }
    }
    t
}

pub fn gen_method(rng: &mut Rng) -> u16 {
    match rng.below(6) {
        0 => 1,
        1 => 0,
        2 => 0xfff,
        3 => *rng.pick(&[0x003u16, 0x004, 0x006, 0x007, 0x008, 0x009, 0x00a, 0x00b, 0x080, 0x100, 0x800]),
        _ => rng.below(0x1000) as u16,
    }
}

/// Value length biased to padding residues and limits.
pub fn gen_value_len(rng: &mut Rng) -> usize {
    const L: [usize; 26] = [
        0, 1, 2, 3, 4, 5, 7, 8, 16, 19, 20, 21, 24, 28, 32, 33, 36, 512, 513, 514, 515, 762, 763, 764, 767, 768,
    ];
    match rng.below(10) {
        0..=5 => L[rng.usize(17)],
        6 | 7 => L[rng.usize(L.len())],
        _ => rng.usize(120),
    }
}

/// An ordinary (non-sealing) TLV: one of the 16 built-in ordinary kinds with a valid or an invalid
/// value, or an unknown comprehension-required / optional type.
pub fn gen_ordinary_tlv(rng: &mut Rng, tid: &[u8; 12]) -> Tlv {
    let r = rng.below(10);
    let mut t = if r < 6 {
        let kinds = crate::refimpl::attrs::ordinary_kinds();
        let k = *rng.pick(&kinds);
        if rng.chance(3, 4) {
            let v = gen_refval(rng, k);
            Tlv::new(k.code(), ref_encode(k, &v, tid).unwrap())
        } else {
            let n = gen_value_len(rng);
            let c = rng.below(CONTENT_CLASSES as u64) as u32;
            Tlv::new(k.code(), content_class(rng, c, n))
        }
    } else {
        let ty = match rng.below(8) {
            0 => ORD_REQ,
            1 => ORD_OPT,
            2 => 0x0001, // MAPPED-ADDRESS (known name, no typed decoder)
            3 => 0x0000,
            4 => 0x7fff,
            5 => 0x8000,
            6 => 0xffff,
            _ => {
                // random type that is not a sealing type
                loop {
                    let t = rng.next() as u16;
                    if t != MI && t != MI256 && t != FP {
                        break t;
                    }
                }
            }
        };
        let n = gen_value_len(rng);
        let mut v = rng.bytes(n);
        // values that look like STUN themselves (a relayed message inside a DATA-like attribute, a value
        // whose tail is a sealing attribute): nothing inside a value is ever an attribute of the message
        match rng.below(12) {
            0 => {
                let inner_tid = gen_tid(rng);
                let mut inner = encode(rng.below(4) as u8, 1, &inner_tid, &[Tlv::new(0x8022, b"inner".to_vec())]);
                seal(&mut inner, Seal::Fingerprint, &[]);
                v = inner;
            }
            1 => {
                let crc = rng.bytes(4);
                v.extend_from_slice(&[0x80, 0x28, 0x00, 0x04]);
                v.extend_from_slice(&crc);
            }
            2 => {
                v.extend_from_slice(&[0x00, 0x08, 0x00, 0x14]);
                v.extend_from_slice(&rng.bytes(20));
            }
            3 => {
                v.extend_from_slice(&[0x00, 0x1c, 0x00, 0x20]);
                v.extend_from_slice(&rng.bytes(32));
            }
            _ => {}
        }
        Tlv::new(ty, v)
    };
    if rng.chance(1, 5) {
        t.pad_byte = *rng.pick(&[0xffu8, 0x20, 0x01, 0xa5]);
    }
    t
}

pub fn gen_tail(rng: &mut Rng) -> Vec<Seal> {
    let sha_len = |rng: &mut Rng| 16 + 4 * rng.usize(5);
    match rng.below(24) {
        0..=5 => vec![],
        6 => vec![Seal::Sha1],
        7 => vec![Seal::Sha256(sha_len(rng))],
        8 => vec![Seal::Fingerprint],
        9 => vec![Seal::Sha1, Seal::Fingerprint],
        10 => vec![Seal::Sha256(sha_len(rng)), Seal::Fingerprint],
        11 => vec![Seal::Sha1, Seal::Sha256(sha_len(rng))],
        12 => vec![Seal::Sha1, Seal::Sha256(sha_len(rng)), Seal::Fingerprint],
        13 => vec![Seal::Sha256(sha_len(rng)), Seal::Sha1],
        14 => vec![Seal::Sha256(sha_len(rng)), Seal::Sha1, Seal::Fingerprint],
        15 => vec![Seal::Fingerprint, Seal::Sha1],
        16 => vec![Seal::Fingerprint, Seal::Sha256(32)],
        17 => vec![Seal::Sha1, Seal::Sha1],
        18 => vec![Seal::Fingerprint, Seal::Fingerprint],
        19 => vec![Seal::BadSha1, Seal::Fingerprint],
        20 => vec![Seal::Sha1, Seal::BadFingerprint],
        21 => vec![Seal::BadSha256(sha_len(rng))],
        22 => vec![Seal::Sha1, Seal::BadSha256(sha_len(rng)), Seal::Fingerprint],
        _ => {
            // arbitrary sequence of up to 4 sealing attributes
            let n = 1 + rng.usize(4);
            (0..n)
                .map(|_| match rng.below(7) {
                    6 => {
                        let (ty, n) = *rng.pick(&[(MI, 16usize), (MI, 24), (MI, 0), (MI, 19), (MI, 21), (MI256, 36), (MI256, 18), (MI256, 12), (MI256, 0), (MI256, 33)]);
                        Seal::OddLen(ty, n)
                    }
                    0 => Seal::Sha1,
                    1 => Seal::Sha256(sha_len(rng)),
                    2 => Seal::Fingerprint,
                    3 => Seal::BadSha1,
                    4 => Seal::BadSha256(sha_len(rng)),
                    _ => Seal::BadFingerprint,
                })
                .collect()
        }
    }
}

pub fn build_msg(g: &GenMsg) -> Vec<u8> {
    let mut b = encode(g.class, g.method, &g.tid, &g.tlvs);
    let key = g.creds.key();
    for s in &g.seals {
        seal(&mut b, *s, &key);
    }
    b
}

/// A well-formed-by-construction message (may still be unacceptable: duplicates after integrity etc.
/// depending on `gen_tail`), plus its description.
pub fn gen_message(rng: &mut Rng, max_attrs: usize) -> (Vec<u8>, GenMsg) {
    let tid = gen_tid(rng);
    let n = match rng.below(8) {
        0 => 0,
        1 => 1,
        _ => rng.usize(max_attrs + 1),
    };
    let mut tlvs: Vec<Tlv> = vec![];
    for _ in 0..n {
        if !tlvs.is_empty() && rng.chance(1, 8) {
            // duplicate type (same or different value)
            let mut d = tlvs[rng.usize(tlvs.len())].clone();
            if rng.chance(1, 2) {
                let l = d.value.len();
                d.value = rng.bytes(l);
            }
            tlvs.push(d);
        } else {
            tlvs.push(gen_ordinary_tlv(rng, &tid));
        }
    }
    let g = GenMsg {
        class: rng.below(4) as u8,
        method: gen_method(rng),
        tid,
        tlvs,
        seals: gen_tail(rng),
        creds: gen_creds_small(rng),
    };
    (build_msg(&g), g)
}

/// A message the reference accepts (ordinary attributes, then a legal tail).
pub fn gen_valid_message(rng: &mut Rng, max_attrs: usize) -> (Vec<u8>, GenMsg) {
    loop {
        let (b, g) = gen_message(rng, max_attrs);
        if b.len() <= 65_555 && ref_parse(&b).accepted() {
            return (b, g);
        }
    }
}

/// Message sized to straddle the 16-bit length boundary: a long run of large unknown attributes so
/// that sealing attributes land at offsets around 65 500..65 552.
pub fn gen_boundary_message(rng: &mut Rng, target_total: usize, seals: &[Seal], creds: &RefCreds) -> Vec<u8> {
    let tid = gen_tid(rng);
    let mut b = encode_header(0, 1, &tid, 0);
    let tail_len: usize = seals
        .iter()
        .map(|s| match s {
            Seal::Sha1 | Seal::BadSha1 => 24,
            Seal::Sha256(n) | Seal::BadSha256(n) => 4 + n,
            Seal::Fingerprint | Seal::BadFingerprint => 8,
            Seal::OddLen(_, n) => 4 + (n + 3) / 4 * 4,
        })
        .sum();
    let body_target = target_total.saturating_sub(tail_len);
    let mut ty = 0xc000u16;
    while b.len() + 8 <= body_target {
        let room = body_target - b.len() - 4;
        let l = room.min(16_000) & !3usize;
        push_tlv(&mut b, &Tlv::new(ty, vec![0x5a; l]));
        ty = ty.wrapping_add(1);
    }
    while b.len() + 4 <= body_target {
        push_tlv(&mut b, &Tlv::new(ty, vec![]));
        ty = ty.wrapping_add(1);
    }
    let l = b.len() - 20;
    set_len(&mut b, l & 0xffff);
    let key = creds.key();
    for s in seals {
        // the largest body a header can declare is 65 532 bytes (a multiple of four): 65 552 in total
        let add = match s {
            Seal::Sha1 | Seal::BadSha1 => 24,
            Seal::Sha256(n) | Seal::BadSha256(n) => 4 + n,
            Seal::Fingerprint | Seal::BadFingerprint => 8,
            Seal::OddLen(_, n) => 4 + (n + 3) / 4 * 4,
        };
        if b.len() + add > 20 + 65_532 {
            break;
        }
        seal(&mut b, *s, &key);
    }
    b
}

// ---------------------------------------------------------------------------------------------
// mutators

pub fn mutate(rng: &mut Rng, src: &[u8], other: Option<&[u8]>) -> Vec<u8> {
    let mut b = src.to_vec();
    let n = b.len();
    // (under the Miri interpreter the kinds that make a message much larger are left out: a single
    // check of a 4096-attribute message takes longer there than the whole layer is given)
    let kinds = if cfg!(miri) { 16 } else { 23 };
    match rng.below(kinds) {
        22 if n >= 28 && b[n - 8..n - 4] == [0x80, 0x28, 0x00, 0x04] && n - 28 <= 0xffff => {
            // the trailing FINGERPRINT taken off (length fixed): whatever was in front of it is now
            // the end of the message (a nested message's own sealing attributes, for instance)
            b.truncate(n - 8);
            set_len(&mut b, n - 28);
        }
        21 if n >= 28 && b[n - 8..n - 4] == [0x80, 0x28, 0x00, 0x04] => {
            // the FINGERPRINT value replaced by what an almost-right implementation computes: the
            // CRC without the XOR, byte-swapped, complemented, over a prefix whose length field does
            // not cover the attribute, XORed with the constant in the other byte order
            let crc = crate::refimpl::crypto::crc32_fast(&b[..n - 8]);
            let mut short = b[..n - 8].to_vec();
            let l = (n - 28) & 0xffff;
            set_len(&mut short, l);
            let v: u32 = match rng.below(6) {
                0 => crc,
                1 => (crc ^ 0x5354_554e).swap_bytes(),
                2 => !(crc ^ 0x5354_554e),
                3 => crate::refimpl::crypto::crc32_fast(&short) ^ 0x5354_554e,
                4 => crc ^ 0x4e55_5453,
                _ => crc.swap_bytes() ^ 0x5354_554e,
            };
            b[n - 4..].copy_from_slice(&v.to_be_bytes());
        }
        0 if n > 0 => {
            let i = rng.usize(n);
            b[i] ^= 1 << rng.usize(8);
        }
        16 => {
            // the message as other layers frame it: an RFC 4571 length prefix, a TURN ChannelData
            // header, two messages back to back, a frame cut short
            let l = (n as u16).to_be_bytes();
            b = match rng.below(5) {
                0 => [&l[..], src].concat(),
                1 => [&l[..], &src[..n - n.min(rng.usize(8))]].concat(),
                2 => [&[0x40u8, rng.byte()][..], &l[..], src].concat(),
                3 => [src, src].concat(),
                _ => [&(n as u16 + 2).to_be_bytes()[..], src, &[0u8, 0][..]].concat(),
            };
        }
        17 if n >= 20 => {
            // a FINGERPRINT / integrity-shaped attribute BEHIND the advertised size, its CRC computed
            // the way a sender that forgot to update the length field would
            let mut with_len = b.clone();
            if rng.chance(1, 2) {
                let l = (n - 20 + 8) & 0xffff;
                set_len(&mut with_len, l);
            }
            let crc = crate::refimpl::crypto::crc32_fast(&with_len) ^ 0x5354_554e;
            b.extend_from_slice(&[0x80, 0x28, 0x00, 0x04]);
            b.extend_from_slice(&crc.to_be_bytes());
        }
        18 if n >= 20 && n - 20 + 2_100 <= 0xffff => {
            // long material behind whatever ends the message (an ordinary attribute, a second copy of
            // the sealing attributes far away from the first): more than a small look-back window
            let big = 130 + rng.usize(1_900);
            push_tlv(&mut b, &Tlv::new(*rng.pick(&[0x8022u16, ORD_REQ, ORD_OPT, 0x0013]), rng.bytes(big)));
            if rng.chance(1, 2) {
                if let Some(off) = pick_attr_offset(rng, src) {
                    let l = ((src[off + 2] as usize) << 8) | src[off + 3] as usize;
                    let end = (off + 4 + l + (4 - l % 4) % 4).min(n);
                    b.extend_from_slice(&src[off..end]);
                }
            }
            let l = b.len() - 20;
            set_len(&mut b, l & 0xffff);
            if rng.chance(1, 3) {
                seal(&mut b, Seal::Fingerprint, &[]);
            }
        }
        19 if n >= 24 => {
            // very many small attributes in front of what is there (beyond any small counter); such
            // messages are expensive to check, so most draws fall back to a bit flip
            let cnt = *rng.pick(&[255usize, 256, 257, 1021, 1022, 1023, 1024, 1025, 4096]);
            if !rng.chance(1, 60) {
                let i = rng.usize(n);
                b[i] ^= 1 << rng.usize(8);
            } else if n - 20 + cnt * 4 <= 0xffff {
                let mut nb = src[..20].to_vec();
                for k in 0..cnt {
                    nb.extend_from_slice(&[0xc0 | ((k >> 8) as u8 & 0x3f), k as u8, 0, 0]);
                }
                nb.extend_from_slice(&src[20..]);
                b = nb;
                if rng.chance(9, 10) {
                    // (sealing attributes behind them are stale now: refused, or dissolved)
                    let l = b.len() - 20;
                    set_len(&mut b, l);
                }
            }
        }
        20 if n >= 20 => {
            // the type field walked through values that other protocols on the same port use
            // (DTLS 20..63, RTP 128..191, ChannelData 64..79, a CRLF keep-alive)
            b[0] = *rng.pick(&[0x0du8, 0x14, 0x16, 0x17, 0x3f, 0x40, 0x4f, 0x80, 0xbf, 0x13, 0x00, 0x3e]);
            if rng.chance(1, 3) {
                b[1] = 0x0a;
            }
        }
        1 if n > 0 => {
            for _ in 0..1 + rng.usize(4) {
                let i = rng.usize(n);
                b[i] ^= 1 << rng.usize(8);
            }
        }
        2 if n > 0 => {
            let i = rng.usize(n);
            b[i] = rng.byte();
        }
        3 if n > 0 => {
            // burst
            let i = rng.usize(n);
            let l = (1 + rng.usize(8)).min(n - i);
            for x in b[i..i + l].iter_mut() {
                *x = rng.byte();
            }
        }
        4 if n >= 4 => {
            // header length edits
            let cur = ((b[2] as i64) << 8) | b[3] as i64;
            let nl = match rng.below(8) {
                0 => 0,
                1 => 0xffff,
                2 => n as i64 - 20,
                3 => n as i64 - 20 + *rng.pick(&[-8i64, -4, -3, -2, -1, 1, 2, 3, 4, 8]),
                _ => cur + *rng.pick(&[-8i64, -4, -3, -2, -1, 1, 2, 3, 4, 8]),
            }
            .clamp(0, 0xffff);
            b[2] = (nl >> 8) as u8;
            b[3] = nl as u8;
        }
        5 if n > 24 => {
            // attribute length edit: walk to a random attribute
            if let Some(off) = pick_attr_offset(rng, &b) {
                let cur = ((b[off + 2] as i64) << 8) | b[off + 3] as i64;
                let nl = match rng.below(6) {
                    0 => 0,
                    1 => 0xffff,
                    2 => (n - off - 4) as i64 + *rng.pick(&[-4i64, -1, 0, 1, 4]),
                    _ => cur + *rng.pick(&[-4i64, -3, -2, -1, 1, 2, 3, 4]),
                }
                .clamp(0, 0xffff);
                b[off + 2] = (nl >> 8) as u8;
                b[off + 3] = nl as u8;
            }
        }
        6 if n > 24 => {
            // retag an attribute
            if let Some(off) = pick_attr_offset(rng, &b) {
                let t = *rng.pick(&[MI, MI256, FP, ORD_REQ, ORD_OPT, 0x0006, 0x8022]);
                b[off] = (t >> 8) as u8;
                b[off + 1] = t as u8;
            }
        }
        7 => {
            // truncation
            let cut = rng.usize(n + 1);
            b.truncate(cut);
        }
        8 => {
            // extension with garbage (excess bytes)
            let k = 1 + rng.usize(12);
            b.extend(rng.bytes(k));
        }
        9 => {
            // extension with a well-formed attribute (excess bytes that look like attributes)
            let k = 4 * rng.usize(4);
            let t = Tlv::new(*rng.pick(&[0x8022u16, ORD_REQ, MI, FP]), rng.bytes(k));
            push_tlv(&mut b, &t);
        }
        10 if n > 24 => {
            // duplicate an attribute at the end and fix the length
            if let Some(off) = pick_attr_offset(rng, &b) {
                let l = ((b[off + 2] as usize) << 8) | b[off + 3] as usize;
                let end = (off + 4 + l + (4 - l % 4) % 4).min(n);
                let copy = b[off..end].to_vec();
                b.extend(copy);
                if b.len() - 20 <= 0xffff {
                    let l = b.len() - 20;
                    set_len(&mut b, l);
                }
            }
        }
        11 => {
            if let Some(o) = other {
                // splice: head of this, tail of other
                let i = if n > 20 { 20 + rng.usize(n - 20) } else { n };
                let j = if o.len() > 20 { 20 + rng.usize(o.len() - 20) } else { o.len() };
                b.truncate(i & !3);
                b.extend_from_slice(&o[(j & !3).min(o.len())..]);
                if b.len() >= 20 && b.len() - 20 <= 0xffff {
                    let l = b.len() - 20;
                    set_len(&mut b, l);
                }
            }
        }
        12 if n >= 8 => {
            // cookie / top bits
            if rng.chance(1, 2) {
                b[4 + rng.usize(4)] ^= 1 << rng.usize(8);
            } else {
                b[0] ^= *rng.pick(&[0x80u8, 0x40, 0xc0]);
            }
        }
        13 if n > 28 => {
            // swap two aligned words in the body
            let i = 20 + 4 * rng.usize((n - 20) / 4);
            let j = 20 + 4 * rng.usize((n - 20) / 4);
            if i + 4 <= n && j + 4 <= n {
                for k in 0..4 {
                    b.swap(i + k, j + k);
                }
            }
        }
        14 if n > 20 => {
            // zero-length declared with data present
            b[2] = 0;
            b[3] = 0;
        }
        _ => {
            if n > 0 {
                let i = rng.usize(n);
                b[i] = b[i].wrapping_add(1);
            }
        }
    }
    b
}

fn pick_attr_offset(rng: &mut Rng, b: &[u8]) -> Option<usize> {
    let mut offs = vec![];
    let mut off = 20;
    while off + 4 <= b.len() {
        offs.push(off);
        let l = ((b[off + 2] as usize) << 8) | b[off + 3] as usize;
        off += 4 + l + (4 - l % 4) % 4;
    }
    if offs.is_empty() {
        None
    } else {
        Some(offs[rng.usize(offs.len())])
    }
}

// ---------------------------------------------------------------------------------------------
// skeleton enumeration (systematic, seed independent)

#[derive(Clone, Copy, Debug, PartialEq, Eq)]
pub enum Sk {
    OrdReq,
    OrdOpt,
    Dup,
    Mi,
    Mi256,
    FpGood,
    FpBad,
}
pub const SK_ALPHABET: [Sk; 7] = [Sk::OrdReq, Sk::OrdOpt, Sk::Dup, Sk::Mi, Sk::Mi256, Sk::FpGood, Sk::FpBad];

/// declared-length perturbation applied to the header length of the finished skeleton
#[derive(Clone, Copy, Debug, PartialEq, Eq)]
pub enum LenPert {
    Exact,
    Minus1,
    Plus1,
    Plus4,
    Minus4,
    Overrun,
}
pub const LEN_PERTS: [LenPert; 6] =
    [LenPert::Exact, LenPert::Minus1, LenPert::Plus1, LenPert::Plus4, LenPert::Minus4, LenPert::Overrun];

/// Build the buffer for skeleton `seq` where ordinary attributes get value length `res`.
pub fn build_skeleton(seq: &[Sk], res: usize, pert: LenPert, key: &[u8]) -> Vec<u8> {
    let tid = [7u8; 12];
    let mut b = encode_header(0, 1, &tid, 0);
    let mut last_ord: Option<Tlv> = None;
    let mut nreq = 0u16;
    for s in seq {
        match s {
            Sk::OrdReq => {
                let t = Tlv::new(0x7e00 + nreq, vec![0x11; res]);
                nreq += 1;
                push_tlv(&mut b, &t);
                let l = b.len() - 20;
                set_len(&mut b, l);
                last_ord = Some(t);
            }
            Sk::OrdOpt => {
                let t = Tlv::new(0xfe00 + nreq, vec![0x22; res]);
                nreq += 1;
                push_tlv(&mut b, &t);
                let l = b.len() - 20;
                set_len(&mut b, l);
                last_ord = Some(t);
            }
            Sk::Dup => {
                let t = last_ord.clone().unwrap_or_else(|| Tlv::new(0x7e7e, vec![0x33; res]));
                push_tlv(&mut b, &t);
                let l = b.len() - 20;
                set_len(&mut b, l);
                last_ord = Some(t);
            }
            Sk::Mi => seal(&mut b, Seal::Sha1, key),
            Sk::Mi256 => seal(&mut b, Seal::Sha256(32), key),
            Sk::FpGood => seal(&mut b, Seal::Fingerprint, key),
            Sk::FpBad => seal(&mut b, Seal::BadFingerprint, key),
        }
    }
    let body = (b.len() - 20) as i64;
    let nl = match pert {
        LenPert::Exact => body,
        LenPert::Minus1 => body - 1,
        LenPert::Plus1 => body + 1,
        LenPert::Plus4 => body + 4,
        LenPert::Minus4 => body - 4,
        LenPert::Overrun => body + 400,
    }
    .clamp(0, 0xffff);
    set_len(&mut b, nl as usize);
    b
}

/// All sequences over SK_ALPHABET of length 0..=max_len, as indices; calls `f(global index, seq)`.
pub fn for_each_skeleton(max_len: usize, mut f: impl FnMut(u64, &[Sk])) {
    let mut idx = 0u64;
    for len in 0..=max_len {
        let mut counters = vec![0usize; len];
        loop {
            let seq: Vec<Sk> = counters.iter().map(|c| SK_ALPHABET[*c]).collect();
            f(idx, &seq);
            idx += 1;
            let mut i = 0;
            loop {
                if i == len {
                    break;
                }
                counters[i] += 1;
                if counters[i] < SK_ALPHABET.len() {
                    break;
                }
                counters[i] = 0;
                i += 1;
            }
            if i == len {
                break;
            }
        }
    }
}

/// typed-decoder helper: all built-in kinds
pub fn all_kinds() -> &'static [Kind] {
    &ALL_KINDS
}

/// Messages as real peers send them: attributes that belong together and repeat each other's
/// information (MAPPED-ADDRESS and XOR-MAPPED-ADDRESS naming the same address, an error code with
/// the attributes that code calls for, ICE connectivity checks, a relayed message nested in a DATA
/// attribute), sealed the way such messages are.  `variant` selects the shape (0..REALISTIC_VARIANTS).
pub const REALISTIC_VARIANTS: u32 = 11;
pub fn gen_realistic_message(rng: &mut Rng, variant: u32) -> (Vec<u8>, RefCreds) {
    use crate::refimpl::attrs::{RefAddr, RefVal};
    let tid = gen_tid(rng);
    let creds = if rng.chance(1, 2) { RefCreds::Short("realistic-pw".into()) } else { RefCreds::Long("alice".into(), "example.org".into(), "pass:word".into()) };
    let key = creds.key();
    let addr = |rng: &mut Rng, v6: bool| {
        let mut ip = [0u8; 16];
        for b in ip.iter_mut().take(if v6 { 16 } else { 4 }) {
            *b = rng.byte();
        }
        RefAddr { v6, ip, port: 1024 + (rng.next() as u16 % 60000) }
    };
    let enc = |k: Kind, v: RefVal, tid: &[u8; 12]| ref_encode(k, &v, tid).expect("encodable");
    let v6 = rng.chance(1, 2);
    let mut tlvs: Vec<Tlv> = vec![];
    let (class, method, mut seals): (u8, u16, Vec<Seal>) = match variant % REALISTIC_VARIANTS {
        0 => {
            // classic + RFC 5389 Binding success: both address attributes name the same address
            let a = addr(rng, v6);
            tlvs.push(Tlv::new(0x0001, enc(Kind::AlternateServer, RefVal::Addr(a.clone()), &tid)));
            tlvs.push(Tlv::new(0x0020, enc(Kind::XorMappedAddress, RefVal::Addr(a), &tid)));
            if rng.chance(1, 2) {
                tlvs.push(Tlv::new(0x8022, b"test vector".to_vec()));
            }
            (2, 1, if rng.chance(1, 2) { vec![Seal::Sha1] } else { vec![] })
        }
        1 => {
            // the same in the other order, with the draft code point as well
            let a = addr(rng, v6);
            // (the draft code point in front of, behind, or instead of the registered one, naming the
            // same or another address)
            let other = addr(rng, v6);
            let legacy = Tlv::new(0x8020, enc(Kind::XorMappedAddress, RefVal::Addr(if rng.chance(1, 2) { a.clone() } else { other }), &tid));
            let registered = Tlv::new(0x0020, enc(Kind::XorMappedAddress, RefVal::Addr(a.clone()), &tid));
            match rng.below(3) {
                0 => tlvs.extend([registered, legacy]),
                1 => tlvs.extend([legacy, registered]),
                _ => tlvs.push(legacy),
            }
            tlvs.push(Tlv::new(0x0001, enc(Kind::AlternateServer, RefVal::Addr(a), &tid)));
            (2, 1, vec![])
        }
        2 => {
            // NAT behaviour discovery response
            let a = addr(rng, v6);
            tlvs.push(Tlv::new(0x0020, enc(Kind::XorMappedAddress, RefVal::Addr(a.clone()), &tid)));
            tlvs.push(Tlv::new(0x0001, enc(Kind::AlternateServer, RefVal::Addr(a), &tid)));
            tlvs.push(Tlv::new(0x802b, enc(Kind::AlternateServer, RefVal::Addr(addr(rng, v6)), &tid)));
            tlvs.push(Tlv::new(0x802c, enc(Kind::AlternateServer, RefVal::Addr(addr(rng, v6)), &tid)));
            (2, 1, vec![])
        }
        3 => {
            // ICE connectivity check
            tlvs.push(Tlv::new(0x0006, b"rfrag:lfrag".to_vec()));
            tlvs.push(Tlv::new(0x0024, enc(Kind::Priority, RefVal::U32(0x6e00_01ff), &tid)));
            tlvs.push(Tlv::new(0x802a, enc(Kind::IceControlling, RefVal::U64(rng.next()), &tid)));
            if rng.chance(1, 2) {
                tlvs.push(Tlv::new(0x0025, vec![]));
            }
            (0, 1, vec![Seal::Sha1])
        }
        4 => {
            tlvs.push(Tlv::new(0x0009, enc(Kind::ErrorCode, RefVal::Error { code: 401, reason: "Unauthorized".into() }, &tid)));
            tlvs.push(Tlv::new(0x0014, b"example.org".to_vec()));
            tlvs.push(Tlv::new(0x0015, b"obMatJos2AAACf//499k954d6OL34oL9FSTvy64sA".to_vec()));
            tlvs.push(Tlv::new(0x8002, enc(Kind::PasswordAlgorithms, RefVal::Algos(vec![1, 2]), &tid)));
            (3, 1, vec![])
        }
        5 => {
            tlvs.push(Tlv::new(0x0009, enc(Kind::ErrorCode, RefVal::Error { code: 300, reason: "Try Alternate".into() }, &tid)));
            tlvs.push(Tlv::new(0x8023, enc(Kind::AlternateServer, RefVal::Addr(addr(rng, v6)), &tid)));
            tlvs.push(Tlv::new(0x8003, b"alt.example.org".to_vec()));
            (3, 1, vec![Seal::Sha256(32)])
        }
        6 => {
            tlvs.push(Tlv::new(0x0009, enc(Kind::ErrorCode, RefVal::Error { code: 420, reason: "Unknown Attribute".into() }, &tid)));
            tlvs.push(Tlv::new(0x000a, enc(Kind::UnknownAttributes, RefVal::TypeList(vec![0x7f01, 0x0022, 0x7f02]), &tid)));
            (3, 1, vec![])
        }
        7 => {
            // long-term request
            tlvs.push(Tlv::new(0x001e, rng.bytes(32)));
            tlvs.push(Tlv::new(0x0014, b"example.org".to_vec()));
            tlvs.push(Tlv::new(0x0015, b"obMatJos2AAACf//499k954d6OL34oL9FSTvy64sA".to_vec()));
            tlvs.push(Tlv::new(0x001d, enc(Kind::PasswordAlgorithm, RefVal::Algo(2), &tid)));
            (0, 1, vec![Seal::Sha256(32)])
        }
        8 => {
            // TURN Data indication relaying a fingerprinted ICE check from a peer
            let (inner, _) = gen_realistic_message(rng, 3);
            tlvs.push(Tlv::new(0x0012, enc(Kind::XorMappedAddress, RefVal::Addr(addr(rng, v6)), &tid)));
            tlvs.push(Tlv::new(0x0013, inner));
            (1, 7, vec![])
        }
        9 => {
            // attributes whose VALUE begins like a STUN header continues (magic cookie, then a
            // transaction id): read from such an attribute's own header on, the bytes look like the
            // start of another message
            tlvs.push(Tlv::new(0x8022, b"cookie".to_vec()));
            tlvs.push(Tlv::new(0x0033, [&[0x21u8, 0x12, 0xa4, 0x42][..], &tid[..], &rng.bytes(8)].concat()));
            tlvs.push(Tlv::new(0x0024, enc(Kind::Priority, RefVal::U32(rng.next() as u32), &tid)));
            tlvs.push(Tlv::new(0x3fff, [&[0x21u8, 0x12, 0xa4, 0x42][..], &rng.bytes(20)].concat()));
            (if rng.chance(1, 2) { 0 } else { 2 }, 1, vec![])
        }
        _ => {
            // both integrity attributes (RFC 8489 transition) on a Binding success
            let a = addr(rng, v6);
            tlvs.push(Tlv::new(0x0020, enc(Kind::XorMappedAddress, RefVal::Addr(a), &tid)));
            (2, 1, vec![Seal::Sha1, Seal::Sha256(32)])
        }
    };
    seals.push(Seal::Fingerprint);
    let mut b = encode(class, method, &tid, &tlvs);
    for s in seals {
        seal(&mut b, s, &key);
    }
    (b, creds)
}
