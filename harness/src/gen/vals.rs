//! Value generators: UTF-8 strings with exact byte lengths, credentials, in-limit attribute values.

use crate::prng::Rng;
use crate::refimpl::attrs::{Kind, RefAddr, RefVal};
use crate::refimpl::parse::RefCreds;

const CHARS: [&str; 40] = [
    "a", "Z", "0", ":", " ", "\u{0}", "\u{7f}", "'", "\"", "\\", "é", "ß", "\u{7ff}", "€", "\u{800}", "\u{ffff}",
    "日", "\u{10000}", "😀", "\u{10ffff}", "-", ".", "%", "\n",
    // characters that string preparation profiles (SASLprep, PRECIS OpaqueString), Unicode
    // normalisation or case folding would map to something else: the key is made of the bytes as given
    "\u{a0}", "\u{1680}", "\u{2003}", "\u{202f}", "\u{3000}", "\u{ad}", "\u{200d}", "e\u{301}", "\u{fb01}", "\u{ff21}", "İ", "ı",
    "\u{212b}", "\u{1e9e}", "\u{2028}", "\u{feff}",
];

/// A UTF-8 string of exactly `n` bytes.
pub fn text_exact(rng: &mut Rng, n: usize) -> String {
    let mut s = String::with_capacity(n);
    let ascii_only = rng.chance(1, 3);
    while s.len() < n {
        let left = n - s.len();
        let c = if ascii_only { CHARS[rng.usize(4)] } else { CHARS[rng.usize(CHARS.len())] };
        if c.len() <= left {
            s.push_str(c);
        } else {
            s.push('x');
        }
    }
    s
}

/// length choice biased to padding residues and to the limit
pub fn len_choice(rng: &mut Rng, max: usize) -> usize {
    let max = max.min(65_000);
    match rng.below(10) {
        0 => 0,
        1 => rng.usize(9).min(max),
        2 => max,
        3 => max.saturating_sub(1 + rng.usize(4)),
        4 => (max / 2 + rng.usize(5)).min(max),
        5 => rng.usize(max + 1),
        _ => rng.usize(40).min(max),
    }
}

pub fn gen_text(rng: &mut Rng, max: usize) -> String {
    let n = len_choice(rng, max);
    text_exact(rng, n)
}

pub fn gen_creds(rng: &mut Rng) -> RefCreds {
    let short = |rng: &mut Rng| match rng.below(8) {
        0 => String::new(),
        1 => "a".to_string(),
        2 => ":".to_string(),
        3 => text_exact(rng, 64),
        4 => {
            let n = 65 + rng.usize(40);
            text_exact(rng, n)
        }
        _ => {
            let n = 1 + rng.usize(24);
            text_exact(rng, n)
        }
    };
    if rng.chance(1, 2) {
        RefCreds::Short(short(rng))
    } else {
        RefCreds::Long(short(rng), short(rng), short(rng))
    }
}

/// Credentials whose derived key is guaranteed to be non-pathological for speed (short strings).
pub fn gen_creds_small(rng: &mut Rng) -> RefCreds {
    // one in eight passwords / names is long: around and beyond the 64-byte HMAC block size (keys
    // longer than a block are hashed first) and MD5's block boundaries for long-term keys
    let w = |rng: &mut Rng| {
        let n = if rng.chance(1, 8) { *rng.pick(&[55usize, 56, 63, 64, 65, 66, 100, 127, 128, 129, 200]) } else { rng.usize(10) };
        text_exact(rng, n)
    };
    if rng.chance(1, 2) {
        RefCreds::Short(w(rng))
    } else {
        RefCreds::Long(w(rng), w(rng), w(rng))
    }
}

/// Near-miss alternatives to `c` (C04 "any other key").  Callers filter by derived-key inequality.
pub fn near_miss_creds(rng: &mut Rng, c: &RefCreds) -> Vec<RefCreds> {
    let mut out = vec![];
    let tweak = |s: &str, how: u64| -> String {
        match how {
            0 => format!("{s}\u{0}"),
            1 => s.to_uppercase(),
            2 => s.chars().take(s.chars().count().saturating_sub(1)).collect(),
            3 => format!("{s} "),
            4 => format!(" {s}"),
            5 => s.to_lowercase(),
            6 => String::new(),
            // what a string preparation step would turn the text into, and the other way round
            10 => s.replace(' ', "\u{a0}"),
            11 => s.replace(['\u{a0}', '\u{1680}', '\u{2003}', '\u{202f}', '\u{3000}'], " "),
            12 => s.replace("e\u{301}", "é").replace('\u{212b}', "Å").replace('\u{ff21}', "A").replace('\u{fb01}', "fi"),
            13 => s.replace(['\u{ad}', '\u{200d}', '\u{feff}'], ""),
            14 => format!("{s}\u{a0}"),
            15 => format!("{s}\u{3000}"),
            // the first 64 bytes only (one hash block), and the same with another tail
            8 => s.chars().take(64).collect(),
            9 => format!("{}{}", s.chars().take(64).collect::<String>(), "~tail"),
            _ => format!("{s}x"),
        }
    };
    match c {
        RefCreds::Short(p) => {
            for h in 0..16 {
                out.push(RefCreds::Short(tweak(p, h)));
            }
            out.push(RefCreds::Long(String::new(), String::new(), p.clone()));
            out.push(RefCreds::Long("user".into(), "realm".into(), p.clone()));
        }
        RefCreds::Long(u, r, p) => {
            for h in 0..16 {
                out.push(RefCreds::Long(u.clone(), r.clone(), tweak(p, h)));
                out.push(RefCreds::Long(tweak(u, h), r.clone(), p.clone()));
                out.push(RefCreds::Long(u.clone(), tweak(r, h), p.clone()));
            }
            out.push(RefCreds::Short(p.clone()));
            out.push(RefCreds::Long(r.clone(), u.clone(), p.clone()));
            out.push(RefCreds::Long(p.clone(), r.clone(), u.clone()));
            out.push(RefCreds::Long(u.clone(), p.clone(), r.clone()));
            // "a:b","c" vs "a","b:c" collide legitimately; the caller's key filter drops them
            out.push(RefCreds::Long(format!("{u}:{r}"), String::new(), p.clone()));
        }
    }
    out.push(gen_creds_small(rng));
    out
}

/// IPv4 addresses with a special meaning (RFC 6890): this-network, loopback, private, link-local,
/// CGN, multicast, broadcast, documentation, and the magic cookie.
pub const SPECIAL_V4: [[u8; 4]; 14] = [
    [0, 0, 0, 0],
    [127, 0, 0, 1],
    [10, 0, 0, 1],
    [172, 16, 254, 1],
    [192, 168, 1, 1],
    [169, 254, 0, 9],
    [100, 64, 0, 1],
    [224, 0, 0, 251],
    [239, 255, 255, 250],
    [255, 255, 255, 255],
    [192, 0, 2, 1],
    [198, 51, 100, 7],
    [203, 0, 113, 9],
    [0x21, 0x12, 0xa4, 0x42],
];

/// IPv6 prefixes with a special meaning (RFC 6890 / RFC 4291): (prefix bytes, prefix length in bytes).
/// ::ffff:0:0/96 IPv4-mapped, ::/96 IPv4-compatible, 64:ff9b::/96 NAT64, 2002::/16 6to4,
/// 2001::/32 Teredo, fe80::/10 link-local, fc00::/7 ULA, ff02:: multicast, 2001:db8::/32
/// documentation, 100::/64 discard, ::ffff:0:0:0/96 (SIIT translated).
pub const SPECIAL_V6_PREFIX: [(&[u8], usize); 11] = [
    (&[0, 0, 0, 0, 0, 0, 0, 0, 0, 0, 0xff, 0xff], 12),
    (&[0, 0, 0, 0, 0, 0, 0, 0, 0, 0, 0, 0], 12),
    (&[0, 0x64, 0xff, 0x9b, 0, 0, 0, 0, 0, 0, 0, 0], 12),
    (&[0x20, 0x02], 2),
    (&[0x20, 0x01, 0, 0], 4),
    (&[0xfe, 0x80, 0, 0, 0, 0, 0, 0], 8),
    (&[0xfd, 0x00], 2),
    (&[0xff, 0x02, 0, 0, 0, 0, 0, 0, 0, 0, 0, 0], 12),
    (&[0x20, 0x01, 0x0d, 0xb8], 4),
    (&[0x01, 0, 0, 0, 0, 0, 0, 0], 8),
    (&[0, 0, 0, 0, 0, 0, 0, 0, 0xff, 0xff, 0, 0], 12),
];

/// An address from one of the special-purpose ranges; for IPv6 the bytes after the prefix are an
/// embedded special IPv4 address (in the last four bytes), zero, or random.
pub fn special_addr(rng: &mut Rng, v6: bool) -> RefAddr {
    let mut ip = [0u8; 16];
    if !v6 {
        let mut a = SPECIAL_V4[rng.usize(SPECIAL_V4.len())];
        if rng.chance(1, 3) {
            a[3] = rng.byte();
        }
        ip[..4].copy_from_slice(&a);
    } else {
        let (p, n) = SPECIAL_V6_PREFIX[rng.usize(SPECIAL_V6_PREFIX.len())];
        match rng.below(3) {
            0 => {}
            1 => {
                for b in ip[n..].iter_mut() {
                    *b = rng.byte();
                }
            }
            _ => ip[12..].copy_from_slice(&SPECIAL_V4[rng.usize(SPECIAL_V4.len())]),
        }
        ip[..n].copy_from_slice(&p[..n]);
        if rng.chance(1, 8) {
            // ::1 and ::
            ip = [0; 16];
            ip[15] = rng.below(2) as u8;
        }
    }
    let port = match rng.below(4) {
        0 => 0,
        1 => 3478,
        2 => 0x2112,
        _ => rng.next() as u16,
    };
    RefAddr { v6, ip, port }
}

pub fn gen_addr(rng: &mut Rng) -> RefAddr {
    let v6 = rng.chance(1, 2);
    let mut ip = [0u8; 16];
    let n = if v6 { 16 } else { 4 };
    match rng.below(8) {
        0 => {}
        1 => ip[..n].fill(0xff),
        6 | 7 => return special_addr(rng, v6),
        2 => {
            // cookie-equal
            let pat = [0x21u8, 0x12, 0xA4, 0x42];
            for i in 0..n {
                ip[i] = pat[i % 4];
            }
        }
        3 => {
            ip[rng.usize(n)] = 1 << rng.usize(8);
        }
        _ => {
            for b in ip[..n].iter_mut() {
                *b = rng.byte();
            }
        }
    }
    let port = match rng.below(6) {
        0 => 0,
        1 => 0xffff,
        2 => 0x2112,
        3 => 3478,
        _ => rng.next() as u16,
    };
    RefAddr { v6, ip, port }
}

/// An in-limit value of `kind` (what the constructors accept and the decoders must read back).
pub fn gen_refval(rng: &mut Rng, kind: Kind) -> RefVal {
    match kind {
        Kind::Username | Kind::Realm | Kind::Nonce | Kind::Software => {
            RefVal::Text(gen_text(rng, kind.text_limit().unwrap()))
        }
        // no documented limit; keep it within what a message can carry comfortably
        Kind::AlternateDomain => RefVal::Text(gen_text(rng, 800)),
        Kind::MessageIntegrity => RefVal::Bytes(rng.bytes(20)),
        Kind::MessageIntegritySha256 => {
            let n = 16 + 4 * rng.usize(5);
            RefVal::Bytes(rng.bytes(n))
        }
        Kind::Userhash => RefVal::Bytes(rng.bytes(32)),
        Kind::Fingerprint => RefVal::Bytes(rng.bytes(4)),
        Kind::Priority => RefVal::U32(match rng.below(4) {
            0 => 0,
            1 => u32::MAX,
            _ => rng.next() as u32,
        }),
        Kind::UseCandidate => RefVal::Empty,
        Kind::IceControlled | Kind::IceControlling => RefVal::U64(match rng.below(4) {
            0 => 0,
            1 => u64::MAX,
            _ => rng.next(),
        }),
        Kind::ErrorCode => {
            let code = match rng.below(6) {
                0 => 300,
                1 => 699,
                2 => 400 + rng.below(100) as u16,
                3 => *rng.pick(&[301u16, 400, 401, 403, 420, 437, 438, 440, 441, 442, 443, 486, 487, 500, 508]),
                _ => 300 + rng.below(400) as u16,
            };
            RefVal::Error { code, reason: gen_text(rng, 763) }
        }
        Kind::UnknownAttributes => {
            let n = match rng.below(5) {
                0 => 0,
                1 => 1,
                2 => 2,
                _ => rng.usize(20),
            };
            RefVal::TypeList((0..n).map(|_| rng.next() as u16).collect())
        }
        Kind::AlternateServer | Kind::XorMappedAddress => RefVal::Addr(gen_addr(rng)),
        Kind::PasswordAlgorithm => RefVal::Algo(1 + rng.below(2) as u16),
        Kind::PasswordAlgorithms => {
            let n = 1 + rng.usize(6);
            RefVal::Algos((0..n).map(|_| 1 + rng.below(2) as u16).collect())
        }
    }
}

/// Content classes for decoder sweeps over value bytes of length `n`.
pub fn content_class(rng: &mut Rng, class: u32, n: usize) -> Vec<u8> {
    match class {
        0 => vec![0u8; n],
        1 => vec![0xffu8; n],
        2 => text_exact(rng, n).into_bytes(),
        3 => {
            // invalid UTF-8 somewhere
            let mut v = text_exact(rng, n).into_bytes();
            if n > 0 {
                let i = rng.usize(n);
                v[i] = *rng.pick(&[0x80u8, 0xc0, 0xff, 0xfe, 0xed]);
            }
            v
        }
        4 => {
            // structured: plausible header bytes for address / error / algorithm layouts
            let mut v = rng.bytes(n);
            if n >= 4 {
                v[0] = 0;
                v[1] = *rng.pick(&[1u8, 2, 0, 3]);
                v[2] = *rng.pick(&[0u8, 3, 4, 6, 7, 0x0b, 0x1c]);
                v[3] = *rng.pick(&[0u8, 1, 20, 99, 100, 255]);
            }
            v
        }
        5 => {
            // algorithm-list shaped
            let mut v = vec![0u8; n];
            for c in v.chunks_mut(4) {
                if c.len() == 4 {
                    c[1] = *rng.pick(&[1u8, 2, 1, 2, 0, 3]);
                    if rng.chance(1, 12) {
                        c[3] = *rng.pick(&[1u8, 4, 8]);
                    }
                }
            }
            v
        }
        7 | 8 => {
            // text ending in a UTF-8 edge case: a multi-byte character cut short, overlong forms,
            // surrogates, beyond U+10FFFF, the extremes of each encoded length; class 8 puts a valid
            // ERROR-CODE header (class 3..6, number 0..99) in front so that the text is a reason phrase
            const TAILS: [&[u8]; 26] = [
                &[0xe2, 0x80, 0xa8],
                &[b'a', 0xe2, 0x80, 0xa9, b'b'],
                &[0xc2, 0x85],
                &[0xe2, 0x80, 0x8b],
                &[0xe2, 0x80, 0xae, b'x'],
                &[b'\r', b'\n', 0x1b, b'[', b'0', b'm'],
                &[0xef, 0xbf, 0xbd],
                &[0xef, 0xbf, 0xbd, b'x', 0xef, 0xbf, 0xbd],
                &[0xc3],
                &[0xe2, 0x82],
                &[0xf0, 0x9f, 0x98],
                &[0xf0, 0x9f],
                &[0xc0, 0x80],
                &[0xe0, 0x80, 0x80],
                &[0xed, 0xa0, 0x80],
                &[0xf4, 0x90, 0x80, 0x80],
                &[0xf5, 0x80, 0x80, 0x80],
                &[0x80],
                &[0xc3, 0xa9],
                &[0xe2, 0x82, 0xac],
                &[0xf0, 0x9f, 0x98, 0x80],
                &[0xef, 0xbf, 0xbf],
                &[0xf4, 0x8f, 0xbf, 0xbf],
                &[0xef, 0xbb, 0xbf],
                &[0xc2, 0x80],
                &[0x00],
            ];
            let tail = TAILS[rng.usize(TAILS.len())];
            let head: usize = if class == 8 { 4 } else { 0 };
            if n < head + tail.len() {
                return rng.bytes(n);
            }
            let mut v = Vec::with_capacity(n);
            if class == 8 {
                v.extend_from_slice(&[0, 0, 3 + rng.below(4) as u8, rng.below(100) as u8]);
            }
            v.extend_from_slice(text_exact(rng, n - head - tail.len()).as_bytes());
            v.extend_from_slice(tail);
            v
        }
        9 => {
            // text starting with a prefix that has a meaning: the RFC 8489 nonce cookie (followed by
            // fewer / exactly / more than the four characters of security feature bits)
            let mut v = b"obMatJos2".to_vec();
            while v.len() < n {
                v.push(*rng.pick(b"ABCDEFGHIJKLMNOPQRSTUVWXYZabcdefghijklmnopqrstuvwxyz0123456789+/="));
            }
            v.truncate(n);
            v
        }
        10 => {
            // host-name-like text: letters, digits, hyphens and dots, with the shapes a label-wise
            // check trips over (empty labels, leading / trailing dots and hyphens, only dots)
            let mut v: Vec<u8> = (0..n)
                .map(|_| match rng.below(10) {
                    0..=2 => b'.',
                    3 => b'-',
                    4 => b'0' + rng.below(10) as u8,
                    _ => b'a' + rng.below(26) as u8,
                })
                .collect();
            if n >= 2 && rng.chance(1, 2) {
                let i = rng.usize(n - 1);
                v[i] = b'.';
                v[i + 1] = b'.';
            }
            if n >= 1 && rng.chance(1, 2) {
                v[0] = b'a' + rng.below(26) as u8;
            }
            v
        }
        _ => rng.bytes(n),
    }
}
pub const CONTENT_CLASSES: u32 = 11;
