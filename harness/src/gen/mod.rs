pub mod msg;
pub mod vals;
