//! Bridge between the plain-data reference values and the crate's typed attribute API.
//! Everything here calls the code under test; nothing here is an oracle.

use crate::refimpl::attrs::{Kind, RefAddr, RefVal};
use stun_types::attribute::*;
use stun_types::message::{StunParseError, TransactionId};

pub fn tid_from_bytes(t: &[u8; 12]) -> TransactionId {
    let mut v: u128 = 0;
    for b in t {
        v = (v << 8) | *b as u128;
    }
    TransactionId::from(v)
}

pub fn tid_to_bytes(t: TransactionId) -> [u8; 12] {
    let v: u128 = t.into();
    let mut out = [0u8; 12];
    for (i, o) in out.iter_mut().enumerate() {
        *o = (v >> (8 * (11 - i))) as u8;
    }
    out
}

/// The crate's own TYPE constant for `kind`.
pub fn impl_type_code(kind: Kind) -> u16 {
    match kind {
        Kind::Username => Username::TYPE.value(),
        Kind::MessageIntegrity => MessageIntegrity::TYPE.value(),
        Kind::ErrorCode => ErrorCode::TYPE.value(),
        Kind::UnknownAttributes => UnknownAttributes::TYPE.value(),
        Kind::Realm => Realm::TYPE.value(),
        Kind::Nonce => Nonce::TYPE.value(),
        Kind::MessageIntegritySha256 => MessageIntegritySha256::TYPE.value(),
        Kind::PasswordAlgorithm => PasswordAlgorithm::TYPE.value(),
        Kind::Userhash => Userhash::TYPE.value(),
        Kind::XorMappedAddress => XorMappedAddress::TYPE.value(),
        Kind::PasswordAlgorithms => PasswordAlgorithms::TYPE.value(),
        Kind::AlternateDomain => AlternateDomain::TYPE.value(),
        Kind::Software => Software::TYPE.value(),
        Kind::AlternateServer => AlternateServer::TYPE.value(),
        Kind::Fingerprint => Fingerprint::TYPE.value(),
        Kind::Priority => Priority::TYPE.value(),
        Kind::UseCandidate => UseCandidate::TYPE.value(),
        Kind::IceControlled => IceControlled::TYPE.value(),
        Kind::IceControlling => IceControlling::TYPE.value(),
    }
}

#[derive(Clone, Debug, PartialEq, Eq)]
pub enum DecErr {
    WrongImpl,
    Other(String),
}

fn map_err(e: StunParseError) -> DecErr {
    match e {
        StunParseError::WrongAttributeImplementation => DecErr::WrongImpl,
        e => DecErr::Other(format!("{e:?}")),
    }
}

fn algo_to_u16(a: PasswordAlgorithmValue) -> u16 {
    match a {
        PasswordAlgorithmValue::MD5 => 1,
        PasswordAlgorithmValue::SHA256 => 2,
    }
}

fn algo_from_u16(a: u16) -> Option<PasswordAlgorithmValue> {
    match a {
        1 => Some(PasswordAlgorithmValue::MD5),
        2 => Some(PasswordAlgorithmValue::SHA256),
        _ => None,
    }
}

/// Decoded attribute: the fields as seen through the getters, plus the object itself so that the
/// caller can re-encode it.
pub struct Decoded {
    pub val: RefVal,
    pub obj: Box<dyn AttributeWrite>,
    /// Display output length (forces the formatter to run)
    pub display_len: usize,
}

/// `T::from_raw(raw)` for the `kind`'s T, with the fields read back through the public getters.
/// UNKNOWN-ATTRIBUTES has no list getter: its fields are read from `to_raw()` of the decoded
/// object (a re-encode), and `has_attribute` is probed by the caller separately.
pub fn impl_decode(kind: Kind, raw: &RawAttribute, tid: &[u8; 12]) -> Result<Decoded, DecErr> {
    macro_rules! dec {
        ($T:ty, $conv:expr) => {{
            let a = <$T>::from_raw(raw).map_err(map_err)?;
            #[allow(clippy::redundant_closure_call)]
            let val = ($conv)(&a);
            let display_len = format!("{} {:?}", a, a).len();
            Ok(Decoded { val, obj: Box::new(a), display_len })
        }};
    }
    match kind {
        Kind::Username => dec!(Username, |a: &Username| RefVal::Text(a.username().to_string())),
        Kind::Realm => dec!(Realm, |a: &Realm| RefVal::Text(a.realm().to_string())),
        Kind::Nonce => dec!(Nonce, |a: &Nonce| RefVal::Text(a.nonce().to_string())),
        Kind::Software => dec!(Software, |a: &Software| RefVal::Text(a.software().to_string())),
        Kind::AlternateDomain => {
            dec!(AlternateDomain, |a: &AlternateDomain| RefVal::Text(a.domain().to_string()))
        }
        Kind::MessageIntegrity => {
            dec!(MessageIntegrity, |a: &MessageIntegrity| RefVal::Bytes(a.hmac().to_vec()))
        }
        Kind::MessageIntegritySha256 => {
            dec!(MessageIntegritySha256, |a: &MessageIntegritySha256| RefVal::Bytes(a.hmac().to_vec()))
        }
        Kind::Userhash => dec!(Userhash, |a: &Userhash| RefVal::Bytes(a.hash().to_vec())),
        Kind::Fingerprint => dec!(Fingerprint, |a: &Fingerprint| RefVal::Bytes(a.fingerprint().to_vec())),
        Kind::Priority => dec!(Priority, |a: &Priority| RefVal::U32(a.priority())),
        Kind::UseCandidate => dec!(UseCandidate, |_a: &UseCandidate| RefVal::Empty),
        Kind::IceControlled => dec!(IceControlled, |a: &IceControlled| RefVal::U64(a.tie_breaker())),
        Kind::IceControlling => dec!(IceControlling, |a: &IceControlling| RefVal::U64(a.tie_breaker())),
        Kind::ErrorCode => dec!(ErrorCode, |a: &ErrorCode| RefVal::Error {
            code: a.code(),
            reason: a.reason().to_string()
        }),
        Kind::UnknownAttributes => dec!(UnknownAttributes, |a: &UnknownAttributes| {
            let r = a.to_raw();
            let v: &[u8] = &r.value;
            RefVal::TypeList(v.chunks_exact(2).map(|c| ((c[0] as u16) << 8) | c[1] as u16).collect())
        }),
        Kind::AlternateServer => {
            dec!(AlternateServer, |a: &AlternateServer| RefVal::Addr(RefAddr::from_std(&a.server())))
        }
        Kind::XorMappedAddress => dec!(XorMappedAddress, |a: &XorMappedAddress| RefVal::Addr(
            RefAddr::from_std(&a.addr(tid_from_bytes(tid)))
        )),
        Kind::PasswordAlgorithm => {
            dec!(PasswordAlgorithm, |a: &PasswordAlgorithm| RefVal::Algo(algo_to_u16(a.algorithm())))
        }
        Kind::PasswordAlgorithms => dec!(PasswordAlgorithms, |a: &PasswordAlgorithms| RefVal::Algos(
            a.algorithms().iter().map(|x| algo_to_u16(*x)).collect()
        )),
    }
}

/// Construct the typed attribute for `val` through the crate's public constructor.
/// Err = the constructor refused (or the value is not expressible through the API).
pub fn impl_construct(kind: Kind, val: &RefVal, tid: &[u8; 12]) -> Result<Box<dyn AttributeWrite>, String> {
    fn bx<A: AttributeWrite + 'static>(a: A) -> Result<Box<dyn AttributeWrite>, String> {
        Ok(Box::new(a))
    }
    match (kind, val) {
        (Kind::Username, RefVal::Text(s)) => bx(Username::new(s).map_err(|e| format!("{e:?}"))?),
        (Kind::Realm, RefVal::Text(s)) => bx(Realm::new(s).map_err(|e| format!("{e:?}"))?),
        (Kind::Nonce, RefVal::Text(s)) => bx(Nonce::new(s).map_err(|e| format!("{e:?}"))?),
        (Kind::Software, RefVal::Text(s)) => bx(Software::new(s).map_err(|e| format!("{e:?}"))?),
        (Kind::AlternateDomain, RefVal::Text(s)) => bx(AlternateDomain::new(s)),
        (Kind::MessageIntegrity, RefVal::Bytes(b)) => {
            let a: [u8; 20] = b.as_slice().try_into().map_err(|_| "length".to_string())?;
            bx(MessageIntegrity::new(a))
        }
        (Kind::MessageIntegritySha256, RefVal::Bytes(b)) => {
            bx(MessageIntegritySha256::new(b).map_err(|e| format!("{e:?}"))?)
        }
        (Kind::Userhash, RefVal::Bytes(b)) => {
            let a: [u8; 32] = b.as_slice().try_into().map_err(|_| "length".to_string())?;
            bx(Userhash::new(a))
        }
        (Kind::Fingerprint, RefVal::Bytes(b)) => {
            let a: [u8; 4] = b.as_slice().try_into().map_err(|_| "length".to_string())?;
            bx(Fingerprint::new(a))
        }
        (Kind::Priority, RefVal::U32(x)) => bx(Priority::new(*x)),
        (Kind::UseCandidate, RefVal::Empty) => bx(UseCandidate::new()),
        (Kind::IceControlled, RefVal::U64(x)) => bx(IceControlled::new(*x)),
        (Kind::IceControlling, RefVal::U64(x)) => bx(IceControlling::new(*x)),
        (Kind::ErrorCode, RefVal::Error { code, reason }) => {
            bx(ErrorCode::new(*code, reason).map_err(|e| format!("{e:?}"))?)
        }
        (Kind::UnknownAttributes, RefVal::TypeList(l)) => {
            let v: Vec<AttributeType> = l.iter().map(|t| AttributeType::new(*t)).collect();
            bx(UnknownAttributes::new(&v))
        }
        (Kind::AlternateServer, RefVal::Addr(a)) => bx(AlternateServer::new(a.to_std())),
        (Kind::XorMappedAddress, RefVal::Addr(a)) => bx(XorMappedAddress::new(a.to_std(), tid_from_bytes(tid))),
        (Kind::PasswordAlgorithm, RefVal::Algo(a)) => {
            bx(PasswordAlgorithm::new(algo_from_u16(*a).ok_or("algorithm not expressible")?))
        }
        (Kind::PasswordAlgorithms, RefVal::Algos(l)) => {
            let mut v = vec![];
            for a in l {
                v.push(algo_from_u16(*a).ok_or("algorithm not expressible")?);
            }
            bx(PasswordAlgorithms::new(&v))
        }
        _ => Err("value/kind mismatch".into()),
    }
}

/// `has_attribute` probe for a decoded UNKNOWN-ATTRIBUTES (the only getter it has).
pub fn unknown_attrs_has(raw: &RawAttribute, t: u16) -> Option<bool> {
    UnknownAttributes::from_raw(raw).ok().map(|a| a.has_attribute(AttributeType::new(t)))
}

/// `msg.attribute::<T>()` for the `kind`'s T.  Ok(Some(obj)) = extracted; Ok(None) =
/// MissingAttribute(T::TYPE); Err = any other error.
pub fn impl_msg_attribute(
    kind: Kind,
    msg: &stun_types::message::Message,
) -> Result<Option<Box<dyn AttributeWrite>>, String> {
    macro_rules! get {
        ($T:ty) => {{
            match msg.attribute::<$T>() {
                Ok(a) => Ok(Some(Box::new(a) as Box<dyn AttributeWrite>)),
                Err(StunParseError::MissingAttribute(t)) if t == <$T>::TYPE => Ok(None),
                Err(e) => Err(format!("{e:?}")),
            }
        }};
    }
    match kind {
        Kind::Username => get!(Username),
        Kind::MessageIntegrity => get!(MessageIntegrity),
        Kind::ErrorCode => get!(ErrorCode),
        Kind::UnknownAttributes => get!(UnknownAttributes),
        Kind::Realm => get!(Realm),
        Kind::Nonce => get!(Nonce),
        Kind::MessageIntegritySha256 => get!(MessageIntegritySha256),
        Kind::PasswordAlgorithm => get!(PasswordAlgorithm),
        Kind::Userhash => get!(Userhash),
        Kind::XorMappedAddress => get!(XorMappedAddress),
        Kind::PasswordAlgorithms => get!(PasswordAlgorithms),
        Kind::AlternateDomain => get!(AlternateDomain),
        Kind::Software => get!(Software),
        Kind::AlternateServer => get!(AlternateServer),
        Kind::Fingerprint => get!(Fingerprint),
        Kind::Priority => get!(Priority),
        Kind::UseCandidate => get!(UseCandidate),
        Kind::IceControlled => get!(IceControlled),
        Kind::IceControlling => get!(IceControlling),
    }
}

pub fn to_impl_creds(c: &crate::refimpl::parse::RefCreds) -> stun_types::message::MessageIntegrityCredentials {
    use stun_types::message::{LongTermCredentials, ShortTermCredentials};
    match c {
        crate::refimpl::parse::RefCreds::Short(p) => ShortTermCredentials::new(p.clone()).into(),
        // NB: the crate's constructor order is (username, password, realm)
        crate::refimpl::parse::RefCreds::Long(u, r, p) => {
            LongTermCredentials::new(u.clone(), p.clone(), r.clone()).into()
        }
    }
}
