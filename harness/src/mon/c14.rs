//! C14 — the TCP framing buffer returns exactly the frames that were sent.

use crate::ctx::{guard, hash64, Ctx, Tier};
use crate::refimpl::crypto::hex;
use serde_json::{json, Value};
use stun_proto::agent::TcpBuffer;

/// A case: frame payload sizes (payloads carry their index so every pull identifies its frame),
/// chunk sizes of the concatenated stream, and after which pushes to pull (bitmask / always).
#[derive(Clone, Debug)]
pub struct Case {
    pub frames: Vec<usize>,
    pub chunks: Vec<usize>,
    /// pull-until-None after push #i iff pulls[i % len]
    pub pulls: Vec<bool>,
    pub salt: u8,
    /// what the payloads look like (0: a position pattern; others: bytes that resemble STUN
    /// headers, magic cookies, length prefixes — the buffer must not interpret payload bytes)
    pub style: u8,
}

impl Case {
    fn to_json(&self) -> Value {
        json!({"kind": "tcp", "frames": self.frames, "chunks": self.chunks, "pulls": self.pulls, "salt": self.salt, "style": self.style})
    }
    fn from_json(v: &Value) -> Option<Case> {
        let arr = |k: &str| -> Option<Vec<usize>> { v.get(k)?.as_array()?.iter().map(|x| x.as_u64().map(|y| y as usize)).collect() };
        Some(Case {
            frames: arr("frames")?,
            chunks: arr("chunks")?,
            pulls: v.get("pulls")?.as_array()?.iter().map(|x| x.as_bool().unwrap_or(true)).collect(),
            salt: v.get("salt").and_then(|s| s.as_u64()).unwrap_or(0) as u8,
            style: v.get("style").and_then(|s| s.as_u64()).unwrap_or(0) as u8,
        })
    }
}

fn payload(i: usize, n: usize, salt: u8, style: u8) -> Vec<u8> {
    // unique id in the first bytes (as far as they fit), then a position-dependent pattern
    let mut v = Vec::with_capacity(n);
    let id = (i as u32).to_be_bytes();
    for j in 0..n {
        v.push(if j < 4 { id[j] ^ salt } else { (j as u8).wrapping_mul(31).wrapping_add(i as u8) ^ salt });
    }
    const COOKIE: [u8; 4] = [0x21, 0x12, 0xA4, 0x42];
    let put = |v: &mut Vec<u8>, at: usize, b: &[u8]| {
        for (k, x) in b.iter().enumerate() {
            if at + k < v.len() {
                v[at + k] = *x;
            }
        }
    };
    match style % 8 {
        0 => {}
        // the magic cookie where an unframed STUN header would have it, counted from the length prefix
        1 => put(&mut v, 2, &COOKIE),
        // the payload is a STUN message (header with a consistent length, cookie, then the pattern)
        2 => {
            let body = n.saturating_sub(20) & !3;
            put(&mut v, 0, &[0x00, 0x01 | (salt & 0x10), (body >> 8) as u8, body as u8]);
            put(&mut v, 4, &COOKIE);
        }
        // a STUN header advertising more (or less) than the frame holds
        3 => {
            let body = (n + 4 + (salt as usize & 0x3c)) & 0xfffc;
            put(&mut v, 0, &[0x01, 0x01, (body >> 8) as u8, body as u8]);
            put(&mut v, 4, &COOKIE);
        }
        // cookies everywhere
        4 => {
            for at in (0..n).step_by(4) {
                put(&mut v, at + (salt as usize & 3), &COOKIE);
            }
        }
        // the payload looks like a sequence of length-prefixed frames itself
        5 => {
            let mut at = 0;
            while at + 2 <= n {
                let l = (salt as usize + at) % 7;
                put(&mut v, at, &[0, l as u8]);
                at += 2 + l;
            }
        }
        6 => v.iter_mut().for_each(|b| *b = 0xff),
        _ => v.iter_mut().for_each(|b| *b = 0),
    }
    v
}

impl crate::ctx::WitnessSrc for Case {
    fn witness(&self) -> Value {
        self.to_json()
    }
}

pub fn check_case(ctx: &mut Ctx, c: &Case) {
    let opened = ctx.wd.enter_case_src("tcp-buffer-case", c);
    check_case_inner(ctx, c);
    ctx.wd.leave_case(opened);
}

fn check_case_inner(ctx: &mut Ctx, c: &Case) {
    ctx.eval();
    let w = || c.to_json();
    let frames: Vec<Vec<u8>> = c.frames.iter().enumerate().map(|(i, n)| payload(i, *n, c.salt, c.style)).collect();
    let mut stream = vec![];
    for f in &frames {
        stream.extend_from_slice(&(f.len() as u16).to_be_bytes());
        stream.extend_from_slice(f);
    }
    // the stream may end in an incomplete frame: chunks may cover less than the whole stream
    // one case in three runs with a tracing subscriber that enables and formats everything: what is
    // returned does not depend on whether anybody listens
    let with_sub = (c.salt as usize + c.frames.len() + c.chunks.len()) % 3 == 0;
    let ev0 = crate::trace_sub::events() + crate::trace_sub::spans();
    let r = guard(|| {
        let body = || {
        let mut tb = TcpBuffer::new();
        let mut pushed = 0usize; // bytes pushed so far
        let mut consumed = 0usize; // bytes of complete frames returned so far (model)
        let mut next = 0usize; // next frame index expected
        let mut pulls_done = 0u64;
        let mut problem: Option<(String, String, String)> = None;
        let mut offs = 0usize;
        'outer: for (ci, ch) in c.chunks.iter().enumerate() {
            let end = (offs + ch).min(stream.len());
            tb.push_data(&stream[offs..end]);
            pushed = end;
            offs = end;
            let do_pull = c.pulls.is_empty() || c.pulls[ci % c.pulls.len()];
            if !do_pull && ci + 1 != c.chunks.len() {
                continue;
            }
            loop {
                let got = tb.pull_data();
                pulls_done += 1;
                // model: is a complete frame buffered?
                let complete = next < frames.len() && consumed + 2 + frames[next].len() <= pushed;
                match got {
                    Some(bytes) => {
                        if !complete {
                            problem = Some(("pull-some-only-when-complete".into(), "None (no complete frame buffered)".into(), format!("Some({} bytes) after {pushed} stream bytes, frame #{next}", bytes.len())));
                            break 'outer;
                        }
                        if bytes != frames[next] {
                            let which = frames.iter().position(|f| *f == bytes);
                            problem = Some(("pull-returns-next-frame".into(), format!("frame #{next} ({} bytes)", frames[next].len()), format!("{} bytes (equal to frame {which:?}): {}", bytes.len(), hex(&bytes[..bytes.len().min(24)]))));
                            break 'outer;
                        }
                        consumed += 2 + frames[next].len();
                        next += 1;
                    }
                    None => {
                        if complete {
                            problem = Some(("pull-none-only-when-incomplete".into(), format!("Some(frame #{next})"), format!("None with {} unconsumed bytes buffered", pushed - consumed)));
                            break 'outer;
                        }
                        break;
                    }
                }
                if pulls_done > (frames.len() + c.chunks.len()) as u64 * 2 + 16 {
                    problem = Some(("pull-bounded".into(), "at most one Some per frame".into(), "pull keeps returning data".into()));
                    break 'outer;
                }
            }
        }
        (problem, next, pushed, consumed)
        };
        if with_sub {
            crate::trace_sub::with_subscriber(body)
        } else {
            body()
        }
    });
    if with_sub {
        ctx.count("cases-under-a-tracing-subscriber");
        ctx.count_n("tracing-events-seen-under-the-subscriber", crate::trace_sub::events() + crate::trace_sub::spans() - ev0);
    }
    match r {
        Err(p) => ctx.violation("C14", "no-panic", "TcpBuffer", "", w, "Some or None".into(), format!("panic: {} at {}", p.msg, p.loc)),
        Ok((Some((assertion, exp, obs)), ..)) => ctx.violation("C14", &assertion, "TcpBuffer::pull_data", "", w, exp, obs),
        Ok((None, next, pushed, _consumed)) => {
            // conservation: exactly the frames that are complete in the pushed prefix came out
            let mut complete = 0;
            let mut o = 0;
            for f in &frames {
                if o + 2 + f.len() <= pushed {
                    complete += 1;
                    o += 2 + f.len();
                } else {
                    break;
                }
            }
            if next != complete {
                ctx.violation("C14", "all-complete-frames-delivered", "TcpBuffer::pull_data", "", w, format!("{complete} frames"), format!("{next} frames"));
            }
            ctx.count_n("frames-delivered", next as u64);
            if c.frames.iter().any(|n| *n == 0) {
                ctx.count("cases-with-empty-frame");
            }
            if c.frames.iter().any(|n| *n >= 65_534) {
                ctx.count("cases-with-max-frame");
            }
        }
    }
}

pub fn run(ctx: &mut Ctx) {
    let quick = ctx.tier == Tier::Quick;
    let mut idx = 0u64;
    // ---- before anything else: many connections abandoned in the middle of a large frame (about
    //      24 MB of bytes that were pushed and never pulled, on this thread and on another one).
    //      Every case below runs after them: a buffer is its own bytes and nothing else ----
    if !cfg!(miri) {
        let abandon = |salt: u8| {
            for k in 0..200usize {
                let mut tb = TcpBuffer::new();
                tb.push_data(&[0xff, 0xff]);
                tb.push_data(&vec![salt ^ k as u8; 60_000]);
                let _ = tb.pull_data();
            }
        };
        abandon(0x11);
        let _ = std::thread::spawn(move || abandon(0x22)).join();
        ctx.count_n("connections-abandoned-mid-frame", 400);
    }
    // ---- every composition of short streams into chunks, x pull patterns ----
    // streams: all frame-size sequences whose encoded length is <= maxlen
    let maxlen = if quick { 12 } else { 14 };
    let mut seqs: Vec<Vec<usize>> = vec![];
    fn rec(cur: &mut Vec<usize>, used: usize, maxlen: usize, out: &mut Vec<Vec<usize>>) {
        if !cur.is_empty() {
            out.push(cur.clone());
        }
        for n in 0..=maxlen {
            if used + 2 + n > maxlen {
                break;
            }
            cur.push(n);
            rec(cur, used + 2 + n, maxlen, out);
            cur.pop();
        }
    }
    rec(&mut vec![], 0, maxlen, &mut seqs);
    ctx.count_n("short-frame-sequences", if ctx.shard == 0 { seqs.len() as u64 } else { 0 });
    for (si, frames) in seqs.iter().enumerate() {
        let total: usize = frames.iter().map(|n| n + 2).sum();
        // sample sequences in quick (all compositions of each chosen one are still enumerated)
        if quick && total > 9 && si % 7 != 0 {
            continue;
        }
        let ncomp = 1u64 << (total - 1);
        for comp in 0..ncomp {
            idx += 1;
            if !ctx.mine(idx) {
                continue;
            }
            // composition: bit j set = cut after byte j
            let mut chunks = vec![];
            let mut run = 1;
            for j in 0..total - 1 {
                if comp >> j & 1 == 1 {
                    chunks.push(run);
                    run = 1;
                } else {
                    run += 1;
                }
            }
            chunks.push(run);
            for pulls in [vec![], vec![false], vec![true, false], vec![false, false, true]] {
                let c = Case { frames: frames.clone(), chunks: chunks.clone(), pulls, salt: (comp as u8) ^ 0x5a, style: if comp % 3 == 0 { 0 } else { (comp % 8) as u8 } };
                check_case(ctx, &c);
            }
            ctx.distinct(hash64(&[si as u64, comp]));
            ctx.count("compositions");
            if comp == ncomp / 3 && si % 97 == 0 {
                ctx.sample("composition", || Case { frames: frames.clone(), chunks: chunks.clone(), pulls: vec![], salt: 0, style: 0 }.to_json());
            }
        }
    }
    // ---- random: boundary frame sizes, random chunkings incl. empty chunks and 1-byte drips ----
    let n = ctx.n(24_000, 300_000);
    let mut rng = ctx.rng("random", 0);
    let sizes = [0usize, 1, 2, 3, 255, 256, 257, 65_534, 65_535];
    for i in 0..n {
        let nf = 1 + rng.usize(if i % 10 == 0 { 40 } else { 8 });
        let mut frames = vec![];
        let mut total = 0usize;
        for _ in 0..nf {
            let s = match rng.below(10) {
                0..=5 => *rng.pick(&sizes[..7]),
                6 => *rng.pick(&sizes),
                7 => rng.usize(2_000),
                _ => rng.usize(40),
            };
            if total + s + 2 > 2_000_000 {
                break;
            }
            total += s + 2;
            frames.push(s);
        }
        let mut chunks = vec![];
        let mut left = total;
        // sometimes stop short of the end (stream ends in an incomplete frame)
        if rng.chance(1, 5) && left > 0 {
            left -= rng.usize(left.min(70_000));
        }
        let style = rng.below(5);
        while left > 0 {
            let c = match style {
                0 => 1,
                1 => rng.usize(4),
                2 => 1 + rng.usize(70_000),
                3 => *rng.pick(&[0usize, 1, 2, 3, 255, 256, 257, 65_535, 65_536, 65_537]),
                _ => 1 + rng.usize(600),
            }
            .min(left);
            chunks.push(c);
            left -= c;
            if chunks.len() > 200_000 {
                chunks.push(left);
                left = 0;
            }
        }
        let pulls = match rng.below(4) {
            0 => vec![],
            1 => vec![false],
            _ => (0..1 + rng.usize(7)).map(|_| rng.chance(1, 2)).collect(),
        };
        let style = if rng.chance(1, 2) { 0 } else { rng.below(8) as u8 };
        let c = Case { frames, chunks, pulls, salt: rng.byte(), style };
        if style != 0 {
            ctx.count("random-cases-with-stun-like-payloads");
        }
        check_case(ctx, &c);
        ctx.distinct(hash64(&[0xAA, i, ctx.shard]));
        ctx.count("random-cases");
        if i < 2 && c.chunks.len() < 40 {
            ctx.sample("random", || c.to_json());
        }
    }
    // ---- frames whose payloads are STUN messages / carry magic cookies at header offsets, sized
    //      like real traffic, under every chunking style ----
    let n2 = ctx.n(16_000, 200_000);
    let mut rng = ctx.rng("stun-like", 0);
    for i in 0..n2 {
        let nf = 1 + rng.usize(6);
        let frames: Vec<usize> = (0..nf)
            .map(|_| match rng.below(6) {
                0 => rng.usize(24),
                1 => 20,
                2 => 20 + 4 * rng.usize(30),
                3 => 18 + rng.usize(8),
                _ => 6 + rng.usize(120),
            })
            .collect();
        let total: usize = frames.iter().map(|n| n + 2).sum();
        let mut left = if rng.chance(1, 6) { total - rng.usize(total.min(30)) } else { total };
        let mut chunks = vec![];
        let cs = rng.below(4);
        while left > 0 {
            let c = match cs {
                0 => 1,
                1 => 1 + rng.usize(7),
                2 => left,
                _ => 1 + rng.usize(40),
            }
            .min(left);
            chunks.push(c);
            left -= c;
        }
        let pulls = match rng.below(3) {
            0 => vec![],
            1 => vec![false],
            _ => (0..1 + rng.usize(5)).map(|_| rng.chance(1, 2)).collect(),
        };
        let c = Case { frames, chunks, pulls, salt: rng.byte(), style: 1 + (i % 5) as u8 };
        check_case(ctx, &c);
        ctx.distinct(hash64(&[0xAB, i, ctx.shard]));
        ctx.count("stun-like-payload-cases");
    }
    // ---- a connection that buffered several maximum-size frames at once (far more than one frame
    //      of backlog), was drained, and then drips: every byte pushed afterwards still counts ----
    {
        let mut rng = ctx.rng("backlog-then-drip", 0);
        for k in 0..ctx.n(24, 240) {
            let nbig = 2 + (k % 4) as usize;
            let mut frames: Vec<usize> = (0..nbig).map(|_| *rng.pick(&[65_535usize, 65_534, 65_000, 40_000])).collect();
            let big_bytes: usize = frames.iter().map(|n| n + 2).sum();
            let ntail = 2 + rng.usize(5);
            for _ in 0..ntail {
                frames.push(*rng.pick(&[0usize, 1, 2, 3, 5, 7, 255, 256]));
            }
            let tail_bytes: usize = frames[nbig..].iter().map(|n| n + 2).sum();
            let mut chunks = match k % 3 {
                0 => vec![big_bytes],
                1 => vec![big_bytes / 2, big_bytes - big_bytes / 2],
                _ => vec![big_bytes + 1],
            };
            let mut left = tail_bytes - (chunks.iter().sum::<usize>() - big_bytes);
            while left > 0 {
                let c = if k % 2 == 0 { 1 } else { 1 + rng.usize(2) }.min(left);
                chunks.push(c);
                left -= c;
            }
            let c = Case { frames, chunks, pulls: if k % 5 == 4 { vec![false, true] } else { vec![] }, salt: rng.byte(), style: (k % 3) as u8 };
            check_case(ctx, &c);
            ctx.count("backlog-then-drip-cases");
        }
        ctx.require("backlog-then-drip-cases", 24);
    }
    // ---- a backlog of hundreds of small frames in one push, pulled back to back ----
    {
        let mut rng = ctx.rng("many-frames-backlog", 0);
        for k in 0..ctx.n(16, 160) {
            let nf = *rng.pick(&[255usize, 256, 257, 300, 512, 1000, 4096]);
            let frames: Vec<usize> = (0..nf).map(|_| rng.usize(6)).collect();
            let total: usize = frames.iter().map(|n| n + 2).sum();
            let chunks = if k % 2 == 0 { vec![total] } else { vec![total / 2, total - total / 2] };
            let c = Case { frames, chunks, pulls: vec![], salt: rng.byte(), style: 0 };
            check_case(ctx, &c);
            ctx.count("many-frames-backlog-cases");
        }
    }
    // ---- one connection that lives long: more than 4 GiB through a single buffer (one shard per
    //      build; maximum-size frames, pulled as they complete) ----
    if ctx.shard == 0 && !cfg!(miri) {
        let r = guard(|| {
            let mut tb = TcpBuffer::new();
            let mut frame = vec![0xffu8, 0xff];
            frame.extend(std::iter::repeat(0x6c).take(65_535));
            let mut bad: Option<u64> = None;
            let total_frames = 65_700u64;
            for i in 0..total_frames {
                frame[2] = i as u8;
                frame[3] = (i >> 8) as u8;
                tb.push_data(&frame);
                match tb.pull_data() {
                    Some(d) if d.len() == 65_535 && d[0] == i as u8 && d[1] == (i >> 8) as u8 && d[65_534] == 0x6c => {}
                    other => {
                        bad = Some(i);
                        let _ = other;
                        break;
                    }
                }
                if tb.pull_data().is_some() {
                    bad = Some(i);
                    break;
                }
            }
            (bad, total_frames)
        });
        match r {
            Err(p) => ctx.violation("C14", "no-panic", "TcpBuffer", "long-lived-connection", || json!({"kind": "tcp-long-lived"}), "frames".into(), format!("panic: {} at {}", p.msg, p.loc)),
            Ok((Some(i), _)) => ctx.violation("C14", "frames-in-order", "TcpBuffer::pull_data", "long-lived-connection", || json!({"kind": "tcp-long-lived"}), format!("frame #{i} (65535 bytes) returned by the pull after its last byte was pushed, and nothing more"), "something else".into()),
            Ok((None, n)) => ctx.count_n("bytes-through-one-long-lived-buffer", n * 65_537),
        }
    }
    ctx.require("stun-like-payload-cases", 1_000);
    ctx.require("tracing-events-seen-under-the-subscriber", 10_000);
    ctx.require("compositions", 10_000);
    ctx.require("random-cases", 500);
    ctx.require("cases-with-empty-frame", 100);
    ctx.require("cases-with-max-frame", 50);
    ctx.require("frames-delivered", 10_000);
}

pub fn replay(ctx: &mut Ctx, w: &Value) -> Result<(), String> {
    if w.get("kind").and_then(|k| k.as_str()) == Some("tcp-long-lived") {
        // the long-lived connection is part of every run of shard 0: run it again
        let mut c2 = Ctx::new_quiet(&ctx.prop.clone(), ctx.tier, ctx.seed, 0, ctx.nshards);
        run(&mut c2);
        for v in c2.violations.clone() {
            if v["feature"].as_str() == Some("long-lived-connection") {
                ctx.violation("C14", v["assertion"].as_str().unwrap_or(""), v["entry"].as_str().unwrap_or(""), "long-lived-connection", || v["witness"].clone(), v["expected"].as_str().unwrap_or("").to_string(), v["observed"].as_str().unwrap_or("").to_string());
            }
        }
        return Ok(());
    }
    let c = Case::from_json(w).ok_or("bad case")?;
    check_case(ctx, &c);
    Ok(())
}
