//! C13 — XOR-MAPPED-ADDRESS returns the address that was put in.

use crate::ctx::{guard, hash64, Ctx, Tier};
use crate::imp;
use crate::refimpl::attrs::*;
use crate::refimpl::crypto::hex;
use serde_json::{json, Value};
use stun_types::attribute::{Attribute, AttributeFromRaw, AttributeType, AttributeWrite, RawAttribute, XorMappedAddress};
use stun_types::message::{Message, MessageClass, MessageType};

fn wit(a: &RefAddr, tid: &[u8; 12]) -> Value {
    json!({"kind": "xor", "addr": a.to_json(), "tid": hex(tid)})
}

pub fn check_xor(ctx: &mut Ctx, a: &RefAddr, tid: &[u8; 12], through_message: bool) {
    if through_message || (tid[11] ^ a.port as u8 ^ a.ip[3]) % 8 == 0 {
        const TYPES: [u16; 7] = [0x0020, 0x0012, 0x0016, 0x0001, 0x802b, 0x8023, 0xffff];
        check_helpers(ctx, a, tid, TYPES[(a.port as usize ^ tid[0] as usize) % TYPES.len()]);
    }
    ctx.eval();
    let w = || wit(a, tid);
    let std_addr = a.to_std();
    let t = imp::tid_from_bytes(tid);
    let r = guard(|| {
        let x = XorMappedAddress::new(std_addr, t);
        let back = x.addr(t);
        let raw = x.to_raw();
        let wire = raw.value.to_vec();
        let ty = raw.get_type().value();
        let dec = XorMappedAddress::from_raw(&raw).map(|d| d.addr(t)).map_err(|e| format!("{e:?}"));
        // decode from independently produced wire bytes
        let refwire = ref_encode(Kind::XorMappedAddress, &RefVal::Addr(a.clone()), tid).unwrap();
        let raw2 = RawAttribute::new(AttributeType::new(0x0020), &refwire);
        let dec2 = XorMappedAddress::from_raw(&raw2).map(|d| d.addr(t)).map_err(|e| format!("{e:?}"));
        // a different transaction id (low 96 bits differ) must give a different IPv6 address
        let mut t2b = *tid;
        t2b[11] ^= 0x01;
        t2b[0] ^= 0x80;
        let other = XorMappedAddress::from_raw(&raw).map(|d| d.addr(imp::tid_from_bytes(&t2b))).ok();
        // written in place into reused (non-zero) buffers, directly and through a message builder
        let mut inplace: Vec<Vec<u8>> = vec![];
        if through_message {
            // destinations of 64 KiB and more (a length that does not fit 16 bits)
            for total in [65_536usize, 65_540, 131_072] {
                let mut dest = vec![0x3Cu8; total];
                let n = stun_types::attribute::AttributeWriteExt::write_into(&x, &mut dest).unwrap_or(0);
                inplace.push(if dest[n.min(total)..].iter().all(|b| *b == 0x3C) { dest[..n].to_vec() } else { vec![] });
            }
        }
        for fill in [0xA5u8, 0xFF] {
            let mut dest = vec![fill; 4 + wire.len() + 4];
            let n = stun_types::attribute::AttributeWriteExt::write_into(&x, &mut dest).unwrap_or(0);
            inplace.push(if dest[n.min(dest.len())..].iter().all(|b| *b == fill) { dest[..n].to_vec() } else { vec![] });
            if through_message {
                let mut b = Message::builder(MessageType::from_class_method(MessageClass::Success, 1), t);
                b.add_attribute(&x).ok();
                let mut dest = vec![fill; 20 + 4 + wire.len() + 4];
                let n = b.write_into(&mut dest).unwrap_or(0);
                inplace.push(if n >= 20 { dest[20..n].to_vec() } else { vec![] });
            }
        }
        // the same attribute object asked repeatedly, under alternating transaction ids, and its clone:
        // every answer is a function of (wire value, id given to that call) only
        let t2 = imp::tid_from_bytes(&t2b);
        let mut repeated: Vec<(bool, std::net::SocketAddr)> = vec![];
        repeated.push((true, x.addr(t)));
        repeated.push((false, x.addr(t2)));
        repeated.push((true, x.addr(t)));
        if let Ok(d) = XorMappedAddress::from_raw(&raw) {
            repeated.push((false, d.addr(t2)));
            repeated.push((true, d.addr(t)));
            let c = d.clone();
            repeated.push((true, c.addr(t)));
            repeated.push((false, c.addr(t2)));
            repeated.push((false, d.addr(t2)));
        }
        // the way a server's answer takes to the wire: the response handed to a (long-lived, per
        // thread) agent, and what that agent gives the transport read back under the same id
        let agent_trip = if through_message && !cfg!(miri) {
            AGENT.with(|cell| {
                let mut slot = cell.borrow_mut();
                let (agent, base, n) = slot.get_or_insert_with(|| {
                    (stun_proto::agent::StunAgent::builder(stun_types::TransportType::Udp, "10.9.8.7:3478".parse().unwrap()).build(), std::time::Instant::now(), 0u64)
                });
                *n += 1;
                let mut b = Message::builder(MessageType::from_class_method(if *n % 5 == 0 { MessageClass::Error } else { MessageClass::Success }, 1), t);
                b.add_attribute(&x).ok();
                if *n % 3 == 0 {
                    let _ = b.add_fingerprint();
                }
                let now = *base + std::time::Duration::from_millis(*n * 7);
                // now and then the agent is a client too, with a request of its own outstanding under
                // this very id (a hairpinned / loopback Binding): the answer goes out all the same
                if *n % 7 == 3 {
                    let _ = agent.send(Message::builder(MessageType::from_class_method(MessageClass::Request, 1), t), "192.0.2.9:3478".parse().unwrap(), now);
                }
                match agent.send(b, std_addr, now) {
                    Ok(tr) => {
                        let to_ok = tr.to == std_addr;
                        let data = tr.data().to_vec();
                        Message::from_bytes(&data).ok().and_then(|m| m.attribute::<XorMappedAddress>().ok().map(|d| d.addr(m.transaction_id()))).filter(|_| to_ok)
                    }
                    Err(_) => None,
                }
            })
        } else {
            Some(std_addr)
        };
        let msg_trip = if agent_trip != Some(std_addr) {
            None
        } else if through_message {
            let mut b = Message::builder(MessageType::from_class_method(MessageClass::Success, 1), t);
            // other attributes in front of it, among them types that share low bits with 0x0020 (the
            // draft code point 0x8020, 0x0060, 0x0120 ...): they are other attributes
            const COMPANIONS: [u16; 16] = [0x8020, 0x0060, 0x00a0, 0x0120, 0x0420, 0x1020, 0x4020, 0xc020, 0x0021, 0x0000, 0x2000, 0x0002, 0x8022, 0x0001, 0x7f20, 0xff20];
            let sel = std_addr.port() as usize ^ (tid[3] as usize);
            for k in 0..(sel % 3) {
                let ct = COMPANIONS[(sel / 3 + k * 5) % COMPANIONS.len()];
                let _ = b.add_raw_attribute(RawAttribute::new(AttributeType::new(ct), &wire[..(sel + k) % 5]).into_owned());
            }
            // now and then next to an attribute so large that the message is one of the largest the
            // length field can express (20 + 65 516 .. 65 532 bytes)
            if sel % 16 == 5 {
                let n = 65_540 + 4 * (sel % 4) - b.byte_len() - 4 - (4 + wire.len());
                let _ = b.add_raw_attribute(RawAttribute::new(AttributeType::new(0x7e7e), &vec![0x7eu8; n]).into_owned());
            }
            b.add_attribute(&x).ok();
            let bytes = b.build();
            // the owned copy of the builder (made while it still borrows the typed attribute) and its
            // in-place writer carry the same message
            let owned = b.clone().into_owned();
            let mut dest = vec![0x3Cu8; bytes.len()];
            let n = owned.write_into(&mut dest).unwrap_or(0);
            // a message (not builder-made) that carries the attribute twice: the first one counts
            let twice_ok = {
                let mut a2 = a.clone();
                a2.port ^= 0x0101;
                a2.ip[3] ^= 0x55;
                let second = ref_encode(Kind::XorMappedAddress, &RefVal::Addr(a2), tid).unwrap();
                let m2 = crate::refimpl::parse::encode(2, 1, tid, &[crate::refimpl::parse::Tlv::new(0x0020, wire.clone()), crate::refimpl::parse::Tlv::new(0x8022, b"x".to_vec()), crate::refimpl::parse::Tlv::new(0x0020, second)]);
                Message::from_bytes(&m2).ok().and_then(|m| m.attribute::<XorMappedAddress>().ok().map(|d| d.addr(m.transaction_id()))) == Some(std_addr)
            };
            if owned.build() != bytes || dest[..n.min(dest.len())] != bytes[..] || !twice_ok {
                None
            } else {
                Message::from_bytes(&bytes).ok().and_then(|m| m.attribute::<XorMappedAddress>().ok().map(|d| d.addr(m.transaction_id())))
            }
        } else {
            Some(std_addr)
        };
        (back, wire, ty, dec, dec2, other, msg_trip, x.length(), repeated, t2b, inplace)
    });
    match r {
        Err(p) => ctx.violation("C13", "no-panic", "XorMappedAddress", "", w, "value".into(), format!("panic: {} at {}", p.msg, p.loc)),
        Ok((back, wire, ty, dec, dec2, other, msg_trip, len, repeated, t2b, inplace)) => {
            let fam = if a.v6 { "ipv6" } else { "ipv4" };
            ctx.count(fam);
            if back != std_addr {
                ctx.violation("C13", "addr-roundtrip", "XorMappedAddress::{new,addr}", fam, w, format!("{std_addr}"), format!("{back}"));
            }
            let want = ref_encode(Kind::XorMappedAddress, &RefVal::Addr(a.clone()), tid).unwrap();
            if wire != want || ty != 0x0020 || len as usize != want.len() {
                ctx.violation("C13", "wire-encoding", "XorMappedAddress::to_raw", fam, w, hex(&want), format!("type {ty:#06x} len {len} value {}", hex(&wire)));
            }
            // TLV as written in place: type 0x0020, length, the reference value (no padding: 8 / 20 bytes)
            let mut tlv = vec![0x00, 0x20, 0x00, want.len() as u8];
            tlv.extend_from_slice(&want);
            for (i, got) in inplace.iter().enumerate() {
                if *got != tlv {
                    ctx.violation("C13", "wire-encoding", "XorMappedAddress::write_into", &format!("{fam},reused-buffer"), w, hex(&tlv), format!("path #{i}: {}", hex(got)));
                    break;
                }
            }
            if dec.as_ref() != Ok(&std_addr) || dec2.as_ref() != Ok(&std_addr) {
                ctx.violation("C13", "decode-wire", "XorMappedAddress::from_raw", fam, w, format!("{std_addr}"), format!("own wire {dec:?}, reference wire {dec2:?}"));
            }
            if msg_trip != Some(std_addr) {
                ctx.violation("C13", "message-roundtrip", "Message::attribute::<XorMappedAddress>", fam, w, format!("{std_addr}"), format!("{msg_trip:?}"));
            }
            // expected answer under the other id: the reference decoding of the reference wire value
            let want_other = match ref_decode(Kind::XorMappedAddress, &ref_encode(Kind::XorMappedAddress, &RefVal::Addr(a.clone()), tid).unwrap(), &t2b) {
                Some(RefVal::Addr(o)) => Some(o.to_std()),
                _ => None,
            };
            for (i, (same_tid, got)) in repeated.iter().enumerate() {
                let want = if *same_tid { Some(std_addr) } else { want_other };
                if Some(*got) != want {
                    ctx.violation(
                        "C13",
                        "addr-depends-only-on-wire-and-id",
                        "XorMappedAddress::addr",
                        &format!("{fam},repeated-call"),
                        w,
                        format!("call #{i} under the {} id: {want:?}", if *same_tid { "original" } else { "other" }),
                        format!("{got}"),
                    );
                    break;
                }
            }
            ctx.count_n("repeated-addr-calls", repeated.len() as u64);
            if a.v6 {
                if other == Some(std_addr) {
                    ctx.violation("C13", "other-tid-differs", "XorMappedAddress::addr", fam, w, "a different address".into(), format!("{other:?}"));
                }
            } else if other != Some(std_addr) {
                // IPv4 does not depend on the transaction id at all
                ctx.violation("C13", "ipv4-independent-of-tid", "XorMappedAddress::addr", fam, w, format!("{std_addr}"), format!("{other:?}"));
            }
        }
    }
}

thread_local! {
    static AGENT: std::cell::RefCell<Option<(stun_proto::agent::StunAgent, std::time::Instant, u64)>> = const { std::cell::RefCell::new(None) };
}

/// The public helper types the attribute is made of (other crates build XOR-PEER-ADDRESS,
/// XOR-RELAYED-ADDRESS, MAPPED-ADDRESS ... from them): `XorSocketAddr::{xor_addr,new,to_raw,from_raw}`
/// and `MappedSocketAddr::{new,to_raw,from_raw,addr,length}` under any attribute type.
pub fn check_helpers(ctx: &mut Ctx, a: &RefAddr, tid: &[u8; 12], ty: u16) {
    use stun_types::attribute::{MappedSocketAddr, XorSocketAddr};
    ctx.eval();
    let w = || wit(a, tid);
    let std_addr = a.to_std();
    let t = imp::tid_from_bytes(tid);
    let fam = if a.v6 { "ipv6,helper-types" } else { "ipv4,helper-types" };
    let r = guard(|| {
        let xored = XorSocketAddr::xor_addr(std_addr, t);
        let twice = XorSocketAddr::xor_addr(xored, t);
        let x = XorSocketAddr::new(std_addr, t);
        let raw = x.to_raw(AttributeType::new(ty));
        let xdec = XorSocketAddr::from_raw(&raw).map(|d| (XorSocketAddr::xor_addr(d.addr.addr(), t), d.length(), d == x)).map_err(|e| format!("{e:?}"));
        let m = MappedSocketAddr::new(std_addr);
        let mraw = m.to_raw(AttributeType::new(ty));
        let mdec = MappedSocketAddr::from_raw(&mraw).map(|d| (d.addr(), d.length())).map_err(|e| format!("{e:?}"));
        let shown = format!("{m} {x} {m:?} {x:?}").len();
        (xored, twice, raw.get_type().value(), raw.value.to_vec(), x.length(), xdec, mraw.get_type().value(), mraw.value.to_vec(), m.length(), m.addr(), mdec, shown)
    });
    match r {
        Err(p) => ctx.violation("C13", "no-panic", "XorSocketAddr / MappedSocketAddr", fam, w, "value".into(), format!("panic: {} at {}", p.msg, p.loc)),
        Ok((xored, twice, xty, xwire, xlen, xdec, mty, mwire, mlen, maddr, mdec, _shown)) => {
            let want_x = ref_encode(Kind::XorMappedAddress, &RefVal::Addr(a.clone()), tid).unwrap();
            let want_m = ref_encode(Kind::AlternateServer, &RefVal::Addr(a.clone()), tid).unwrap();
            let want_xored = a.xor(tid).to_std();
            if xored != want_xored || twice != std_addr {
                ctx.violation("C13", "wire-encoding", "XorSocketAddr::xor_addr", fam, w, format!("{want_xored}, and {std_addr} when applied twice"), format!("{xored}, {twice}"));
            }
            if xty != ty || xwire != want_x || xlen as usize != want_x.len() {
                ctx.violation("C13", "wire-encoding", "XorSocketAddr::to_raw", fam, w, format!("type {ty:#06x} {}", hex(&want_x)), format!("type {xty:#06x} len {xlen} {}", hex(&xwire)));
            }
            if xdec != Ok((std_addr, want_x.len() as u16, true)) {
                ctx.violation("C13", "decode-wire", "XorSocketAddr::from_raw", fam, w, format!("{std_addr}"), format!("{xdec:?}"));
            }
            if mty != ty || mwire != want_m || mlen as usize != want_m.len() || maddr != std_addr {
                ctx.violation("C13", "wire-encoding", "MappedSocketAddr::to_raw", fam, w, format!("type {ty:#06x} {}", hex(&want_m)), format!("type {mty:#06x} len {mlen} {} addr {maddr}", hex(&mwire)));
            }
            if mdec != Ok((std_addr, want_m.len() as u16)) {
                ctx.violation("C13", "decode-wire", "MappedSocketAddr::from_raw", fam, w, format!("{std_addr}"), format!("{mdec:?}"));
            }
            ctx.count("helper-type-checks");
        }
    }
}

/// IPv6 socket addresses also carry a flow label and a scope id, which XOR-MAPPED-ADDRESS cannot
/// carry: for those inputs the address and the port still come back (the unmodified code returns
/// them with flow label and scope 0), and nothing panics.
fn check_scoped(ctx: &mut Ctx, a: &RefAddr, tid: &[u8; 12], flowinfo: u32, scope: u32) {
    if !a.v6 {
        return;
    }
    ctx.eval();
    let w = || {
        let mut v = wit(a, tid);
        v["flowinfo"] = json!(flowinfo);
        v["scope_id"] = json!(scope);
        v
    };
    let t = imp::tid_from_bytes(tid);
    let sa = std::net::SocketAddr::V6(std::net::SocketAddrV6::new(std::net::Ipv6Addr::from(a.ip), a.port, flowinfo, scope));
    let r = guard(|| {
        let x = XorMappedAddress::new(sa, t);
        (x.addr(t), x.to_raw().value.to_vec())
    });
    match r {
        Err(p) => ctx.violation("C13", "no-panic", "XorMappedAddress::new", "ipv6,scoped", w, "an attribute".into(), format!("panic: {} at {}", p.msg, p.loc)),
        Ok((back, wire)) => {
            let want = ref_encode(Kind::XorMappedAddress, &RefVal::Addr(a.clone()), tid).unwrap();
            if back.ip() != sa.ip() || back.port() != sa.port() || wire != want {
                ctx.violation("C13", "addr-roundtrip", "XorMappedAddress::{new,addr}", "ipv6,scoped", w, format!("{} port {} / {}", sa.ip(), sa.port(), hex(&want)), format!("{back} / {}", hex(&wire)));
            }
            ctx.count("scoped-ipv6-addresses");
        }
    }
}

/// State carried between calls on one thread (a memo, a cache) shows on the *first* call: the
/// boundary cases are also run as the very first thing a freshly spawned thread does.
fn check_on_fresh_thread(ctx: &mut Ctx, a: &RefAddr, tid: &[u8; 12]) {
    let (a2, t2) = (a.clone(), *tid);
    let (prop, tier, seed, shard, nshards) = (ctx.prop.clone(), ctx.tier, ctx.seed, ctx.shard, ctx.nshards);
    let h = std::thread::spawn(move || {
        let mut c2 = Ctx::new_quiet(&prop, tier, seed, shard, nshards);
        check_xor(&mut c2, &a2, &t2, true);
        c2.violations.clone()
    });
    match h.join() {
        Ok(viols) => {
            for v in viols {
                let sig = v["signature"].as_str().unwrap_or("").to_string();
                let parts: Vec<&str> = sig.split('|').collect();
                if parts.len() >= 4 {
                    ctx.violation(parts[0], parts[1], parts[2], &format!("{},first-call-on-a-fresh-thread", parts[3]), || v["witness"].clone(), v["expected"].as_str().unwrap_or("").to_string(), v["observed"].as_str().unwrap_or("").to_string());
                }
            }
            ctx.count("fresh-thread-first-calls");
        }
        Err(_) => ctx.violation("C13", "no-panic", "XorMappedAddress", "fresh-thread", || wit(a, tid), "thread completes".into(), "thread panicked".into()),
    }
    ctx.eval();
}

fn mk(v6: bool, ip: &[u8], port: u16) -> RefAddr {
    let mut a = [0u8; 16];
    a[..ip.len()].copy_from_slice(ip);
    RefAddr { v6, ip: a, port }
}

pub fn run(ctx: &mut Ctx) {
    let _quick = ctx.tier == Tier::Quick;
    let mut tids: Vec<[u8; 12]> = vec![[0; 12], [0xff; 12], [0x21, 0x12, 0xa4, 0x42, 0x21, 0x12, 0xa4, 0x42, 0x21, 0x12, 0xa4, 0x42]];
    for bit in 0..96 {
        let mut t = [0u8; 12];
        t[bit / 8] = 1 << (bit % 8);
        tids.push(t);
    }
    let mut idx = 0u64;
    // ---- all 65 536 ports x a few addresses x a few tids ----
    let base_addrs = [
        mk(false, &[0, 0, 0, 0], 0),
        mk(false, &[255, 255, 255, 255], 0),
        mk(false, &[0x21, 0x12, 0xa4, 0x42], 0),
        mk(true, &[0; 16], 0),
        mk(true, &[0xff; 16], 0),
        mk(true, &[0x21, 0x12, 0xa4, 0x42, 0x21, 0x12, 0xa4, 0x42, 0x21, 0x12, 0xa4, 0x42, 0x21, 0x12, 0xa4, 0x42], 0),
    ];
    for port in 0..=0xffffu32 {
        idx += 1;
        if !ctx.mine(idx) {
            continue;
        }
        for (j, a) in base_addrs.iter().enumerate() {
            let mut a = a.clone();
            a.port = port as u16;
            let t = tids[(port as usize + j) % tids.len()];
            check_xor(ctx, &a, &t, port % 257 == 0);
            ctx.distinct(hash64(&[j as u64, port as u64]));
        }
    }
    ctx.count_n("ports-exhaustive-per-build", if ctx.shard == 0 { 65536 } else { 0 });
    // ---- byte walk: every octet position x every value 0..=255, single bits ----
    for v6 in [false, true] {
        let n = if v6 { 16 } else { 4 };
        for pos in 0..n {
            for val in 0..=255u8 {
                idx += 1;
                if !ctx.mine(idx) {
                    continue;
                }
                let mut ip = vec![0u8; n];
                ip[pos] = val;
                let a = mk(v6, &ip, 0x2112 ^ val as u16);
                for t in [tids[0], tids[1], tids[3 + (pos * 8 + (val as usize % 8)) % 96]] {
                    check_xor(ctx, &a, &t, false);
                    ctx.distinct(hash64(&[9, v6 as u64, pos as u64, val as u64, t[0] as u64]));
                }
            }
        }
    }
    // boundary (address, id) pairs as the first call of a fresh thread, and scoped IPv6 inputs
    if !cfg!(miri) {
        for (ti, t) in tids.iter().enumerate().take(6) {
            for (ai, a) in base_addrs.iter().enumerate() {
                idx += 1;
                if !ctx.mine(idx) {
                    continue;
                }
                check_on_fresh_thread(ctx, a, t);
                let _ = (ti, ai);
            }
        }
    }
    for (ai, a) in base_addrs.iter().enumerate().filter(|(_, a)| a.v6) {
        for (flow, scope) in [(0u32, 1u32), (1, 0), (0xfffff, 0xffff_ffff), (0x12345, 7)] {
            idx += 1;
            if ctx.mine(idx) {
                check_scoped(ctx, a, &tids[ai % 3], flow, scope);
                let ll = mk(true, &[0xfe, 0x80, 0, 0, 0, 0, 0, 0, 2, 0x11, 0x22, 0xff, 0xfe, 0x33, 0x44, 0x55], 3478);
                check_scoped(ctx, &ll, &tids[(ai + 1) % 3], flow, scope);
            }
        }
    }
    // every tid bit against fixed addresses (through the message as well)
    for (ti, t) in tids.iter().enumerate() {
        idx += 1;
        if !ctx.mine(idx) {
            continue;
        }
        for a in &base_addrs {
            check_xor(ctx, a, t, true);
        }
        if ti < 2 {
            ctx.sample("xor", || wit(&base_addrs[4], t));
        }
    }
    // ---- special-purpose ranges (RFC 6890): every IPv6 prefix x every embedded special IPv4, and
    //      addresses whose XOR *image* lands in such a range (a canonicalisation applied before or
    //      after the XOR would show up here and nowhere in a uniform sample) ----
    {
        use crate::gen::vals::{SPECIAL_V4, SPECIAL_V6_PREFIX};
        let mut cases: Vec<RefAddr> = vec![];
        for v4 in SPECIAL_V4.iter() {
            cases.push(mk(false, v4, 3478));
            for (p, n) in SPECIAL_V6_PREFIX.iter() {
                let mut ip = [0u8; 16];
                ip[12..].copy_from_slice(v4);
                ip[..*n].copy_from_slice(&p[..*n]);
                cases.push(mk(true, &ip, 32853));
            }
        }
        for last in [0u8, 1] {
            let mut ip = [0u8; 16];
            ip[15] = last;
            cases.push(mk(true, &ip, 1));
        }
        for (ci, a) in cases.iter().enumerate() {
            idx += 1;
            if !ctx.mine(idx) {
                continue;
            }
            for (ti, t) in tids.iter().enumerate().filter(|(ti, _)| ti % 9 == ci % 9 || *ti < 3) {
                check_xor(ctx, a, t, ti < 3);
                // the address whose wire image is `a`: a ^ (cookie || tid)
                let mut img = a.clone();
                let key: Vec<u8> = [0x21u8, 0x12, 0xa4, 0x42].iter().chain(t.iter()).copied().collect();
                let n = if a.v6 { 16 } else { 4 };
                for k in 0..n {
                    img.ip[k] ^= key[k];
                }
                img.port ^= 0x2112;
                check_xor(ctx, &img, t, ti < 3);
                ctx.count_n("special-range-addresses", 2);
                ctx.distinct(hash64(&[13, ci as u64, ti as u64]));
            }
            if ci % 40 == 5 {
                ctx.sample("special-range", || wit(a, &tids[1]));
            }
        }
    }
    // ---- addresses whose WIRE image contains bytes that look like STUN structure (an attribute
    //      header of FINGERPRINT / MESSAGE-INTEGRITY / MESSAGE-INTEGRITY-SHA256 / SOFTWARE / another
    //      XOR-MAPPED-ADDRESS, a message header start, the magic cookie) at every aligned offset of
    //      the value, the rest random; through the wire as the last and only attribute ----
    {
        let patterns: [[u8; 4]; 8] = [[0x80, 0x28, 0x00, 0x04], [0x00, 0x08, 0x00, 0x14], [0x00, 0x1c, 0x00, 0x20], [0x80, 0x22, 0x00, 0x04], [0x00, 0x20, 0x00, 0x08], [0x00, 0x01, 0x00, 0x00], [0x21, 0x12, 0xa4, 0x42], [0x00, 0x00, 0x00, 0x00]];
        let mut rng = ctx.rng("wire-lookalike", 0);
        for (pi, pat) in patterns.iter().enumerate() {
            for v6 in [false, true] {
                let offs: &[usize] = if v6 { &[0, 4, 8, 12] } else { &[0] };
                for &o in offs {
                    for (ti, t) in tids.iter().enumerate().take(12) {
                        idx += 1;
                        if !ctx.mine(idx) {
                            continue;
                        }
                        for _rep in 0..4 {
                            // the image (what is on the wire), then the address that produces it
                            let mut img = [0u8; 16];
                            for b in img.iter_mut() {
                                *b = rng.byte();
                            }
                            img[o..o + 4].copy_from_slice(pat);
                            let key: Vec<u8> = [0x21u8, 0x12, 0xa4, 0x42].iter().chain(t.iter()).copied().collect();
                            let n = if v6 { 16 } else { 4 };
                            let mut ip = [0u8; 16];
                            for k in 0..n {
                                ip[k] = img[k] ^ key[k];
                            }
                            let a = RefAddr { v6, ip, port: rng.next() as u16 };
                            check_xor(ctx, &a, t, true);
                            ctx.count("wire-images-that-look-like-stun");
                            ctx.distinct(hash64(&[14, pi as u64, o as u64, ti as u64, a.port as u64]));
                        }
                    }
                }
            }
        }
        ctx.require("wire-images-that-look-like-stun", 1_000);
    }
    // ---- strided IPv4 sweep and random IPv6 ----
    let n4 = ctx.n(1 << 22, 1 << 26);
    let stride = ((1u64 << 32) / (n4 * ctx.nshards)).max(1);
    let mut x = ctx.shard * stride / 2 + ctx.seed % stride.max(1);
    let mut rng = ctx.rng("random", 0);
    for i in 0..n4 {
        let ip = (x as u32).to_be_bytes();
        let a = mk(false, &ip, rng.next() as u16);
        let t = crate::gen::msg::gen_tid(&mut rng);
        check_xor(ctx, &a, &t, i % 4096 == 0);
        ctx.distinct(hash64(&[4, x]));
        x = x.wrapping_add(stride * ctx.nshards);
    }
    let n6 = ctx.n(1 << 22, 100_000_000);
    for i in 0..n6 {
        let a = crate::gen::vals::gen_addr(&mut rng);
        let t = crate::gen::msg::gen_tid(&mut rng);
        check_xor(ctx, &a, &t, i % 4096 == 0);
        ctx.distinct(hash64(&[6, crate::ctx::hash_bytes(&a.ip), a.port as u64, crate::ctx::hash_bytes(&t)]));
        if i < 2 {
            ctx.sample("random", || wit(&a, &t));
        }
    }
    ctx.require("helper-type-checks", 10_000);
    ctx.require("ipv4", 100_000);
    ctx.require("ipv6", 100_000);
    ctx.require("special-range-addresses", 1_000);
    ctx.require("fresh-thread-first-calls", 30);
    ctx.require("scoped-ipv6-addresses", 20);
}

pub fn replay(ctx: &mut Ctx, w: &Value) -> Result<(), String> {
    let a = RefAddr::from_json(w.get("addr").ok_or("addr")?).ok_or("bad addr")?;
    let t = crate::refimpl::crypto::unhex(w["tid"].as_str().ok_or("tid")?).ok_or("hex")?;
    let mut tid = [0u8; 12];
    tid.copy_from_slice(&t[..12]);
    check_xor(ctx, &a, &tid, true);
    Ok(())
}
