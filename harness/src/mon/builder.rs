//! Builder engine: programs over `MessageBuilder` (shared by C03, C04, C09, C11, C12, C17).

use crate::gen::msg::{gen_method, gen_tid};
use crate::gen::vals::*;
use crate::imp;
use crate::prng::Rng;
use crate::refimpl::attrs::*;
use crate::refimpl::crypto::{hex, unhex};
use crate::refimpl::parse::*;
use serde_json::{json, Value};
use stun_types::attribute::{AttributeType, AttributeWrite, RawAttribute};
use stun_types::message::{IntegrityAlgorithm, Message, MessageBuilder, MessageClass, MessageType};

#[derive(Clone, Debug, PartialEq)]
pub enum AttrSpec {
    Typed(Kind, RefVal),
    Raw(u16, Vec<u8>),
}

impl AttrSpec {
    pub fn ty(&self) -> u16 {
        match self {
            AttrSpec::Typed(k, _) => k.code(),
            AttrSpec::Raw(t, _) => *t,
        }
    }
    pub fn wire_value(&self, tid: &[u8; 12]) -> Vec<u8> {
        match self {
            AttrSpec::Typed(k, v) => ref_encode(*k, v, tid).unwrap(),
            AttrSpec::Raw(_, v) => v.clone(),
        }
    }
    pub fn to_json(&self) -> Value {
        match self {
            AttrSpec::Typed(k, v) => json!({"typed": k.name(), "value": v.to_json()}),
            AttrSpec::Raw(t, v) => json!({"raw": t, "value": hex(v)}),
        }
    }
    pub fn from_json(v: &Value) -> Option<AttrSpec> {
        if let Some(k) = v.get("typed") {
            return Some(AttrSpec::Typed(Kind::from_name(k.as_str()?)?, RefVal::from_json(v.get("value")?)?));
        }
        Some(AttrSpec::Raw(v.get("raw")?.as_u64()? as u16, unhex(v.get("value")?.as_str()?)?))
    }
}

#[derive(Clone, Copy, Debug, PartialEq, Eq)]
pub enum SealSpec {
    Sha1,
    Sha256,
    Fp,
}

impl SealSpec {
    pub fn name(self) -> &'static str {
        match self {
            SealSpec::Sha1 => "sha1",
            SealSpec::Sha256 => "sha256",
            SealSpec::Fp => "fingerprint",
        }
    }
    pub fn from_name(s: &str) -> Option<SealSpec> {
        match s {
            "sha1" => Some(SealSpec::Sha1),
            "sha256" => Some(SealSpec::Sha256),
            "fingerprint" => Some(SealSpec::Fp),
            _ => None,
        }
    }
    pub fn ty(self) -> u16 {
        match self {
            SealSpec::Sha1 => MI,
            SealSpec::Sha256 => MI256,
            SealSpec::Fp => FP,
        }
    }
}

#[derive(Clone, Debug)]
pub struct Program {
    pub class: u8,
    pub method: u16,
    pub tid: [u8; 12],
    pub attrs: Vec<AttrSpec>,
    pub seals: Vec<SealSpec>,
    pub creds: RefCreds,
}

impl Program {
    pub fn to_json(&self) -> Value {
        json!({
            "kind": "program",
            "class": self.class,
            "method": self.method,
            "tid": hex(&self.tid),
            "attrs": self.attrs.iter().map(|a| a.to_json()).collect::<Vec<_>>(),
            "seals": self.seals.iter().map(|s| s.name()).collect::<Vec<_>>(),
            "creds": self.creds.to_json(),
        })
    }
    pub fn from_json(v: &Value) -> Option<Program> {
        let t = unhex(v.get("tid")?.as_str()?)?;
        let mut tid = [0u8; 12];
        if t.len() != 12 {
            return None;
        }
        tid.copy_from_slice(&t);
        Some(Program {
            class: v.get("class")?.as_u64()? as u8,
            method: v.get("method")?.as_u64()? as u16,
            tid,
            attrs: v.get("attrs")?.as_array()?.iter().map(AttrSpec::from_json).collect::<Option<Vec<_>>>()?,
            seals: v.get("seals")?.as_array()?.iter().map(|s| SealSpec::from_name(s.as_str()?)).collect::<Option<Vec<_>>>()?,
            creds: RefCreds::from_json(v.get("creds")?)?,
        })
    }

    /// The bytes the RFCs prescribe for this program, computed by the reference encoder.
    pub fn reference_bytes(&self) -> Vec<u8> {
        let tlvs: Vec<Tlv> = self.attrs.iter().map(|a| Tlv::new(a.ty(), a.wire_value(&self.tid))).collect();
        let mut b = encode(self.class, self.method, &self.tid, &tlvs);
        let key = self.creds.key();
        for s in &self.seals {
            seal(
                &mut b,
                match s {
                    SealSpec::Sha1 => Seal::Sha1,
                    SealSpec::Sha256 => Seal::Sha256(32),
                    SealSpec::Fp => Seal::Fingerprint,
                },
                &key,
            );
        }
        b
    }
}

impl crate::ctx::WitnessSrc for Program {
    fn witness(&self) -> Value {
        self.to_json()
    }
}

pub fn class_from(n: u8) -> MessageClass {
    match n {
        0 => MessageClass::Request,
        1 => MessageClass::Indication,
        2 => MessageClass::Success,
        _ => MessageClass::Error,
    }
}

pub fn gen_raw_spec(rng: &mut Rng, used: &[u16]) -> AttrSpec {
    loop {
        let t = match rng.below(6) {
            0 => 0x7f00 + rng.below(64) as u16,
            1 => 0xff00 + rng.below(64) as u16,
            2 => 0x0001,
            3 => {
                // a built-in ordinary type carried raw (value need not be valid for the type)
                let k = crate::refimpl::attrs::ordinary_kinds();
                rng.pick(&k).code()
            }
            _ => rng.next() as u16,
        };
        if t == MI || t == MI256 || t == FP || used.contains(&t) {
            continue;
        }
        let n = match rng.below(8) {
            0 => 0,
            1 => 763,
            2 => 760 + rng.usize(4),
            _ => crate::gen::msg::gen_value_len(rng).min(763),
        };
        let mut v = rng.bytes(n);
        // one value in six carries bytes that look like STUN structure, aligned as the real thing
        // would be, at its very end (the last 0..3 bytes left to the padding) or at its start: a
        // FINGERPRINT / MESSAGE-INTEGRITY(-SHA256) attribute, a whole header
        if rng.chance(1, 6) {
            let like: Vec<u8> = match rng.below(5) {
                0 | 1 => [&[0x80u8, 0x28, 0x00, 0x04][..], &rng.bytes(4)].concat(),
                2 => [&[0x00u8, 0x08, 0x00, 0x14][..], &rng.bytes(20)].concat(),
                3 => [&[0x00u8, 0x1c, 0x00, 0x20][..], &rng.bytes(32)].concat(),
                _ => [&[0x00u8, 0x01, 0x00, 0x00, 0x21, 0x12, 0xa4, 0x42][..], &rng.bytes(12)].concat(),
            };
            let keep = like.len() - rng.usize(4);
            let front = (n.min(700) / 4) * 4;
            if rng.chance(3, 4) {
                v.truncate(front);
                v.extend_from_slice(&like[..keep]);
            } else {
                v = [&like[..], &v[..front.min(v.len())]].concat();
            }
        }
        return AttrSpec::Raw(t, v);
    }
}

/// A program the builder must accept: distinct types, seals in a legal order.
pub fn gen_program(rng: &mut Rng, max_attrs: usize, many: bool) -> Program {
    let tid = gen_tid(rng);
    // "many": every count 9..=40, so that each position around the 16-entry inline capacity is at
    // some time the last ordinary attribute, the first seal, the second seal ...
    let n = if many { 9 + rng.usize(32) } else { rng.usize(max_attrs + 1) };
    let mut attrs: Vec<AttrSpec> = vec![];
    let kinds = crate::refimpl::attrs::ordinary_kinds();
    for _ in 0..n {
        let used: Vec<u16> = attrs.iter().map(|a| a.ty()).collect();
        if rng.chance(3, 5) && !many || (many && rng.chance(2, 5)) {
            let k = *rng.pick(&kinds);
            if used.contains(&k.code()) {
                attrs.push(gen_raw_spec(rng, &used));
            } else {
                attrs.push(AttrSpec::Typed(k, gen_refval(rng, k)));
            }
        } else {
            attrs.push(gen_raw_spec(rng, &used));
        }
    }
    let seals = match rng.below(8) {
        0 => vec![],
        1 => vec![SealSpec::Sha1],
        2 => vec![SealSpec::Sha256],
        3 => vec![SealSpec::Fp],
        4 => vec![SealSpec::Sha1, SealSpec::Sha256],
        5 => vec![SealSpec::Sha1, SealSpec::Fp],
        6 => vec![SealSpec::Sha256, SealSpec::Fp],
        _ => vec![SealSpec::Sha1, SealSpec::Sha256, SealSpec::Fp],
    };
    Program { class: rng.below(4) as u8, method: gen_method(rng), tid, attrs, seals, creds: gen_creds(rng) }
}

/// Pre-built attribute objects for a program (they must outlive the builder that borrows them).
pub enum Obj {
    Typed(Box<dyn AttributeWrite>),
    Raw(u16, Vec<u8>),
}

pub fn make_objs(p: &Program) -> Result<Vec<Obj>, String> {
    p.attrs
        .iter()
        .map(|a| match a {
            AttrSpec::Typed(k, v) => imp::impl_construct(*k, v, &p.tid).map(Obj::Typed),
            AttrSpec::Raw(t, v) => Ok(Obj::Raw(*t, v.clone())),
        })
        .collect()
}

pub fn new_builder<'a>(p: &Program) -> MessageBuilder<'a> {
    Message::builder(MessageType::from_class_method(class_from(p.class), p.method), imp::tid_from_bytes(&p.tid))
}

/// Run the program on a fresh builder; `Err` names the first refused operation.
pub fn apply_program<'a>(p: &Program, objs: &'a [Obj]) -> Result<MessageBuilder<'a>, String> {
    let mut b = new_builder(p);
    for (i, o) in objs.iter().enumerate() {
        match o {
            Obj::Typed(a) => b.add_attribute(a.as_ref()).map_err(|e| format!("add_attribute #{i}: {e:?}"))?,
            Obj::Raw(t, v) => b
                .add_raw_attribute(RawAttribute::new(AttributeType::new(*t), v))
                .map_err(|e| format!("add_raw_attribute #{i}: {e:?}"))?,
        }
    }
    let creds = imp::to_impl_creds(&p.creds);
    for s in &p.seals {
        match s {
            SealSpec::Sha1 => b.add_message_integrity(&creds, IntegrityAlgorithm::Sha1).map_err(|e| format!("add sha1: {e:?}"))?,
            SealSpec::Sha256 => b.add_message_integrity(&creds, IntegrityAlgorithm::Sha256).map_err(|e| format!("add sha256: {e:?}"))?,
            SealSpec::Fp => b.add_fingerprint().map_err(|e| format!("add fingerprint: {e:?}"))?,
        }
    }
    Ok(b)
}

/// The same program, with the builder observed between every two additions through its `&self`
/// methods (`byte_len`, `build`, `write_into`, `has_attribute`, a dropped clone): observing a builder
/// must not change what it serialises later.
pub fn apply_program_observed<'a>(p: &Program, objs: &'a [Obj]) -> Result<MessageBuilder<'a>, String> {
    let full = objs.len() <= 48;
    let light = objs.len() <= 2048;
    fn observe(b: &MessageBuilder<'_>, i: usize, full: bool, light: bool) {
        if light {
            let n = b.byte_len();
            if full {
                match i % 4 {
                    0 => {
                        let _ = b.build();
                    }
                    1 => {
                        let mut d = vec![0xEEu8; n];
                        let _ = b.write_into(&mut d);
                    }
                    2 => {
                        let _ = b.clone().into_owned().build();
                    }
                    _ => {
                        let mut d = vec![0u8; n / 2];
                        let _ = b.write_into(&mut d);
                    }
                }
                let _ = b.has_attribute(AttributeType::new(0x0006));
            }
        }
    }
    let mut b = new_builder(p);
    observe(&b, 3, full, light);
    observe(&b, 0, full, light);
    for (i, o) in objs.iter().enumerate() {
        match o {
            Obj::Typed(a) => b.add_attribute(a.as_ref()).map_err(|e| format!("add_attribute #{i}: {e:?}"))?,
            Obj::Raw(t, v) => b
                .add_raw_attribute(RawAttribute::new(AttributeType::new(*t), v))
                .map_err(|e| format!("add_raw_attribute #{i}: {e:?}"))?,
        }
        observe(&b, i, full, light);
    }
    let creds = imp::to_impl_creds(&p.creds);
    for (i, s) in p.seals.iter().enumerate() {
        match s {
            SealSpec::Sha1 => b.add_message_integrity(&creds, IntegrityAlgorithm::Sha1).map_err(|e| format!("add sha1: {e:?}"))?,
            SealSpec::Sha256 => b.add_message_integrity(&creds, IntegrityAlgorithm::Sha256).map_err(|e| format!("add sha256: {e:?}"))?,
            SealSpec::Fp => b.add_fingerprint().map_err(|e| format!("add fingerprint: {e:?}"))?,
        }
        observe(&b, i, full, light);
    }
    Ok(b)
}

/// Convenience: program -> bytes through the builder (None if anything was refused or panicked).
/// The same program serialised with `write_into` into a destination pre-filled with `fill`
/// (a reused, not zeroed, transmit buffer), optionally after `into_owned()`.
pub fn build_program_dirty(p: &Program, fill: u8, owned: bool) -> Option<Vec<u8>> {
    crate::ctx::guard(|| {
        let objs = make_objs(p).ok()?;
        let b = apply_program(p, &objs).ok()?;
        let b = if owned { b.into_owned() } else { b };
        let mut d = vec![fill; b.byte_len() + 4];
        let n = b.write_into(&mut d).ok()?;
        d.truncate(n);
        Some(d)
    })
    .ok()
    .flatten()
}

pub fn build_program(p: &Program) -> Option<Vec<u8>> {
    crate::ctx::guard(|| {
        let objs = make_objs(p).ok()?;
        let b = apply_program(p, &objs).ok()?;
        Some(b.build())
    })
    .ok()
    .flatten()
}
