//! C10 — only authenticated attributes are exposed after an integrity attribute.

use super::codec::{self, check_buffer, Opts};
use super::streams::*;
use crate::ctx::{guard, Ctx, Tier};
use crate::gen::msg::*;
use crate::gen::vals::*;
use crate::refimpl::crypto::hex;
use crate::refimpl::parse::*;
use serde_json::{json, Value};
use stun_types::attribute::Attribute;
use stun_types::message::Message;

fn all_tails(max_len: usize) -> Vec<Vec<Seal>> {
    // alphabet: MI, MI256 at each truncation, FP (good); sequences up to max_len
    let alpha = [Seal::Sha1, Seal::Sha256(32), Seal::Sha256(16), Seal::Sha256(24), Seal::Fingerprint];
    let mut out: Vec<Vec<Seal>> = vec![vec![]];
    let mut frontier: Vec<Vec<Seal>> = vec![vec![]];
    for _ in 0..max_len {
        let mut next = vec![];
        for f in &frontier {
            for a in alpha {
                let mut s = f.clone();
                s.push(a);
                next.push(s);
            }
        }
        out.extend(next.iter().cloned());
        frontier = next;
    }
    out
}

fn exposed_of(buf: &[u8]) -> Option<Vec<(u16, Vec<u8>)>> {
    guard(|| {
        Message::from_bytes(buf).ok().map(|m| m.iter_attributes().map(|a| (a.get_type().value(), a.value.to_vec())).collect::<Vec<_>>())
    })
    .ok()
    .flatten()
}

pub fn run(ctx: &mut Ctx) {
    let quick = ctx.tier == Tier::Quick;
    let cfg = StreamCfg { deep: false, typed: false, npolice: 0 };
    // ---- every arrangement of sealing attributes at the tail, 0..=5 ordinary attributes in front
    let tails = all_tails(if quick { 3 } else { 4 });
    let reps = ctx.n(160, 1600).max(1);
    let mut idx = 0u64;
    for tail in &tails {
        for nord in 0..=5usize {
            idx += 1;
            if !ctx.mine(idx) {
                continue;
            }
            let mut rng = ctx.rng("tails", idx);
            for _ in 0..reps {
                let tid = gen_tid(&mut rng);
                let tlvs: Vec<Tlv> = (0..nord).map(|_| gen_ordinary_tlv(&mut rng, &tid)).collect();
                let creds = gen_creds_small(&mut rng);
                let g = GenMsg { class: if rng.chance(1, 2) { 0 } else { rng.below(4) as u8 }, method: gen_method(&mut rng), tid, tlvs, seals: tail.clone(), creds: creds.clone() };
                let buf = build_msg(&g);
                // policing too: nothing supported / the sealing types supported / a hidden type required
                let o = Opts {
                    creds: vec![creds.clone(), gen_creds_small(&mut rng)],
                    police: if g.class == 0 { vec![(vec![], vec![]), (vec![MI, MI256, FP], vec![]), (vec![MI256], vec![MI]), (vec![MI], vec![MI256])] } else { vec![] },
                    deep: false,
                    typed: false,
                };
                let out = check_buffer(ctx, &buf, &o);
                ctx.eval();
                ctx.count(if out.impl_accepted { "tail-accepted" } else { "tail-rejected" });
                if out.impl_accepted {
                    ctx.sample("tail", || json!({"bytes": hex(&buf), "tail": format!("{tail:?}"), "exposed_types": out.exposed_types}));
                }
                // metamorphic: replace everything after the first integrity attribute by another
                // accepted tail; the exposed attributes before it must not change
                if out.impl_accepted {
                    let rp = ref_parse(&buf);
                    if let Some(i) = rp.attrs.iter().position(|a| a.ty == MI || a.ty == MI256) {
                        let cut = rp.attrs[i].padded_end();
                        let base = exposed_of(&buf);
                        for alt in [vec![], vec![Seal::Fingerprint], vec![Seal::Sha256(20)], vec![Seal::Sha256(32), Seal::Fingerprint]] {
                            if rp.attrs[i].ty == MI256 && alt.iter().any(|s| matches!(s, Seal::Sha256(_))) {
                                continue;
                            }
                            let mut b2 = buf[..cut].to_vec();
                            set_len(&mut b2, cut - 20);
                            let key = creds.key();
                            for s in &alt {
                                seal(&mut b2, *s, &key);
                            }
                            if !ref_parse(&b2).accepted() {
                                continue;
                            }
                            ctx.eval();
                            ctx.count("tail-replacement");
                            let e2 = exposed_of(&b2);
                            if let (Some(a), Some(b)) = (&base, &e2) {
                                let pa: Vec<_> = a.iter().take(i + 1).collect();
                                let pb: Vec<_> = b.iter().take(i + 1).collect();
                                if pa != pb {
                                    ctx.violation(
                                        "C10",
                                        "tail-replacement-prefix-stable",
                                        "iter_attributes",
                                        "",
                                        || json!({"kind": "bytes", "entry": "tail-replacement", "buf": hex(&b2), "creds": [creds.to_json()]}),
                                        format!("prefix of {} attributes unchanged", i + 1),
                                        format!("{:?} vs {:?}", pa.iter().map(|x| x.0).collect::<Vec<_>>(), pb.iter().map(|x| x.0).collect::<Vec<_>>()),
                                    );
                                }
                            }
                            check_buffer(ctx, &b2, &o);
                        }
                    }
                }
            }
        }
    }
    // ---- replayed HMACs: a genuine sealed message whose integrity attribute is moved behind forged
    //      attributes, with an ordinary attribute carrying the same HMAC bytes left in its place; and
    //      forged attributes inserted before a genuine integrity attribute.  The parser accepts these;
    //      validation must not, or exposed attributes lie outside what the validated HMAC covers.
    {
        let nr = ctx.n(16_000, 160_000);
        let mut rng = ctx.rng("replays", 0);
        for _ in 0..nr {
            let tid = gen_tid(&mut rng);
            let nord = 1 + rng.usize(4);
            let tlvs: Vec<Tlv> = (0..nord).map(|_| gen_ordinary_tlv(&mut rng, &tid)).collect();
            let creds = gen_creds_small(&mut rng);
            let first = if rng.chance(1, 2) { Seal::Sha1 } else { Seal::Sha256(*rng.pick(&[16usize, 20, 32])) };
            let g = GenMsg { class: rng.below(4) as u8, method: gen_method(&mut rng), tid, tlvs, seals: vec![first], creds: creds.clone() };
            let buf = build_msg(&g);
            let rp = ref_parse(&buf);
            let Some(a) = rp.attrs.last().filter(|a| a.ty == MI || a.ty == MI256).cloned() else { continue };
            if !rp.accepted() {
                continue;
            }
            let h = buf[a.off + 4..a.off + 4 + a.len].to_vec();
            let o = Opts { creds: vec![creds.clone()], police: vec![], deep: false, typed: false };
            // the genuine message is validated first, on this thread, under these credentials: what
            // was learnt from it says nothing about the forged ones that follow
            check_buffer(ctx, &buf, &o);
            for variant in 0..3 {
                let mut m = buf[..a.off].to_vec();
                match variant {
                    0 => push_tlv(&mut m, &Tlv::new(0x7f5a, h.clone())), // same bytes, same offset, ordinary type
                    1 => push_tlv(&mut m, &Tlv::new(0x8055, h.clone())),
                    _ => {}
                }
                push_tlv(&mut m, &gen_ordinary_tlv(&mut rng, &tid)); // the forged attribute
                push_tlv(&mut m, &Tlv::new(a.ty, h.clone()));
                if rng.chance(1, 3) {
                    let l = m.len() - 20;
                    set_len(&mut m, l);
                    seal(&mut m, Seal::Fingerprint, &[]);
                }
                let l = m.len() - 20;
                if l > 0xffff {
                    continue;
                }
                set_len(&mut m, l);
                check_buffer(ctx, &m, &o);
                ctx.eval();
                ctx.count("hmac-replays");
            }
        }
    }
    // ---- the same tails at the far end of the 16-bit length range: sealing attributes that start at
    //      or beyond byte 65 536 of the buffer, and just below it
    {
        let creds = RefCreds::Short("edge".into());
        let sizes: Vec<usize> = (65_480..=65_552).step_by(4).chain([32_768usize, 32_772, 65_280, 65_300]).collect();
        for tail in &tails {
            if tail.is_empty() {
                continue;
            }
            for &total in &sizes {
                idx += 1;
                if !ctx.mine(idx) {
                    continue;
                }
                let mut rng = ctx.rng("edge-tails", idx);
                let buf = crate::gen::msg::gen_boundary_message(&mut rng, total, tail, &creds);
                let o = Opts { creds: vec![creds.clone()], police: vec![(vec![], vec![])], deep: false, typed: false };
                let out = check_buffer(ctx, &buf, &o);
                ctx.eval();
                if out.impl_accepted && buf.len() > 65_536 {
                    ctx.count("edge-tail-accepted-beyond-65536");
                }
            }
        }
    }
    // ---- a MESSAGE-INTEGRITY of another size than 20 bytes (the parser does not police the size),
    //      alone, followed by a MESSAGE-INTEGRITY-SHA256 and / or a FINGERPRINT, in every order ----
    {
        let syms = |n: usize| [Seal::Sha1, Seal::Sha256(32), Seal::Fingerprint, Seal::OddLen(MI, n)];
        let mut k = 0usize;
        let mut rng = ctx.rng("odd-integrity-tails", 0);
        for len in 1..=3usize {
            for code in 0..4usize.pow(len as u32) {
                let n = [0usize, 4, 16, 24, 32, 21, 19, 40][k % 8];
                k += 1;
                let tail: Vec<Seal> = (0..len).map(|j| syms(n)[(code / 4usize.pow(j as u32)) % 4]).collect();
                if !tail.iter().any(|s| matches!(s, Seal::OddLen(..))) {
                    continue;
                }
                idx += 1;
                if !ctx.mine(idx) {
                    continue;
                }
                for nord in [0usize, 1, 3] {
                    let tid = gen_tid(&mut rng);
                    let tlvs: Vec<Tlv> = (0..nord).map(|_| gen_ordinary_tlv(&mut rng, &tid)).collect();
                    let creds = gen_creds_small(&mut rng);
                    let g = GenMsg { class: rng.below(4) as u8, method: gen_method(&mut rng), tid, tlvs, seals: tail.clone(), creds: creds.clone() };
                    let buf = build_msg(&g);
                    let o = Opts { creds: vec![creds.clone()], police: if g.class == 0 { vec![(vec![], vec![]), (vec![MI, MI256, FP], vec![MI256])] } else { vec![] }, deep: false, typed: false };
                    let out = check_buffer(ctx, &buf, &o);
                    ctx.eval();
                    if out.impl_accepted {
                        ctx.count("odd-size-integrity-tail-accepted");
                    }
                }
            }
        }
        ctx.require("odd-size-integrity-tail-accepted", 20);
    }
    // ---- very many attributes in front of every tail up to length 2 (beyond any small counter an
    //      implementation may keep while walking or iterating) ----
    {
        let creds = RefCreds::Short("many".into());
        let key = creds.key();
        for tail in tails.iter().filter(|t| !t.is_empty() && t.len() <= 2) {
            for cnt in [256usize, 1022, 1023, 1024, 1025] {
                idx += 1;
                if !ctx.mine(idx) {
                    continue;
                }
                let tid = [cnt as u8; 12];
                let tlvs: Vec<Tlv> = (0..cnt).map(|k| Tlv::new(0xc000 + k as u16, vec![])).collect();
                let mut buf = encode(2, 1, &tid, &tlvs);
                for s in tail {
                    seal(&mut buf, *s, &key);
                }
                let o = Opts { creds: vec![creds.clone()], police: vec![], deep: false, typed: false };
                let out = check_buffer(ctx, &buf, &o);
                ctx.eval();
                if out.impl_accepted {
                    ctx.count("many-attributes-before-tail-accepted");
                }
            }
        }
        ctx.require("many-attributes-before-tail-accepted", 50);
    }
    // ---- every one of the 65 536 type codes as an attribute appended behind a MESSAGE-INTEGRITY, a
    //      MESSAGE-INTEGRITY-SHA256 and a FINGERPRINT (length fixed up): which types may follow does
    //      not depend on anything but the rule ----
    {
        let creds = RefCreds::Short("sweep".into());
        let key = creds.key();
        let bases: Vec<Vec<u8>> = [vec![Seal::Sha1], vec![Seal::Sha256(32)], vec![Seal::Fingerprint], vec![Seal::Sha1, Seal::Fingerprint]]
            .iter()
            .map(|tail| {
                let mut b = encode(0, 1, &[0x5e; 12], &[Tlv::new(0x8022, b"sweep".to_vec())]);
                for s in tail {
                    seal(&mut b, *s, &key);
                }
                b
            })
            .collect();
        let o = Opts { creds: vec![creds.clone()], police: vec![], deep: false, typed: false };
        for t in 0..=0xffffu32 {
            idx += 1;
            if !ctx.mine(idx) {
                continue;
            }
            // quick: every type behind one base (rotating), thorough: behind all four
            for (bi, base) in bases.iter().enumerate() {
                if quick && bi != (t as usize) % bases.len() {
                    continue;
                }
                let mut m = base.clone();
                push_tlv(&mut m, &Tlv::new(t as u16, vec![0x77; (t as usize % 3) * 4]));
                let l = m.len() - 20;
                set_len(&mut m, l);
                check_buffer(ctx, &m, &o);
                ctx.eval();
            }
            ctx.count("types-appended-behind-a-sealing-attribute");
        }
        ctx.require("types-appended-behind-a-sealing-attribute", 65_536);
    }
    // ---- grammar stream + skeletons (mutants included: accepted ones must follow the rule too)
    let n = ctx.n(600_000, 8_000_000);
    grammar_stream(ctx, &cfg, n, 4);
    let nr = ctx.n(4_000, 80_000);
    realistic_stream(ctx, &cfg, nr, 6);
    ctx.require("stream:realistic", 1_000);
    skeleton_stream(ctx, &cfg, if quick { 3 } else { 5 });
    ctx.require("tail-accepted", 1_000);
    ctx.require("tail-rejected", 1_000);
    ctx.require("tail-replacement", 500);
    ctx.require("hmac-replays", 5_000);
    ctx.require("edge-tail-accepted-beyond-65536", 20);
    ctx.require("policed-with-hidden-attributes", 500);
    ctx.require("validate-ok", 500);
}

pub fn replay(ctx: &mut Ctx, w: &Value) -> Result<(), String> {
    codec::replay(ctx, w)
}
