//! C16 — attribute policing returns exactly the RFC 8489 §6.3.1 verdict.

use super::codec::{self, check_policing, Opts};
use crate::ctx::{guard, hash64, hash_bytes, Ctx, Tier};
use crate::gen::msg::*;
use crate::refimpl::crypto::hex;
use crate::refimpl::parse::*;
use serde_json::{json, Value};
use stun_types::attribute::{Attribute, AttributeType};
use stun_types::message::Message;

fn subsets(pool: &[u16]) -> Vec<Vec<u16>> {
    (0..(1u32 << pool.len())).map(|m| pool.iter().enumerate().filter(|(i, _)| m >> i & 1 == 1).map(|(_, t)| *t).collect()).collect()
}

pub fn run(ctx: &mut Ctx) {
    let quick = ctx.tier == Tier::Quick;
    // ---- comprehension_required for all 65 536 types ----
    for t in 0..=0xffffu32 {
        if !ctx.mine(t as u64) {
            continue;
        }
        ctx.eval();
        let got = guard(|| AttributeType::new(t as u16).comprehension_required());
        if got != Ok(t < 0x8000) {
            ctx.violation(
                "C16",
                "comprehension-required",
                "AttributeType::comprehension_required",
                "",
                || json!({"kind": "attr-type", "type": t}),
                format!("{}", t < 0x8000),
                format!("{got:?}"),
            );
        }
    }
    ctx.count_n("attribute-types-exhaustive-per-build", if ctx.shard == 0 { 65536 } else { 0 });
    // ---- requests from the grammar x subsets ----
    let n = ctx.n(3_200, 32_000);
    let mut rng = ctx.rng("requests", 0);
    let mut done = 0;
    while done < n {
        let (mut buf, g) = gen_valid_message(&mut rng, 5);
        if g.class != 0 {
            // force the request class (fix up sealing: regenerate through the generator's own path)
            let mut g2 = g.clone();
            g2.class = 0;
            buf = build_msg(&g2);
            if !ref_parse(&buf).accepted() {
                continue;
            }
        }
        if buf.len() > 3_000 {
            continue;
        }
        done += 1;
        // one unsealed request in three: the padding bytes (which a receiver ignores) are not zero
        {
            let rp0 = ref_parse(&buf);
            if done % 3 == 0 && !rp0.attrs.iter().any(|a| a.ty == MI || a.ty == MI256 || a.ty == FP) {
                let mut touched = false;
                for a in &rp0.attrs {
                    for k in a.off + 4 + a.len..a.padded_end().min(buf.len()) {
                        buf[k] = *rng.pick(&[0x20u8, 0xff, 0x01, 0x80]);
                        touched = true;
                    }
                }
                if touched && ref_parse(&buf).accepted() {
                    ctx.count("requests-with-non-zero-padding");
                }
            }
        }
        let rp = ref_parse(&buf);
        let o = Opts::default();
        let msg = match guard(|| Message::from_bytes(&buf)) {
            Ok(Ok(m)) => m,
            other => {
                ctx.violation("C02", "accept-iff", "Message::from_bytes", "", || codec::wit_bytes("from_bytes", &buf, &o), "Ok".into(), format!("{:?}", other.map(|r| r.map(|_| ()))));
                continue;
            }
        };
        // what the implementation exposes (policing is defined over the exposed attributes; the
        // exposure itself is C10's concern and is checked there)
        let exposed_impl: Vec<u16> = guard(|| msg.iter_attributes().map(|a| a.get_type().value()).collect::<Vec<_>>()).unwrap_or_default();
        let exposed_ref: Vec<u16> = expose(&rp.attrs).iter().map(|i| rp.attrs[*i].ty).collect();
        if exposed_impl != exposed_ref {
            ctx.violation("C10", "exposure", "iter_attributes", "", || codec::wit_bytes("iter_attributes", &buf, &o), format!("{exposed_ref:x?}"), format!("{exposed_impl:x?}"));
        }
        let mut present: Vec<u16> = exposed_ref.clone();
        present.sort();
        present.dedup();
        ctx.distinct(hash64(&[hash_bytes(&buf[..buf.len().min(64)]), present.len() as u64]));
        ctx.count("requests");
        if done <= 2 {
            ctx.sample("request", || json!({"bytes": hex(&buf), "exposed_types": exposed_ref}));
        }
        if present.len() <= 5 {
            let mut pool = present.clone();
            pool.push(0x7f77); // absent, comprehension-required
            pool.push(0xff77); // absent, optional
            let subs = subsets(&pool);
            // all supported subsets x all required subsets (strided in quick for the larger pools)
            let stride = if quick && pool.len() > 5 { 5 } else { 1 };
            for (i, sup) in subs.iter().enumerate() {
                for (j, req) in subs.iter().enumerate() {
                    if (i * 31 + j) % stride != 0 {
                        continue;
                    }
                    check_policing(ctx, &buf, &msg, &rp, &exposed_ref, sup, req, &o);
                    ctx.eval();
                }
            }
            ctx.count("requests-with-all-subsets");
        } else {
            for _ in 0..400 {
                let sup: Vec<u16> = present.iter().copied().filter(|_| rng.chance(2, 3)).collect();
                let req: Vec<u16> = present.iter().copied().chain([0x7f77]).filter(|_| rng.chance(1, 5)).collect();
                check_policing(ctx, &buf, &msg, &rp, &exposed_ref, &sup, &req, &o);
                ctx.eval();
            }
        }
        // the required list in another order than the message (reversed, rotated), every type present
        if present.len() >= 2 {
            let mut rev = present.clone();
            rev.reverse();
            let mut rot = present.clone();
            rot.rotate_left(1);
            let msg_order_rev: Vec<u16> = exposed_ref.iter().rev().copied().collect();
            for req in [rev, rot, msg_order_rev] {
                check_policing(ctx, &buf, &msg, &rp, &exposed_ref, &present, &req, &o);
                ctx.eval();
                ctx.count("required-in-another-order");
            }
        }
        // policing is a function of its arguments: a call that panicked on this thread just before
        // (the documented panic for a non-request with an unknown attribute) leaves nothing behind
        if done % 4 == 0 {
            let ind = crate::refimpl::parse::encode(1, 1, &[3; 12], &[crate::refimpl::parse::Tlv::new(0x7f66, vec![1]), crate::refimpl::parse::Tlv::new(0x7f67, vec![])]);
            let _ = guard(|| Message::from_bytes(&ind).map(|m| Message::check_attribute_types(&m, &[], &[]).map(|b| b.build())));
            ctx.count("policing-after-a-panicking-call");
            check_policing(ctx, &buf, &msg, &rp, &exposed_ref, &present, &[], &o);
            check_policing(ctx, &buf, &msg, &rp, &exposed_ref, &[], &[0x7f77], &o);
            ctx.eval();
        }
        // every kind of absent type required on its own (sealing types, the types that usually come
        // with credentials, the extremes), everything present supported: 400 unless a 420 is due
        for t in [MI, MI256, FP, 0x0006u16, 0x0014, 0x0015, 0x001e, 0x8022, 0x0000, 0x7fff, 0x8000, 0xffff] {
            if !present.contains(&t) {
                check_policing(ctx, &buf, &msg, &rp, &exposed_ref, &present, &[t], &o);
                ctx.eval();
                ctx.count("absent-type-required-alone");
            }
        }
        // required lists with repeated entries, longer than the message has attributes
        if let Some(first) = present.first().copied() {
            let thrice: Vec<u16> = present.iter().chain(present.iter()).chain(present.iter()).copied().collect();
            for req in [vec![first; 3], vec![first; 40], thrice] {
                check_policing(ctx, &buf, &msg, &rp, &exposed_ref, &present, &req, &o);
                ctx.eval();
                ctx.count("required-with-repeats");
            }
        }
        // duplicates in the lists themselves, and MI / FP named explicitly
        for (sup, req) in [
            (vec![], vec![]),
            (present.clone(), present.clone()),
            (present.iter().chain(present.iter()).copied().collect(), vec![0x0006, 0x0006]),
            (vec![MI, MI256, FP], vec![FP]),
            (present.clone(), vec![MI256]),
        ] {
            check_policing(ctx, &buf, &msg, &rp, &exposed_ref, &sup, &req, &o);
            ctx.eval();
        }
    }
    // ---- requests with many attributes: 1..=120 distinct types (unknown comprehension-required,
    //      unknown optional and built-in ones mixed), counts around every power of two and the
    //      SmallVec inline capacity; the 420 list must name every unsupported type, in order ----
    {
        let counts: Vec<usize> = vec![1, 2, 7, 8, 9, 15, 16, 17, 18, 31, 32, 33, 63, 64, 65, 100, 120];
        let reps = ctx.n(16, 160);
        let mut gi = 0u64;
        for &cnt in &counts {
            for rep in 0..reps * ctx.nshards {
                gi += 1;
                if !ctx.mine(gi) {
                    continue;
                }
                let mut r2 = ctx.rng("many-types", gi);
                let tid = crate::gen::msg::gen_tid(&mut r2);
                let mut types: Vec<u16> = vec![];
                while types.len() < cnt {
                    let t = match r2.below(4) {
                        0 => 0x8000 | (r2.next() as u16 & 0x7fff), // optional
                        _ => r2.next() as u16 & 0x7fff,            // comprehension-required
                    };
                    if t != MI && t != MI256 && t != FP && !types.contains(&t) {
                        types.push(t);
                    }
                }
                let tlvs: Vec<crate::refimpl::parse::Tlv> = types.iter().map(|t| { let l = r2.usize(6); crate::refimpl::parse::Tlv::new(*t, r2.bytes(l)) }).collect();
                let mut buf = crate::refimpl::parse::encode(0, 1 + (rep % 7) as u16, &tid, &tlvs);
                if rep % 3 == 0 {
                    crate::refimpl::parse::seal(&mut buf, crate::refimpl::parse::Seal::Fingerprint, &[]);
                }
                let rp = ref_parse(&buf);
                let o = Opts::default();
                let msg = match guard(|| Message::from_bytes(&buf)) {
                    Ok(Ok(m)) => m,
                    other => {
                        ctx.violation("C02", "accept-iff", "Message::from_bytes", "many-types", || codec::wit_bytes("from_bytes", &buf, &o), "Ok".into(), format!("{:?}", other.map(|r| r.map(|_| ()))));
                        continue;
                    }
                };
                let exposed_ref: Vec<u16> = expose(&rp.attrs).iter().map(|i| rp.attrs[*i].ty).collect();
                ctx.distinct(hash64(&[77, cnt as u64, hash_bytes(&buf[..buf.len().min(64)])]));
                ctx.count("requests-with-many-types");
                if rep == 0 && cnt == 17 {
                    ctx.sample("many-types-request", || json!({"bytes": hex(&buf), "exposed_types": exposed_ref}));
                }
                // nothing supported; everything supported; every second one; all but one
                let all: Vec<u16> = exposed_ref.clone();
                let half: Vec<u16> = all.iter().copied().step_by(2).collect();
                let but_last_req: Vec<u16> = {
                    let lr = all.iter().rposition(|t| *t < 0x8000);
                    all.iter().enumerate().filter(|(i, _)| Some(*i) != lr).map(|(_, t)| *t).collect()
                };
                for (sup, req) in [(vec![], vec![]), (all.clone(), all.clone()), (half.clone(), vec![]), (but_last_req, vec![0x7f77]), (all.clone(), vec![0x7f77])] {
                    check_policing(ctx, &buf, &msg, &rp, &exposed_ref, &sup, &req, &o);
                    ctx.eval();
                }
            }
        }
    }
    ctx.require("requests-with-many-types", 200);
    ctx.require("required-in-another-order", 1_000);
    ctx.require("policing-after-a-panicking-call", 100);
    ctx.require("police-420", 5_000);
    ctx.require("police-400", 5_000);
    ctx.require("police-none", 1_000);
    ctx.require("requests-with-all-subsets", 50);
}

pub fn replay(ctx: &mut Ctx, w: &Value) -> Result<(), String> {
    match w.get("kind").and_then(|k| k.as_str()) {
        Some("attr-type") => {
            let t = w["type"].as_u64().ok_or("type")? as u16;
            ctx.eval();
            let got = AttributeType::new(t).comprehension_required();
            if got != (t < 0x8000) {
                ctx.violation("C16", "comprehension-required", "AttributeType::comprehension_required", "", || w.clone(), format!("{}", t < 0x8000), format!("{got}"));
            }
            Ok(())
        }
        _ => codec::replay(ctx, w),
    }
}
