//! Small workloads for the Miri layer (thorough tier of C01, C03, C11, C20): the same monitors,
//! a few hundred operations per shard, so that dependency `unsafe` code reached from this crate
//! (SmallVec spill, digest block buffers, byteorder, Vec/Box moves) and the one process-global
//! atomic run under the UB / data-race interpreter.

use super::streams::*;
use crate::ctx::Ctx;
use serde_json::json;

pub fn run(prop: &str, ctx: &mut Ctx) -> Result<(), String> {
    match prop {
        "C01" => {
            let cfg = StreamCfg { deep: true, typed: true, npolice: 1 };
            grammar_stream(ctx, &cfg, 6, 3);
            short_stream_small(ctx);
            ctx.count("miri-shards");
        }
        "C03" => {
            let mut rng = ctx.rng("miri-programs", 0);
            for i in 0..4 {
                // 17..=24 attribute types: SmallVec spill, Data borrowed -> owned
                let p = super::builder::gen_program(&mut rng, 6, i % 2 == 0);
                super::c03::check_program(ctx, &p);
                super::c12::check_builder_paths(ctx, &p, false);
                if i == 0 {
                    ctx.sample("miri-program", || p.to_json());
                }
            }
            ctx.count("miri-shards");
        }
        "C11" => {
            let mut rng = ctx.rng("miri-ops", 0);
            let creds = crate::refimpl::parse::RefCreds::Short("miri".into());
            for _ in 0..5 {
                let len = 18 + rng.usize(14);
                let ops: Vec<super::c11::Op> = (0..len)
                    .map(|j| match rng.below(12) {
                        0..=5 => super::c11::Op::Typed(rng.below(16) as u8),
                        6..=8 => super::c11::Op::Raw(rng.below(23) as u8),
                        9 => super::c11::Op::Dup,
                        10 => super::c11::Op::IntoOwned,
                        _ => {
                            if j > len - 4 {
                                *rng.pick(&[super::c11::Op::Sha1, super::c11::Op::Sha256, super::c11::Op::Fp])
                            } else {
                                super::c11::Op::Clone
                            }
                        }
                    })
                    .collect();
                super::c11::check_ops(ctx, &ops, &creds);
            }
            ctx.count("miri-shards");
        }
        "C14" => {
            // every composition of two short streams into chunks (1-byte drips, cuts inside the length
            // prefix, pulls after every push): Vec growth / split / exact-capacity remainders under Miri
            let mut rng = ctx.rng("miri-tcp", 0);
            let streams: [&[usize]; 3] = [&[1, 0, 2], &[0, 3], &[2, 1]];
            for frames in streams.iter() {
                let total: usize = frames.iter().map(|n| n + 2).sum();
                let ncomp = 1u64 << (total - 1);
                // each shard interprets a few compositions, chosen by the shard's own stream
                for _ in 0..3 {
                    let comp = rng.below(ncomp);
                    let mut chunks = vec![];
                    let mut run = 1;
                    for j in 0..total - 1 {
                        if comp >> j & 1 == 1 {
                            chunks.push(run);
                            run = 1;
                        } else {
                            run += 1;
                        }
                    }
                    chunks.push(run);
                    for pulls in [vec![], vec![true, false]] {
                        let c = super::c14::Case { frames: frames.to_vec(), chunks: chunks.clone(), pulls, salt: comp as u8, style: (comp % 4) as u8 };
                        super::c14::check_case(ctx, &c);
                    }
                }
            }
            // the all-ones composition (1-byte drip) always
            let c = super::c14::Case { frames: vec![1, 0, 2], chunks: vec![1; 9], pulls: vec![], salt: 7, style: 0 };
            super::c14::check_case(ctx, &c);
            ctx.sample("miri-tcp", || json!({"frames": [1, 0, 2], "chunks": "1-byte drip + sampled compositions"}));
            ctx.count("miri-shards");
        }
        "C20" => {
            let mut rng = ctx.rng("miri-histories", 0);
            for i in 0..2 {
                let h = super::agent::gen_history(&mut rng, 14, 3, if i == 0 { "general" } else { "auth" });
                // threaded variant: one spawned thread, then four concurrent ones
                super::agent_props::check_c20_history(ctx, &h, 1_000_000_000, true);
                if i == 0 {
                    ctx.sample("miri-history", || json!({"history": h.to_json(), "threads": 5}));
                }
            }
            ctx.count("miri-shards");
        }
        _ => return Err(format!("no Miri workload for {prop}")),
    }
    ctx.require("miri-shards", 1);
    Ok(())
}

fn short_stream_small(ctx: &mut Ctx) {
    use super::codec::{check_buffer, Opts};
    use crate::refimpl::parse::RefCreds;
    let o = Opts { creds: vec![RefCreds::Short("p".into())], police: vec![(vec![], vec![])], deep: true, typed: true };
    let mut rng = ctx.rng("miri-short", 0);
    for len in [0usize, 1, 2, 19, 20, 21, 23, 24, 27, 28] {
        let mut b = rng.bytes(len);
        if len >= 8 {
            b[0] &= 0x3f;
            b[4..8].copy_from_slice(&crate::refimpl::parse::COOKIE);
        }
        if len >= 20 {
            crate::refimpl::parse::set_len(&mut b, len - 20);
        }
        check_buffer(ctx, &b, &o);
        ctx.eval();
    }
}
