//! C01 — decoding and inspection never panic or hang, whatever the bytes.

use super::codec::{self, check_buffer, check_small_decoders, Opts};
use super::streams::*;
use crate::ctx::{Ctx, Tier};
use crate::gen::vals::*;
use crate::refimpl::attrs::ALL_KINDS;
use crate::refimpl::parse::*;
use serde_json::Value;

pub fn run(ctx: &mut Ctx) {
    let cfg = StreamCfg { deep: true, typed: true, npolice: 2 };
    let quick = ctx.tier == Tier::Quick;

    // ---- directed cases (always present, so that listed findings are re-observed every run) ----
    if ctx.shard == 0 {
        directed(ctx);
    }

    // ---- all 65 536 first-two-byte values into the small decoders at lengths 0..=4 ----
    let o = Opts::default();
    let mut idx = 0u64;
    for len in 0..=4usize {
        for v in 0..=0xffffu32 {
            idx += 1;
            if !ctx.mine(idx) {
                continue;
            }
            if len < 2 && v > 0xff {
                continue;
            }
            let mut b = vec![(v >> 8) as u8, v as u8, 0xA5, 0x5A];
            if len == 1 {
                b[0] = v as u8;
            }
            b.truncate(len);
            let rp = ref_parse(&b);
            check_small_decoders(ctx, &b, &rp, &o);
            ctx.eval();
        }
    }
    ctx.count_n("small-decoder-sweep", 1);

    // ---- short slices: every length 0..=48 x header patterns ----
    short_stream(ctx, &cfg, if quick { 6 } else { 200 });

    // ---- typed decoders over value lengths 0..=800 x content classes x all 19 + 2 type tags ----
    let tid = [3u8; 12];
    for k in ALL_KINDS {
        let step = if quick { 3 } else { 1 };
        let mut len = 0usize;
        while len <= 800 {
            for class in 0..CONTENT_CLASSES {
                idx += 1;
                if !ctx.mine(idx) {
                    continue;
                }
                let mut rng = ctx.rng("typed", idx);
                let v = content_class(&mut rng, class, len);
                super::c08::check_decode(ctx, k, k.code(), &v, &tid);
                // and through the Display of a raw attribute of that type (formats malformed ones)
                let raw = stun_types::attribute::RawAttribute::new(stun_types::attribute::AttributeType::new(k.code()), &v);
                let r = crate::ctx::guard(|| format!("{raw} {raw:?}").len());
                if let Err(p) = r {
                    ctx.violation(
                        "C01",
                        "no-panic",
                        "Display for RawAttribute",
                        k.name(),
                        || serde_json::json!({"kind": "typed-decode", "attr": k.name(), "raw_type": k.code(), "value": crate::refimpl::crypto::hex(&v), "tid": crate::refimpl::crypto::hex(&tid)}),
                        "formatted text".into(),
                        format!("panic: {} at {}", p.msg, p.loc),
                    );
                }
            }
            len += if len < 48 { 1 } else { step };
        }
        for other in [0x0000u16, 0xffff] {
            super::c08::check_decode(ctx, k, other, &[0u8; 8], &tid);
        }
        // in-memory raw attributes of 64 KiB and more (the 16-bit length field wraps): decode and Display
        for (j, len) in [65_536usize, 65_540, 65_544, 65_552, 65_556, 65_568, 131_076].into_iter().enumerate() {
            idx += 1;
            if !ctx.mine(idx) {
                continue;
            }
            let mut rng = ctx.rng("typed-oversized", idx);
            let v = content_class(&mut rng, [0u32, 2, 4][j % 3], len);
            let raw = stun_types::attribute::RawAttribute::new(stun_types::attribute::AttributeType::new(k.code()), &v);
            if k == crate::refimpl::attrs::Kind::UnknownAttributes {
                // its decoded list can only be read back through a re-encode, which a value beyond
                // the 16-bit length field does not have: decode, format and probe membership only
                use stun_types::attribute::{AttributeFromRaw, UnknownAttributes};
                let r = crate::ctx::guard(|| {
                    UnknownAttributes::from_raw(&raw).map(|a| (format!("{a}").len(), a.has_attribute(stun_types::attribute::AttributeType::new(0x7f7f)))).is_ok()
                });
                if let Err(p) = r {
                    ctx.violation("C01", "no-panic", "AttributeFromRaw::from_raw", &format!("{},oversized", k.name()), || serde_json::json!({"kind": "typed-decode", "attr": k.name(), "raw_type": k.code(), "value": format!("{} bytes", len), "tid": crate::refimpl::crypto::hex(&tid)}), "value or error".into(), format!("panic: {} at {}", p.msg, p.loc));
                }
            } else if k != crate::refimpl::attrs::Kind::AlternateDomain {
                super::c08::check_decode(ctx, k, k.code(), &v, &tid);
            }
            if let Err(p) = crate::ctx::guard(|| format!("{raw}").len()) {
                ctx.violation("C01", "no-panic", "Display for RawAttribute", &format!("{},oversized", k.name()), || serde_json::json!({"kind": "typed-decode", "attr": k.name(), "raw_type": k.code(), "value": format!("{} bytes", len), "tid": crate::refimpl::crypto::hex(&tid)}), "formatted text".into(), format!("panic: {} at {}", p.msg, p.loc));
            }
            ctx.count("oversized-values-decoded");
        }
    }

    // ---- streams ----
    let n = ctx.n(300_000, 6_000_000);
    grammar_stream(ctx, &cfg, n, 5);
    let nr = ctx.n(4_000, 80_000);
    realistic_stream(ctx, &cfg, nr, 6);
    ctx.require("stream:realistic", 1_000);
    skeleton_stream(ctx, &cfg, if quick { 3 } else { 5 });
    let nb = ctx.n(1_600, 24_000);
    boundary_stream(ctx, &cfg, nb);

    ctx.require("accepted", 5_000);
    ctx.require("reject:NotStun", 100);
    ctx.require("reject:Truncated", 1_000);
    ctx.require("reject:AttributeAfterIntegrity", 50);
    ctx.require("reject:AttributeAfterFingerprint", 50);
    ctx.require("reject:FingerprintMismatch", 50);
    ctx.require("stream:boundary", 100);
    ctx.require("validate-ok", 100);
    ctx.require("validate-err", 100);
    ctx.require("tracing-formatted-bytes", 100_000);
    ctx.require("formatted-bytes", 100_000);
    ctx.require("typed-extract-valid", 500);
    ctx.require("typed-extract-invalid", 100);
}

fn directed(ctx: &mut Ctx) {
    let creds = RefCreds::Short("pw".into());
    // policing of non-request messages (all three non-request classes) carrying an unknown
    // comprehension-required attribute, and missing a required one
    for class in 0..4u8 {
        let b = encode(class, 1, &[9; 12], &[Tlv::new(0x7f01, vec![1, 2, 3]), Tlv::new(0x8022, b"x".to_vec())]);
        let o = Opts {
            creds: vec![creds.clone()],
            police: vec![(vec![], vec![]), (vec![0x7f01], vec![0x0006]), (vec![0x7f01], vec![])],
            deep: true,
            typed: true,
        };
        check_buffer(ctx, &b, &o);
        ctx.eval();
    }
    // requests and non-requests with very many distinct unknown types (the 420 response has to list
    // them all): policing with nothing / half / everything supported
    {
        let mut r2 = ctx.rng("many-types", 0);
        for cnt in [16usize, 17, 64, 93, 94, 95, 128, 200, 381, 382, 1000] {
            let mut types: Vec<u16> = vec![];
            while types.len() < cnt {
                let t = r2.next() as u16 & 0x7fff;
                if t != 0x0008 && t != 0x001c && !types.contains(&t) {
                    types.push(t);
                }
            }
            let tlvs: Vec<Tlv> = types.iter().map(|t| Tlv::new(*t, vec![0u8; (*t % 3) as usize])).collect();
            let b = encode(0, 1, &[7; 12], &tlvs);
            let half: Vec<u16> = types.iter().copied().step_by(2).collect();
            // long `required` lists as well: everything present (in message order and reversed), and
            // everything present plus absent ones at both ends
            let rev: Vec<u16> = types.iter().rev().copied().collect();
            let padded: Vec<u16> = [0x7e01u16].iter().chain(types.iter()).chain([0x7e02u16].iter()).copied().collect();
            let o = Opts {
                creds: vec![creds.clone()],
                police: vec![(vec![], vec![]), (half, vec![0x0006]), (types.clone(), vec![]), (types.clone(), types.clone()), (types.clone(), rev), (types.clone(), padded)],
                deep: false,
                typed: false,
            };
            check_buffer(ctx, &b, &o);
            ctx.eval();
            ctx.count("many-types-policed");
        }
    }
    // very many required types that are ABSENT from a small request (whatever the 400 response says
    // about them has to fit): distinct unknown types, every built-in type twice, one type repeated
    {
        let small = encode(0, 1, &[6; 12], &[Tlv::new(0x8022, b"agent".to_vec()), Tlv::new(0x0024, vec![0, 0, 1, 0])]);
        let builtin: Vec<u16> = crate::refimpl::attrs::ordinary_kinds().iter().map(|k| k.code()).chain([0x0008u16, 0x001c, 0x8028]).collect();
        let mut lists: Vec<Vec<u16>> = vec![];
        for cnt in [16usize, 24, 25, 32, 45, 64, 65, 100, 200, 1000, 5000] {
            lists.push((0..cnt).map(|i| 0x4100 + i as u16).collect());
            lists.push((0..cnt).map(|i| 0xc100 + i as u16 * 3).collect());
        }
        lists.push(builtin.iter().chain(builtin.iter()).copied().collect());
        lists.push(builtin.iter().chain(builtin.iter()).chain(builtin.iter()).chain(builtin.iter()).copied().collect());
        for t in [0x0008u16, 0x001c, 0x8028, 0x0006, 0x0000, 0xffff] {
            lists.push(vec![t; 200]);
            lists.push(vec![t; 3000]);
        }
        for req in lists {
            let o = Opts { creds: vec![creds.clone()], police: vec![(vec![0x8022, 0x0024], req.clone()), (vec![], req)], deep: false, typed: false };
            check_buffer(ctx, &small, &o);
            ctx.eval();
            ctx.count("many-absent-required-policed");
        }
    }
    // integrity attribute ending beyond 65 535 (16-bit arithmetic in validate_integrity)
    let mut rng = ctx.rng("directed", 0);
    for (total, tail) in [
        (65_552usize, vec![Seal::Sha1]),
        (65_552, vec![Seal::Sha256(32)]),
        (65_548, vec![Seal::Sha1, Seal::Fingerprint]),
        (65_552, vec![Seal::Sha1, Seal::Sha256(32)]),
        (65_540, vec![Seal::Sha256(16)]),
    ] {
        let b = crate::gen::msg::gen_boundary_message(&mut rng, total, &tail, &creds);
        let o = Opts { creds: vec![creds.clone(), RefCreds::Short("other".into())], police: vec![(vec![], vec![])], deep: true, typed: true };
        check_buffer(ctx, &b, &o);
        ctx.eval();
    }
    // short slices into MessageType::from_bytes
    for b in [&[][..], &[0u8][..], &[0xffu8][..]] {
        let rp = ref_parse(b);
        check_small_decoders(ctx, b, &rp, &Opts::default());
        ctx.eval();
    }
}

pub fn replay(ctx: &mut Ctx, w: &Value) -> Result<(), String> {
    match w.get("kind").and_then(|k| k.as_str()) {
        Some("bytes") => codec::replay(ctx, w),
        Some("typed-decode") | Some("typed-encode") => super::c08::replay(ctx, w),
        k => Err(format!("unknown witness kind {k:?}")),
    }
}
