//! C12 — all serialisation paths produce identical bytes.

use super::builder::*;
use crate::ctx::{guard, hash64, hash_bytes, Ctx, Tier};
use crate::gen::vals::*;
use crate::imp;
use crate::refimpl::attrs::*;
use crate::refimpl::crypto::hex;
use serde_json::{json, Value};
use stun_types::attribute::{Attribute, AttributeExt, AttributeType, AttributeWrite, AttributeWriteExt, RawAttribute};
use stun_types::message::{Message, MessageClass, MessageType, StunWriteError};

const FILL: u8 = 0xA5;

/// one attribute object: in-place writer vs to_raw().to_bytes(), every destination size
fn check_writer(ctx: &mut Ctx, label: &str, obj: &dyn AttributeWrite, value_len: usize, w: &dyn Fn() -> Value, all_short: bool) {
    ctx.eval();
    let padded_want = 4 + value_len.div_ceil(4) * 4;
    let huge_dest = ctx.evals % 61 == 0;
    if huge_dest {
        ctx.count("huge-destinations");
    }
    let r = guard(|| {
        let raw = obj.to_raw();
        let via_raw = raw.to_bytes();
        let padded = obj.padded_len();
        let mut results = vec![];
        // exact, +1, +16 destinations filled with a sentinel
        for extra in [0usize, 1, 16] {
            let mut dest = vec![FILL; padded_want + extra];
            let ret = obj.write_into(&mut dest).map_err(|e| format!("{e:?}"));
            results.push((extra, ret, dest));
        }
        // destinations of 64 KiB and more (their length does not fit 16 bits), for a sample of the values
        if huge_dest {
            for total in [65_536usize, 65_536 + padded_want - 1, 65_540, 131_072] {
                let mut dest = vec![FILL; total];
                let ret = obj.write_into(&mut dest).map_err(|e| format!("{e:?}"));
                let tail_ok = dest[padded_want.min(total)..].iter().all(|b| *b == FILL);
                dest.truncate(padded_want + 1);
                if !tail_ok {
                    dest.clear();
                }
                results.push((total - padded_want, ret, dest));
            }
        }
        // the unchecked writer called directly (a public trait method) on a larger destination:
        // exactly the padded length is written there too
        {
            let mut dest = vec![FILL; padded_want + 16];
            obj.write_into_unchecked(&mut dest);
            results.push((16, Ok(padded_want), dest));
            let mut dest = vec![FILL; padded_want + 5];
            raw.write_into_unchecked(&mut dest);
            results.push((5, Ok(padded_want), dest));
        }
        // the raw attribute's own in-place writer too
        let mut dest = vec![FILL; padded_want + 3];
        let ret = raw.write_into(&mut dest).map_err(|e| format!("{e:?}"));
        results.push((3, ret, dest));
        // further paths to the same bytes: the header-only writers, the owned raw attribute, a second
        // to_raw() (no hidden state), the raw attribute re-parsed from its own bytes
        let mut alt: Vec<(&'static str, Vec<u8>)> = vec![];
        let mut h = vec![FILL; 6];
        let hr = obj.write_header(&mut h);
        alt.push(("write_header", if hr.is_ok() && h[4..] == [FILL, FILL] { h[..4].to_vec() } else { vec![] }));
        let mut h2 = vec![FILL; 5];
        let n2 = obj.write_header_unchecked(&mut h2);
        alt.push(("write_header_unchecked", if n2 == 4 && h2[4] == FILL { h2[..4].to_vec() } else { vec![] }));
        let mut h3 = vec![FILL; 3];
        let short_hdr_ok = matches!(obj.write_header(&mut h3), Err(StunWriteError::TooSmall { expected: 4, actual: 3 })) && h3 == [FILL; 3];
        alt.push(("to_raw().into_owned().to_bytes()", obj.to_raw().into_owned().to_bytes()));
        alt.push(("second to_raw().to_bytes()", obj.to_raw().to_bytes()));
        // clone / clone_from onto an owned raw attribute of the same value length but another type
        {
            let src = obj.to_raw().into_owned();
            let mut dst = RawAttribute::new(AttributeType::new(src.get_type().value() ^ 0x0101), &vec![0x99u8; src.value.len()]).into_owned();
            dst.clone_from(&src);
            alt.push(("clone_from(to_raw()).to_bytes()", dst.to_bytes()));
            alt.push(("to_raw().clone().to_bytes()", src.clone().to_bytes()));
        }
        // (only while the padded TLV is at most 65 535 + 4 bytes: beyond that RawAttribute::from_bytes
        // compares the 16-bit length with `(len - 4) as u16` and refuses the attribute - no message can
        // carry such an attribute and no property speaks about it, see DESIGN.md 11.3)
        if via_raw.len() <= 65_535 + 4 {
            alt.push(("RawAttribute::from_bytes(bytes).to_bytes()", RawAttribute::from_bytes(&via_raw).map(|a| a.to_bytes()).unwrap_or_default()));
        }
        (via_raw, padded, obj.length(), raw.length(), results, alt, short_hdr_ok)
    });
    let (via_raw, padded, len, rawlen, results, alt, short_hdr_ok) = match r {
        Err(p) => {
            ctx.violation("C12", "no-panic", "AttributeWriteExt::write_into", label, w, "bytes".into(), format!("panic: {} at {}", p.msg, p.loc));
            return;
        }
        Ok(x) => x,
    };
    ctx.distinct(hash64(&[hash_bytes(label.as_bytes()), value_len as u64, hash_bytes(&via_raw[..via_raw.len().min(12)])]));
    let declared = if via_raw.len() >= 4 { ((via_raw[2] as usize) << 8) | via_raw[3] as usize } else { usize::MAX };
    if via_raw.len() != padded_want || padded != padded_want || len as usize != value_len || rawlen as usize != value_len || declared != value_len
        || via_raw[4 + value_len..].iter().any(|b| *b != 0)
    {
        ctx.violation(
            "C12",
            "raw-serialisation-shape",
            "RawAttribute::to_bytes",
            label,
            w,
            format!("{padded_want} bytes, declared length {value_len}, zero padding"),
            format!("{} bytes, padded_len {padded}, length {len}/{rawlen}, declared {declared}: {}", via_raw.len(), hex(&via_raw[..via_raw.len().min(48)])),
        );
        return;
    }
    for (extra, ret, dest) in &results {
        let ok = *ret == Ok(padded_want) && dest.len() >= padded_want && dest[..padded_want] == via_raw[..] && dest[padded_want..].iter().all(|b| *b == FILL);
        if !ok {
            let first = dest.iter().zip(via_raw.iter()).position(|(a, b)| a != b);
            ctx.violation(
                "C12",
                "in-place-equals-raw",
                "AttributeWriteExt::write_into",
                label,
                w,
                format!("Ok({padded_want}), bytes equal to to_raw().to_bytes(), nothing beyond touched (destination +{extra})"),
                format!("{ret:?}, first difference at {first:?}, tail untouched = {}", dest.len() >= padded_want && dest[padded_want..].iter().all(|b| *b == FILL)),
            );
            return;
        }
    }
    for (how, bytes) in &alt {
        let want: &[u8] = if how.starts_with("write_header") { &via_raw[..4] } else { &via_raw[..] };
        if bytes.as_slice() != want {
            ctx.violation(
                "C12",
                "alternative-path-equals-raw",
                "AttributeWrite",
                &format!("{label},{how}"),
                w,
                format!("{how} = {}", hex(&want[..want.len().min(48)])),
                hex(&bytes[..bytes.len().min(48)]),
            );
            return;
        }
    }
    if !short_hdr_ok {
        ctx.violation("C12", "short-destination-refused", "AttributeWriteExt::write_header", label, w, "Err(TooSmall{expected: 4, actual: 3}) and nothing written".into(), "something else".into());
        return;
    }
    ctx.count("writers-compared");
    // every destination shorter than the padded length
    let shorts: Vec<usize> = if all_short || padded_want <= 64 { (0..padded_want).collect() } else { vec![0, 1, 3, 4, 5, value_len + 3, padded_want - 4, padded_want - 1] };
    for d in shorts {
        if d >= padded_want {
            continue;
        }
        ctx.eval();
        let r = guard(|| {
            let mut dest = vec![FILL; d];
            let ret = obj.write_into(&mut dest);
            (ret, dest)
        });
        match r {
            Err(p) => {
                ctx.violation("C12", "no-panic", "AttributeWriteExt::write_into", label, w, "Err(TooSmall)".into(), format!("panic with a {d}-byte destination: {} at {}", p.msg, p.loc));
                return;
            }
            Ok((ret, dest)) => {
                let ok = matches!(ret, Err(StunWriteError::TooSmall { expected, actual }) if expected == padded_want && actual == d) && dest.iter().all(|b| *b == FILL);
                if !ok {
                    ctx.violation(
                        "C12",
                        "short-destination-refused",
                        "AttributeWriteExt::write_into",
                        label,
                        w,
                        format!("Err(TooSmall{{expected: {padded_want}, actual: {d}}}) and nothing written"),
                        format!("{ret:?}, untouched = {}", dest.iter().all(|b| *b == FILL)),
                    );
                    return;
                }
                ctx.count("short-destinations");
            }
        }
    }
}

pub fn check_value(ctx: &mut Ctx, kind: Kind, val: &RefVal, tid: &[u8; 12], all_short: bool) {
    let w = || json!({"kind": "typed-encode", "attr": kind.name(), "value": val.to_json(), "tid": hex(tid)});
    let Some(wire) = ref_encode(kind, val, tid) else { return };
    match guard(|| imp::impl_construct(kind, val, tid)) {
        Ok(Ok(obj)) => {
            check_writer(ctx, kind.name(), obj.as_ref(), wire.len(), &w, all_short);
            ctx.count(&format!("writer:{}", kind.name()));
        }
        Ok(Err(_)) => {}
        Err(p) => ctx.violation("C12", "no-panic", "constructor", kind.name(), w, "value".into(), format!("panic: {}", p.msg)),
    }
}

/// An attribute object obtained by DECODING wire bytes (not by constructing it from a value), then
/// serialised through every path: also for accepted encodings that are not the canonical one (a
/// non-zero reserved byte in an address, reserved bits in an ERROR-CODE, ...).  The paths agree with
/// each other, whatever they make of the non-canonical parts.
pub fn check_decoded(ctx: &mut Ctx, kind: Kind, wire: &[u8], tid: &[u8; 12]) {
    let w = || json!({"kind": "decoded-write", "attr": kind.name(), "wire": hex(wire), "tid": hex(tid)});
    let raw = RawAttribute::new(AttributeType::new(kind.code()), wire);
    match guard(|| imp::impl_decode(kind, &raw, tid)) {
        Ok(Ok(d)) => {
            let len = d.obj.length() as usize;
            check_writer(ctx, kind.name(), d.obj.as_ref(), len, &w, false);
            ctx.count("decoded-then-written");
        }
        Ok(Err(_)) => {}
        Err(p) => ctx.violation("C12", "no-panic", "AttributeFromRaw::from_raw", kind.name(), w, "value or error".into(), format!("panic: {}", p.msg)),
    }
}

pub fn check_raw(ctx: &mut Ctx, ty: u16, value: &[u8], all_short: bool) {
    let w = || json!({"kind": "raw-write", "raw_type": ty, "value": hex(value)});
    let raw = RawAttribute::new(AttributeType::new(ty), value);
    check_writer(ctx, "RawAttribute", &raw, value.len(), &w, all_short);
    // the consuming conversions into bytes, of the borrowed and of the owned attribute
    {
        let v1: Vec<u8> = raw.clone().into();
        let v2: Vec<u8> = Vec::from(raw.clone().into_owned());
        let v3: Vec<u8> = RawAttribute::new_owned(AttributeType::new(ty), value.to_vec().into_boxed_slice()).into();
        for (how, v) in [("Vec::from(borrowed)", v1), ("Vec::from(owned)", v2), ("Vec::from(new_owned)", v3)] {
            if v != raw.to_bytes() {
                ctx.violation("C12", "alternative-path-equals-raw", "From<RawAttribute> for Vec<u8>", how, w, hex(&raw.to_bytes()[..raw.to_bytes().len().min(48)]), hex(&v[..v.len().min(48)]));
            }
        }
    }
    // the other ways a raw attribute comes into being: from a boxed value, from the data wrappers
    {
        let boxed = RawAttribute::new_owned(AttributeType::new(ty), value.to_vec().into_boxed_slice());
        let mut via_data = RawAttribute::new(AttributeType::new(ty), value);
        via_data.value = stun_types::data::Data::from(value.to_vec().into_boxed_slice());
        let mut via_slice = RawAttribute::new(AttributeType::new(ty), value);
        via_slice.value = stun_types::data::Data::Owned(stun_types::data::DataSlice::from(value).to_owned()).into_owned();
        for (how, other) in [("new_owned", &boxed), ("Data::from(Box)", &via_data), ("DataSlice::to_owned", &via_slice)] {
            let mut dest = vec![FILL; raw.padded_len() + 2];
            let n = other.write_into(&mut dest).unwrap_or(0);
            if other.to_bytes() != raw.to_bytes() || other.length() != raw.length() || dest[..n.min(dest.len())] != raw.to_bytes()[..] || dest[n.min(dest.len())..].iter().any(|b| *b != FILL) {
                ctx.violation("C12", "owned-equals-borrowed", "RawAttribute", how, w, hex(&raw.to_bytes()[..raw.to_bytes().len().min(48)]), hex(&other.to_bytes()[..other.to_bytes().len().min(48)]));
            }
        }
    }
    // owned copy behaves identically
    let owned = raw.clone().into_owned();
    // (RawAttribute's PartialEq distinguishes borrowed from owned storage; only the bytes matter)
    if owned.to_bytes() != raw.to_bytes() || owned.get_type() != raw.get_type() || owned.length() != raw.length() {
        ctx.violation("C12", "owned-equals-borrowed", "RawAttribute::into_owned", "", w, "equal".into(), "differs".into());
    }
    ctx.count("writer:raw");
}

/// A raw attribute whose public `value` field was replaced after construction, so that the header
/// it carries (no setter) describes another length than the value it holds.  Whatever such an
/// attribute serialises to, every path serialises it to the same bytes: `to_bytes`, the in-place
/// writer, `to_raw`, `From<&RawAttribute>`, clones and owned copies, and a builder that holds it by
/// reference or by value (`build`, `write_into`, `into_owned`, `clone`, `byte_len`).
pub fn check_edited_raw(ctx: &mut Ctx, ty: u16, old_len: usize, new: &[u8]) {
    ctx.eval();
    let w = || json!({"kind": "edited-raw", "raw_type": ty, "old_len": old_len, "value": hex(new)});
    let old = vec![0x11u8; old_len];
    let r = guard(|| {
        let mut raw = RawAttribute::new(AttributeType::new(ty), &old);
        raw.value = stun_types::data::Data::from(new);
        let direct = raw.to_bytes();
        let padded = raw.padded_len();
        let mut paths: Vec<(&'static str, Vec<u8>)> = vec![];
        for extra in [0usize, 5] {
            let mut dest = vec![FILL; padded + extra];
            let ret = raw.write_into(&mut dest);
            let ok = ret.as_ref().ok() == Some(&padded) && dest[padded..].iter().all(|b| *b == FILL);
            dest.truncate(padded);
            paths.push((if extra == 0 { "write_into(exact)" } else { "write_into(+5)" }, if ok { dest } else { format!("{ret:?}").into_bytes() }));
        }
        paths.push(("to_raw().to_bytes()", raw.to_raw().to_bytes()));
        {
            let tr = raw.to_raw();
            let mut dest = vec![FILL; tr.padded_len()];
            let _ = tr.write_into(&mut dest);
            paths.push(("to_raw().write_into", dest));
        }
        paths.push(("RawAttribute::from(&raw).to_bytes()", RawAttribute::from(&raw).to_bytes()));
        paths.push(("clone().to_bytes()", raw.clone().to_bytes()));
        paths.push(("clone().into_owned().to_bytes()", raw.clone().into_owned().to_bytes()));
        paths.push(("into_owned().to_raw().to_bytes()", raw.clone().into_owned().to_raw().to_bytes()));
        // builders: by reference and by value
        let t = imp::tid_from_bytes(&[0x42; 12]);
        let mt = MessageType::from_class_method(MessageClass::Request, 1);
        let sw = RawAttribute::new(AttributeType::new(0x8022), b"edit");
        let mut by_ref = Message::builder(mt, t);
        let _ = by_ref.add_raw_attribute(sw.clone());
        let added_ref = by_ref.add_attribute(&raw).is_ok();
        let mut by_val = Message::builder(mt, t);
        let _ = by_val.add_raw_attribute(sw.clone());
        let added_val = by_val.add_raw_attribute(raw.clone()).is_ok();
        let mut bpaths: Vec<(&'static str, Vec<u8>)> = vec![];
        let built = by_ref.build();
        for (name, b) in [("by-reference", &by_ref), ("by-value", &by_val)] {
            let bl = b.byte_len();
            let mut dest = vec![FILL; bl + 7];
            let ret = b.write_into(&mut dest);
            let ok = ret.as_ref().ok() == Some(&bl) && dest[bl..].iter().all(|x| *x == FILL);
            dest.truncate(bl);
            bpaths.push((if name == "by-reference" { "builder(by-reference).write_into" } else { "builder(by-value).write_into" }, if ok { dest } else { format!("{ret:?}").into_bytes() }));
            bpaths.push((if name == "by-reference" { "builder(by-reference).clone().build()" } else { "builder(by-value).build()" }, b.clone().build()));
            bpaths.push((if name == "by-reference" { "builder(by-reference).into_owned().build()" } else { "builder(by-value).into_owned().build()" }, b.clone().into_owned().build()));
            let o = b.clone().into_owned();
            let mut dest = vec![FILL; o.byte_len()];
            let _ = o.write_into(&mut dest);
            bpaths.push((if name == "by-reference" { "builder(by-reference).into_owned().write_into" } else { "builder(by-value).into_owned().write_into" }, dest));
        }
        (direct, paths, built, bpaths, added_ref && added_val)
    });
    match r {
        Err(p) => ctx.violation("C12", "no-panic", "RawAttribute", "edited-raw-attribute", w, "bytes".into(), format!("panic: {} at {}", p.msg, p.loc)),
        Ok((direct, paths, built, bpaths, added)) => {
            for (how, b) in &paths {
                if *b != direct {
                    ctx.violation("C12", "alternative-path-equals-raw", "AttributeWrite", &format!("edited-raw-attribute,{how}"), w, format!("to_bytes() = {}", hex(&direct[..direct.len().min(48)])), format!("{how} = {}", hex(&b[..b.len().min(48)])));
                    return;
                }
            }
            if added {
                for (how, b) in &bpaths {
                    if *b != built {
                        ctx.violation("C12", "builder-paths-equal", "MessageBuilder", &format!("edited-raw-attribute,{how}"), w, format!("build() = {}", hex(&built[..built.len().min(64)])), format!("{how} = {}", hex(&b[..b.len().min(64)])));
                        return;
                    }
                }
                // and the attribute sits in the message as it serialises on its own
                if built.len() < 28 + direct.len() || built[28..28 + direct.len()] != direct[..] {
                    ctx.violation("C12", "builder-paths-equal", "MessageBuilder::build", "edited-raw-attribute,attribute-bytes", w, hex(&direct[..direct.len().min(48)]), hex(&built[28.min(built.len())..built.len().min(76)]));
                    return;
                }
            }
            ctx.count("edited-raw-attributes");
        }
    }
}

/// builder paths: build, write_into exact/larger, into_owned, clone, short destinations
pub fn check_builder_paths(ctx: &mut Ctx, p: &Program, all_short: bool) {
    let opened = ctx.wd.enter_case_src("builder-program", p);
    check_builder_paths_inner(ctx, p, all_short);
    ctx.wd.leave_case(opened);
}

fn check_builder_paths_inner(ctx: &mut Ctx, p: &Program, all_short: bool) {
    ctx.eval();
    let w = || p.to_json();
    let r = guard(|| {
        let objs = make_objs(p)?;
        let mut b = apply_program(p, &objs)?;
        let untouched = b.build();
        // refused operations first (a duplicate type, an ordinary attribute after a seal, a second
        // FINGERPRINT): they must leave every serialisation path exactly as it was
        let mut refused = 0;
        if let Some(first) = p.attrs.first() {
            refused += b.add_raw_attribute(RawAttribute::new(AttributeType::new(first.ty()), &[1, 2, 3]).into_owned()).is_err() as u32;
        }
        if !p.seals.is_empty() {
            refused += b.add_raw_attribute(RawAttribute::new(AttributeType::new(0x7f7f), &[9; 5]).into_owned()).is_err() as u32;
        }
        if p.seals.contains(&SealSpec::Fp) {
            refused += b.add_fingerprint().is_err() as u32;
        }
        let built = b.build();
        if refused > 0 && built != untouched {
            return Err(format!("REFUSED-OP-TRACE {} -> {} bytes", untouched.len(), built.len()));
        }
        let len = b.byte_len();
        // a destination of 64 KiB and more
        let mut huge = vec![FILL; 65_536 + len];
        let hret = b.write_into(&mut huge).map_err(|e| format!("{e:?}"));
        if hret != Ok(len) || huge[..len] != built[..] || huge[len..].iter().any(|x| *x != FILL) {
            return Err(format!("HUGE-DESTINATION {hret:?}"));
        }
        let mut outs = vec![];
        for extra in [0usize, 1, 16, 300] {
            let mut dest = vec![FILL; len + extra];
            let ret = b.write_into(&mut dest).map_err(|e| format!("{e:?}"));
            outs.push((extra, ret, dest));
        }
        // clone_from onto a builder that already holds other attributes of the same sizes
        let cloned_from = {
            let mut other = b.clone().into_owned();
            // give the target different content first: retag through a fresh program with shifted raw types
            let shifted = Program {
                class: (p.class + 1) % 4,
                method: p.method ^ 1,
                tid: [0x3d; 12],
                attrs: p.attrs.iter().map(|a| AttrSpec::Raw(a.ty() ^ 0x0202, vec![0x11; a.wire_value(&p.tid).len()])).filter(|a| !matches!(a.ty(), 0x0008 | 0x001c | 0x8028)).collect(),
                seals: vec![],
                creds: p.creds.clone(),
            };
            if let Ok(o2) = make_objs(&shifted) {
                if let Ok(b2) = apply_program(&shifted, &o2) {
                    other = b2.into_owned();
                }
            }
            other.clone_from(&b.clone().into_owned());
            other.build()
        };
        if cloned_from != built {
            return Err(format!("CLONE-FROM {} bytes, first difference at {:?}", cloned_from.len(), cloned_from.iter().zip(built.iter()).position(|(x, y)| x != y)));
        }
        let cloned = b.clone().build();
        let cloned_owned = b.clone().into_owned().build();
        let shorts: Vec<usize> = if all_short || len <= 600 { (0..len).collect() } else { vec![0, 1, 19, 20, 21, len / 2, len - 4, len - 1] };
        let mut short_res = vec![];
        for d in shorts {
            let mut dest = vec![FILL; d];
            let ret = b.write_into(&mut dest);
            let ok = matches!(ret, Err(StunWriteError::TooSmall { expected, actual }) if expected == len && actual == d) && dest.iter().all(|x| *x == FILL);
            if !ok {
                short_res.push((d, format!("{ret:?}"), dest.iter().all(|x| *x == FILL)));
                break;
            }
        }
        let owned = b.into_owned().build();
        Ok::<_, String>((built, len, outs, cloned, cloned_owned, owned, short_res))
    });
    match r {
        Err(pn) => ctx.violation("C12", "no-panic", "MessageBuilder::write_into", "", w, "bytes".into(), format!("panic: {} at {}", pn.msg, pn.loc)),
        Ok(Err(e)) if e.starts_with("REFUSED-OP-TRACE") => ctx.violation("C12", "build-after-refused-operation", "MessageBuilder::build", "", w, "the serialisation as it was before the refused operations".into(), e),
        Ok(Err(e)) if e.starts_with("CLONE-FROM") => ctx.violation("C12", "owned-and-clone-equal-build", "MessageBuilder::clone_from", "", w, "clone_from gives a builder that serialises like its source".into(), e),
        Ok(Err(e)) if e.starts_with("HUGE-DESTINATION") => ctx.violation("C12", "write-into-equals-build", "MessageBuilder::write_into", "destination+65536", w, "Ok(len), bytes equal to build(), nothing beyond touched".into(), e),
        Ok(Err(_)) => {}
        Ok(Ok((built, len, outs, cloned, cloned_owned, owned, short_res))) => {
            ctx.distinct(hash64(&[0xB, len as u64, hash_bytes(&built[..built.len().min(40)])]));
            ctx.count("builders-compared");
            if built.len() != len {
                ctx.violation("C12", "build-length", "MessageBuilder::{build,byte_len}", "", w, format!("{len}"), format!("{}", built.len()));
                return;
            }
            for (extra, ret, dest) in &outs {
                let ok = *ret == Ok(len) && dest[..len] == built[..] && dest[len..].iter().all(|b| *b == FILL);
                if !ok {
                    ctx.violation(
                        "C12",
                        "write-into-equals-build",
                        "MessageBuilder::write_into",
                        &format!("destination+{extra}"),
                        w,
                        format!("Ok({len}), bytes equal to build(), nothing beyond touched"),
                        format!("{ret:?}, first difference {:?}, tail untouched {}", dest.iter().zip(built.iter()).position(|(a, b)| a != b), dest[len..].iter().all(|b| *b == FILL)),
                    );
                    return;
                }
            }
            if cloned != built || cloned_owned != built || owned != built {
                ctx.violation(
                    "C12",
                    "owned-and-clone-equal-build",
                    "MessageBuilder::{clone,into_owned}",
                    "",
                    w,
                    hex(&built[..built.len().min(80)]),
                    format!("clone eq {}, clone+into_owned eq {}, into_owned eq {}", cloned == built, cloned_owned == built, owned == built),
                );
                return;
            }
            if let Some((d, ret, untouched)) = short_res.first() {
                ctx.violation(
                    "C12",
                    "short-destination-refused",
                    "MessageBuilder::write_into",
                    "",
                    w,
                    format!("Err(TooSmall{{expected: {len}, actual: {d}}}) and nothing written"),
                    format!("{ret}, untouched = {untouched}"),
                );
            }
        }
    }
}

/// The one built-in attribute with a mutating method (`UnknownAttributes::add_attribute`): every
/// serialisation path must follow the value as it is *now*, whatever was serialised before.
fn check_mutated_unknown_attributes(ctx: &mut Ctx, initial: &[u16], additions: &[u16]) {
    use stun_types::attribute::UnknownAttributes;
    let init: Vec<AttributeType> = initial.iter().map(|t| AttributeType::new(*t)).collect();
    let mut ua = UnknownAttributes::new(&init);
    let mut model: Vec<u16> = initial.to_vec();
    let w = || json!({"kind": "unknown-attributes-mutation", "initial": initial, "additions": additions});
    for (step, t) in additions.iter().enumerate() {
        // serialise through every path first (so that anything memoised is filled), then mutate
        check_writer(ctx, "UNKNOWN-ATTRIBUTES(mutated)", &ua, model.len() * 2, &w, false);
        let _ = guard(|| {
            let _ = ua.to_raw().to_bytes();
            let _ = RawAttribute::from(&ua).to_bytes();
        });
        let before = model.contains(t);
        if guard(|| ua.add_attribute(AttributeType::new(*t))).is_err() {
            ctx.violation("C12", "no-panic", "UnknownAttributes::add_attribute", "", &w, "returns".into(), "panic".into());
            return;
        }
        if !before {
            model.push(*t);
        }
        let has = ua.has_attribute(AttributeType::new(*t));
        if !has {
            ctx.violation("C12", "mutation-visible", "UnknownAttributes::has_attribute", "", &w, "true after add_attribute".into(), format!("false at step {step}"));
            return;
        }
        ctx.count("attribute-mutations");
    }
    check_writer(ctx, "UNKNOWN-ATTRIBUTES(mutated)", &ua, model.len() * 2, &w, false);
    // and the wire value lists exactly the model's types in order
    let got = guard(|| ua.to_raw().value.to_vec()).unwrap_or_default();
    let want: Vec<u8> = model.iter().flat_map(|t| t.to_be_bytes()).collect();
    if got != want {
        ctx.violation("C12", "mutation-visible", "UnknownAttributes::to_raw", "stale-serialisation", &w, hex(&want), hex(&got));
    }
}

pub fn run(ctx: &mut Ctx) {
    let quick = ctx.tier == Tier::Quick;
    let tid = [0x5cu8; 12];
    let mut idx = 0u64;
    // ---- raw attributes edited through their public fields: header and value disagree ----
    {
        let mut rng = ctx.rng("edited-raw", 0);
        for old_len in 0..=13usize {
            for new_len in 0..=13usize {
                idx += 1;
                if !ctx.mine(idx) {
                    continue;
                }
                let new: Vec<u8> = (0..new_len).map(|_| rng.byte()).collect();
                check_edited_raw(ctx, if (old_len + new_len) % 2 == 0 { 0x7f01 } else { 0x8055 }, old_len, &new);
            }
        }
        for _ in 0..ctx.n(160, 3_000) {
            let ol = *rng.pick(&[0usize, 1, 3, 4, 100, 255, 256, 1000, 65_535]);
            let nl = *rng.pick(&[0usize, 1, 2, 3, 4, 5, 99, 100, 101, 255, 256, 257, 999, 1000, 1001, 4000]);
            let new: Vec<u8> = (0..nl).map(|_| rng.byte()).collect();
            check_edited_raw(ctx, 0x4000 | rng.below(0x1000) as u16, ol, &new);
        }
        ctx.require("edited-raw-attributes", 150);
    }
    // ---- builders whose attributes add up to more than the 16-bit length field can express: not a
    //      legal message, but every serialisation path still produces the same bytes ----
    for (j, sizes) in [vec![40_000usize, 30_001], vec![65_000, 65_000, 7], vec![60_000, 5_600], vec![700; 95]].into_iter().enumerate() {
        idx += 1;
        if !ctx.mine(idx) {
            continue;
        }
        let p = Program {
            class: (j % 4) as u8,
            method: 1 + j as u16,
            tid,
            attrs: sizes.iter().enumerate().map(|(i, n)| AttrSpec::Raw(0x5000 + i as u16, vec![0x6b; *n])).collect(),
            seals: vec![],
            creds: crate::refimpl::parse::RefCreds::Short("x".into()),
        };
        check_builder_paths(ctx, &p, false);
        ctx.count("oversized-builders");
    }
    // ---- values at the very top of the 16-bit length (65 528 .. 65 535 bytes): the padded length needs 17 bits ----
    for len in [65_528usize, 65_529, 65_531, 65_532, 65_533, 65_534, 65_535] {
        idx += 1;
        if !ctx.mine(idx) {
            continue;
        }
        let mut rng = ctx.rng("raw-top", idx);
        let v = rng.bytes(len);
        check_raw(ctx, 0x7f31, &v, false);
        check_value(ctx, Kind::AlternateDomain, &RefVal::Text(text_exact(&mut rng, len)), &tid, false);
        ctx.count("values-at-the-16-bit-limit");
    }
    // ---- mutation between serialisations ----
    for n0 in 0..6usize {
        for nadd in 1..5usize {
            idx += 1;
            if !ctx.mine(idx) {
                continue;
            }
            let initial: Vec<u16> = (0..n0).map(|i| 0x7001 + i as u16).collect();
            let additions: Vec<u16> = (0..nadd).map(|i| if i == 2 { 0x7001 } else { 0x7100 + (n0 * 8 + i) as u16 }).collect();
            check_mutated_unknown_attributes(ctx, &initial, &additions);
        }
    }
    // ---- raw attributes of length 0..=763 (every padding residue, dirty destinations) ----
    for len in 0..=763usize {
        idx += 1;
        if !ctx.mine(idx) {
            continue;
        }
        let mut rng = ctx.rng("raw", idx);
        let v = rng.bytes(len);
        check_raw(ctx, if len % 2 == 0 { 0x7f30 } else { 0xff30 }, &v, !quick || len % 16 == 0);
    }
    // ---- text attributes at every byte length up to their limit ----
    for k in [Kind::Username, Kind::Realm, Kind::Nonce, Kind::Software, Kind::AlternateDomain] {
        let lim = k.text_limit().unwrap().min(800);
        for len in 0..=lim {
            idx += 1;
            if !ctx.mine(idx) || (quick && len > 48 && len % 3 != 0 && len + 4 < lim) {
                continue;
            }
            let mut rng = ctx.rng("text", idx);
            let s = text_exact(&mut rng, len);
            check_value(ctx, k, &RefVal::Text(s), &tid, !quick);
        }
    }
    // ERROR-CODE reason lengths, UNKNOWN-ATTRIBUTES list lengths, algorithm lists
    for len in 0..=763usize {
        idx += 1;
        if !ctx.mine(idx) || (quick && len > 40 && len % 5 != 0) {
            continue;
        }
        let mut rng = ctx.rng("err", idx);
        let s = text_exact(&mut rng, len);
        check_value(ctx, Kind::ErrorCode, &RefVal::Error { code: 300 + (len as u16 % 400), reason: s }, &tid, false);
    }
    for n in 0..=64usize {
        idx += 1;
        if !ctx.mine(idx) {
            continue;
        }
        let mut rng = ctx.rng("lists", idx);
        check_value(ctx, Kind::UnknownAttributes, &RefVal::TypeList((0..n).map(|_| rng.next() as u16).collect()), &tid, true);
        if n >= 1 {
            check_value(ctx, Kind::PasswordAlgorithms, &RefVal::Algos((0..n).map(|i| 1 + (i % 2) as u16).collect()), &tid, true);
        }
    }
    // ---- random values of all 19 types ----
    let n = ctx.n(1_000_000, 12_000_000);
    let mut rng = ctx.rng("values", 0);
    for i in 0..n {
        let k = ALL_KINDS[(i % 19) as usize];
        let v = gen_refval(&mut rng, k);
        let t = crate::gen::msg::gen_tid(&mut rng);
        check_value(ctx, k, &v, &t, false);
        // one value in eight also as decoded from its wire form, with the parts a receiver ignores
        // set to something else than a sender writes
        if i % 8 == 3 {
            if let Some(mut wire) = ref_encode(k, &v, &t) {
                check_decoded(ctx, k, &wire, &t);
                if !wire.is_empty() {
                    match k {
                        Kind::XorMappedAddress | Kind::AlternateServer => wire[0] = rng.byte(),
                        Kind::ErrorCode => {
                            wire[0] = rng.byte();
                            wire[1] = rng.byte();
                            wire[2] |= rng.byte() & 0xf8;
                        }
                        _ => {}
                    }
                    check_decoded(ctx, k, &wire, &t);
                }
            }
        }
        if i < 19 {
            ctx.sample("value", || json!({"attr": k.name(), "value": v.to_json()}));
        }
    }
    // ---- builders ----
    let nb = ctx.n(160_000, 2_000_000);
    for i in 0..nb {
        let p = gen_program(&mut rng, 8, i % 16 == 15);
        check_builder_paths(ctx, &p, false);
        if i < 2 {
            ctx.sample("builder", || p.to_json());
        }
    }
    for k in ALL_KINDS {
        ctx.require("oversized-builders", 4);
    ctx.require("values-at-the-16-bit-limit", 7);
    ctx.require("huge-destinations", 1_000);
    ctx.require(&format!("writer:{}", k.name()), 50);
    }
    ctx.require("writer:raw", 500);
    ctx.require("decoded-then-written", 10_000);
    ctx.require("short-destinations", 50_000);
    ctx.require("builders-compared", 5_000);
}

pub fn replay(ctx: &mut Ctx, w: &Value) -> Result<(), String> {
    match w.get("kind").and_then(|k| k.as_str()) {
        Some("typed-encode") => {
            let kind = Kind::from_name(w["attr"].as_str().ok_or("attr")?).ok_or("attr")?;
            let v = RefVal::from_json(&w["value"]).ok_or("value")?;
            let t = crate::refimpl::crypto::unhex(w["tid"].as_str().unwrap_or("")).unwrap_or(vec![0; 12]);
            let mut tid = [0u8; 12];
            tid.copy_from_slice(&t[..12]);
            check_value(ctx, kind, &v, &tid, true);
        }
        Some("decoded-write") => {
            let kind = Kind::from_name(w["attr"].as_str().ok_or("attr")?).ok_or("attr")?;
            let v = crate::refimpl::crypto::unhex(w["wire"].as_str().ok_or("wire")?).ok_or("hex")?;
            let t = crate::refimpl::crypto::unhex(w["tid"].as_str().unwrap_or("")).unwrap_or(vec![0; 12]);
            let mut tid = [0u8; 12];
            tid.copy_from_slice(&t[..12]);
            check_decoded(ctx, kind, &v, &tid);
        }
        Some("raw-write") => {
            let v = crate::refimpl::crypto::unhex(w["value"].as_str().ok_or("value")?).ok_or("hex")?;
            check_raw(ctx, w["raw_type"].as_u64().ok_or("raw_type")? as u16, &v, true);
        }
        Some("program") => {
            let p = Program::from_json(w).ok_or("program")?;
            check_builder_paths(ctx, &p, true);
        }
        Some("edited-raw") => {
            let v = crate::refimpl::crypto::unhex(w["value"].as_str().ok_or("value")?).ok_or("hex")?;
            check_edited_raw(ctx, w["raw_type"].as_u64().ok_or("raw_type")? as u16, w["old_len"].as_u64().ok_or("old_len")? as usize, &v);
        }
        k => return Err(format!("unknown witness kind {k:?}")),
    }
    Ok(())
}
