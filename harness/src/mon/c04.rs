//! C04 — integrity: sealed messages verify, anything else does not.
//! Fault enumeration over sealed messages: every single-bit flip and byte substitutions in the
//! covered range, alternative keys; judged with the independent HMAC / MD5.

use super::builder::*;
use crate::ctx::{guard, hash64, hash_bytes, Ctx, Tier};
use crate::gen::msg::*;
use crate::gen::vals::*;
use crate::imp;
use crate::refimpl::crypto::hex;
use crate::refimpl::parse::*;
use serde_json::{json, Value};
use stun_types::message::{IntegrityAlgorithm, Message};

fn wit(buf: &[u8], creds: &RefCreds, what: &str) -> Value {
    json!({"kind": "integrity", "what": what, "buf": hex(buf), "creds": creds.to_json()})
}

#[derive(Debug, Clone, PartialEq)]
pub enum Val {
    ParserRejected,
    Ok(u16),
    Err(String),
    Panic(String),
}

pub fn validate(ctx: &mut Ctx, buf: &[u8], creds: &RefCreds) -> Val {
    let ic = imp::to_impl_creds(creds);
    ctx.wd.enter("Message::validate_integrity", buf);
    let r = guard(|| match Message::from_bytes(buf) {
        Err(_) => Val::ParserRejected,
        Ok(m) => match m.validate_integrity(&ic) {
            Ok(IntegrityAlgorithm::Sha1) => Val::Ok(MI),
            Ok(IntegrityAlgorithm::Sha256) => Val::Ok(MI256),
            Err(e) => Val::Err(format!("{e:?}")),
        },
    });
    ctx.wd.leave();
    let v1 = match r {
        Ok(v) => v,
        Err(p) => Val::Panic(format!("{} at {}", p.msg, p.loc)),
    };
    // the other decoding entry point: the verdict on a buffer does not depend on which one a caller uses
    let r2 = guard(|| match <Message as std::convert::TryFrom<&[u8]>>::try_from(buf) {
        Err(_) => Val::ParserRejected,
        Ok(m) => match m.validate_integrity(&ic) {
            Ok(IntegrityAlgorithm::Sha1) => Val::Ok(MI),
            Ok(IntegrityAlgorithm::Sha256) => Val::Ok(MI256),
            Err(e) => Val::Err(format!("{e:?}")),
        },
    });
    let v2 = match r2 {
        Ok(v) => v,
        Err(p) => Val::Panic(format!("{} at {}", p.msg, p.loc)),
    };
    if format!("{v1:?}") != format!("{v2:?}") {
        ctx.violation(
            "C04",
            "verdict-independent-of-entry-point",
            "TryFrom<&[u8]> for Message",
            if matches!(v2, Val::Ok(_)) { "validates-only-through-try_from" } else { "" },
            || wit(buf, creds, "entry-point"),
            format!("the verdict through Message::from_bytes: {v1:?}"),
            format!("{v2:?}"),
        );
    }
    v1
}

/// An untampered message under the key it was sealed with (or any key): consistency with the
/// reference.  Returns the end offset of the last exposed integrity attribute (the tamper range).
pub fn check_genuine(ctx: &mut Ctx, buf: &[u8], creds: &RefCreds, what: &str) -> Option<usize> {
    ctx.eval();
    let rp = ref_parse(buf);
    if !rp.accepted() || rp.excess != 0 {
        return None;
    }
    let ri = ref_integrity(buf, &rp.attrs, creds);
    let v = validate(ctx, buf, creds);
    let w = || wit(buf, creds, what);
    let shape = rp.attrs.iter().filter(|a| a.ty == MI || a.ty == MI256 || a.ty == FP).map(|a| match a.ty { MI => "MI".to_string(), FP => "FP".to_string(), _ => format!("MI256/{}", a.len) }).collect::<Vec<_>>().join(",");
    match &v {
        Val::Panic(m) => {
            // whatever the message, validation answers (validates / fails / reports the attribute as
            // missing): a panic is none of them
            let tag = if ctx.prop == "C04" { "C04" } else { "C01" };
            let what2 = if ri.attrs.is_empty() { "missing-reported" } else { "validation-answers" };
            ctx.violation(tag, what2, "Message::validate_integrity", "panic", w, if ri.attrs.is_empty() { "Err(MissingAttribute)".into() } else { "Ok or Err".into() }, format!("panic: {m}"));
            None
        }
        Val::ParserRejected => {
            ctx.violation("C02", "accept-iff", "Message::from_bytes", "wellformed-refused", w, "Ok".into(), "Err".into());
            None
        }
        Val::Ok(ty) => {
            ctx.count("validate-ok");
            ctx.set_insert("validated-shapes", format!("{shape}->{ty:#06x}"));
            if !ri.correct(*ty) {
                ctx.violation(
                    "C04",
                    "ok-implies-correct-attribute",
                    "Message::validate_integrity",
                    &format!("tail={shape}"),
                    w,
                    format!("an algorithm whose attribute is present and correct; reference: {:?}", ri.attrs),
                    format!("Ok({ty:#06x})"),
                );
                return None;
            }
            // tamper clause: the last exposed integrity attribute (the authoritative one when both
            // are present) must itself be correct for validation to succeed
            let last = last_exposed_integrity(&rp.attrs);
            if let Some(li) = last {
                if ri.correct_at(li) == Some(false) {
                    ctx.violation(
                        "C04",
                        "tampered-final-integrity-validates",
                        "Message::validate_integrity",
                        &format!("tail={shape}"),
                        w,
                        format!("Err: the last exposed integrity attribute (index {li}) is not correct for these credentials; reference: {:?}", ri.attrs),
                        format!("Ok({ty:#06x})"),
                    );
                    return None;
                }
            }
            // the tamper range ends with the last exposed integrity attribute
            last.map(|li| rp.attrs[li].off + 4 + rp.attrs[li].len)
        }
        Val::Err(e) => {
            ctx.count("validate-err");
            if ri.none_present() {
                if !e.starts_with("MissingAttribute(AttributeType(8))") {
                    ctx.violation("C04", "missing-integrity-reported", "Message::validate_integrity", "", w, "Err(MissingAttribute(MESSAGE-INTEGRITY))".into(), format!("Err({e})"));
                } else {
                    ctx.count("missing-reported");
                }
            } else if ri.all_correct() {
                ctx.violation(
                    "C04",
                    "all-correct-validates",
                    "Message::validate_integrity",
                    &format!("tail={shape}"),
                    w,
                    format!("Ok: every integrity attribute present is correct ({:?})", ri.attrs),
                    format!("Err({e})"),
                );
            }
            None
        }
    }
}

/// A buffer that must NOT validate (tampered or wrong key): parser rejection or validation error.
pub fn check_must_fail(ctx: &mut Ctx, buf: &[u8], creds: &RefCreds, what: &str, feature: &str) {
    ctx.eval();
    match validate(ctx, buf, creds) {
        Val::ParserRejected => ctx.count("tamper-rejected-by-parser"),
        Val::Err(_) => ctx.count("tamper-failed-validation"),
        Val::Panic(m) => ctx.violation("C01", "no-panic", "Message::validate_integrity", "", || wit(buf, creds, what), "Ok or Err".into(), format!("panic: {m}")),
        Val::Ok(ty) => ctx.violation(
            "C04",
            what,
            "Message::validate_integrity",
            feature,
            || wit(buf, creds, what),
            "rejected by the parser or Err from validate_integrity".into(),
            format!("Ok({ty:#06x})"),
        ),
    }
}

fn region_of(rp: &RefParse, i: usize) -> String {
    if i < 2 {
        return "header-type".into();
    }
    if i < 4 {
        return "header-length".into();
    }
    if i < 8 {
        return "cookie".into();
    }
    if i < 20 {
        return "transaction-id".into();
    }
    for a in &rp.attrs {
        if i >= a.off && i < a.padded_end() {
            let part = if i < a.off + 2 { "type" } else if i < a.off + 4 { "length" } else if i < a.off + 4 + a.len { "value" } else { "padding" };
            let name = match a.ty { MI => "MI", MI256 => "MI256", FP => "FP", _ => "attr" };
            return format!("{name}-{part}");
        }
    }
    "other".into()
}

pub fn tamper(ctx: &mut Ctx, base: &[u8], creds: &RefCreds, covered_end: usize, rng: &mut crate::prng::Rng, full: bool) {
    let rp = ref_parse(base);
    let mut m = base.to_vec();
    // every single-bit flip in [0, covered_end)
    for bit in 0..covered_end * 8 {
        m[bit / 8] ^= 1 << (bit % 8);
        check_must_fail(ctx, &m, creds, "tamper-detected", &format!("bit-flip:{}", region_of(&rp, bit / 8)));
        m[bit / 8] ^= 1 << (bit % 8);
    }
    ctx.count_n("single-bit-flips", (covered_end * 8) as u64);
    // structured multi-byte damage to every integrity value: trailing / leading words zeroed or set,
    // the whole value zeroed, reversed, rotated, halves swapped (what a lenient comparison might let through)
    for a in rp.attrs.iter().filter(|a| (a.ty == MI || a.ty == MI256) && a.off + 4 + a.len <= covered_end) {
        let (vs, ve) = (a.off + 4, a.off + 4 + a.len);
        let orig = base[vs..ve].to_vec();
        let mut variants: Vec<(String, Vec<u8>)> = vec![];
        for words in 1..=(a.len / 4) {
            for (name, fill) in [("zero", 0u8), ("ones", 0xff)] {
                let mut v = orig.clone();
                for b in v[a.len - 4 * words..].iter_mut() {
                    *b = fill;
                }
                variants.push((format!("last-{words}-words-{name}"), v));
                let mut v = orig.clone();
                for b in v[..4 * words].iter_mut() {
                    *b = fill;
                }
                variants.push((format!("first-{words}-words-{name}"), v));
            }
        }
        for k in 1..a.len.min(8) {
            let mut v = orig.clone();
            for b in v[a.len - k..].iter_mut() {
                *b = 0;
            }
            variants.push((format!("last-{k}-bytes-zero"), v));
        }
        let mut v = orig.clone();
        v.reverse();
        variants.push(("reversed".into(), v));
        let mut v = orig.clone();
        v.rotate_left(1);
        variants.push(("rotated".into(), v));
        let mut v = orig.clone();
        v.rotate_left(a.len / 2);
        variants.push(("halves-swapped".into(), v));
        for (name, v) in variants {
            if v == orig {
                continue;
            }
            m[vs..ve].copy_from_slice(&v);
            check_must_fail(ctx, &m, creds, "tamper-detected", &format!("hmac-value:{}", name.split('-').filter(|p| p.parse::<u32>().is_err()).collect::<Vec<_>>().join("-")));
            ctx.count("structured-hmac-damage");
        }
        m[vs..ve].copy_from_slice(&orig);
    }
    // all 255 values at sampled positions + the structural bytes; every position with sampled values
    let mut hot: Vec<usize> = (0..4).collect();
    for a in &rp.attrs {
        if a.off < covered_end {
            hot.extend(a.off..a.off + 4);
        }
    }
    for _ in 0..if full { 12 } else { 3 } {
        hot.push(rng.usize(covered_end));
    }
    for i in 0..covered_end {
        let vals: Vec<u8> = if hot.contains(&i) { (1..=255u8).collect() } else { (0..if full { 8 } else { 2 }).map(|_| 1 + rng.below(255) as u8).collect() };
        for d in vals {
            m[i] = base[i] ^ d;
            check_must_fail(ctx, &m, creds, "tamper-detected", &format!("byte-substitution:{}", region_of(&rp, i)));
            ctx.count("byte-substitutions");
        }
        m[i] = base[i];
    }
}

/// Near-miss HMAC inputs: the value an almost-right implementation would accept (length field not
/// rewritten, rewritten to exclude the attribute, to include what follows, text including the
/// attribute header, the password used as key for long-term credentials, ...).  A message carrying
/// such a value in place of the RFC one must not validate.  Also the **replay** construction: an
/// ordinary attribute carrying the genuine HMAC bytes at the genuine integrity offset, forged
/// attributes behind it, and the genuine integrity attribute at the end.
pub fn near_miss_hmac_inputs(ctx: &mut Ctx, base: &[u8], creds: &RefCreds) {
    use crate::refimpl::crypto::{hmac_sha1, hmac_sha256};
    let rp = ref_parse(base);
    if !rp.accepted() {
        return;
    }
    let key = creds.key();
    let n = base.len();
    for a in rp.attrs.iter().filter(|a| a.ty == MI || a.ty == MI256) {
        let off = a.off;
        let end = off + 4 + a.len;
        let text = |l: usize, upto: usize| {
            let mut v = base[..upto].to_vec();
            v[2] = (l >> 8) as u8;
            v[3] = l as u8;
            v
        };
        let declared = rp.declared;
        let alts: Vec<(&'static str, Vec<u8>, Vec<u8>)> = vec![
            ("length-not-rewritten", text(declared, off), key.clone()),
            ("length-excluding-attribute", text(off - 20, off), key.clone()),
            ("length-as-total-size", text(end, off), key.clone()),
            ("length-to-end-of-buffer", text(n - 20, off), key.clone()),
            ("text-including-attribute-header", text(end - 20, off + 4), key.clone()),
            ("length-zero", text(0, off), key.clone()),
            ("empty-key", text(end - 20, off), vec![]),
            (
                "password-as-key",
                text(end - 20, off),
                match creds {
                    RefCreds::Long(_, _, p) => p.as_bytes().to_vec(),
                    RefCreds::Short(p) => crate::refimpl::crypto::md5(p.as_bytes()).to_vec(),
                },
            ),
        ];
        for (name, t, k) in alts {
            let h: Vec<u8> = if a.ty == MI { hmac_sha1(&k, &t).to_vec() } else { hmac_sha256(&k, &t)[..a.len.min(32)].to_vec() };
            if h.len() != a.len || h == base[off + 4..end] || hmac_equivalent(&k, &key) && t == text(end - 20, off) {
                continue;
            }
            let mut m = base.to_vec();
            m[off + 4..end].copy_from_slice(&h);
            // only the attribute that validation looks at decides: judge by the reference
            let rpm = ref_parse(&m);
            if !rpm.accepted() {
                continue; // (a FINGERPRINT behind it no longer matches: the parser refuses it anyway)
            }
            let ri = ref_integrity(&m, &rpm.attrs, creds);
            if ri.none_correct() || last_exposed_integrity(&rpm.attrs).and_then(|li| ri.correct_at(li)) == Some(false) {
                check_must_fail(ctx, &m, creds, "near-miss-hmac-rejected", name);
                ctx.count("near-miss-hmac-inputs");
            }
        }
    }
    // replay: [.., X(h) at the integrity offset, forged attribute, MI(h)] for a message ending in one MESSAGE-INTEGRITY
    if let Some(a) = rp.attrs.last().filter(|a| (a.ty == MI || a.ty == MI256) && a.len % 4 == 0) {
        let h = base[a.off + 4..a.off + 4 + a.len].to_vec();
        let mut m = base[..a.off].to_vec();
        push_tlv(&mut m, &Tlv::new(0x7f5a, h.clone()));
        push_tlv(&mut m, &Tlv::new(0x0006, b"forged".to_vec()));
        push_tlv(&mut m, &Tlv::new(a.ty, h));
        let l = m.len() - 20;
        set_len(&mut m, l);
        if l <= 0xffff && ref_parse(&m).accepted() {
            check_must_fail(ctx, &m, creds, "replayed-hmac-rejected", if a.ty == MI { "sha1" } else { "sha256" });
            ctx.count("hmac-replays");
        }
    }
}

pub fn other_keys(ctx: &mut Ctx, base: &[u8], creds: &RefCreds, rng: &mut crate::prng::Rng) {
    let key = creds.key();
    for alt in near_miss_creds(rng, creds) {
        if hmac_equivalent(&alt.key(), &key) {
            ctx.count("alternative-credentials-with-equal-key-skipped");
            continue;
        }
        check_must_fail(ctx, base, &alt, "other-key-rejected", if matches!(alt, RefCreds::Short(_)) { "short-term" } else { "long-term" });
        ctx.count("alternative-keys");
    }
}

/// The public primitives validation is made of (`MessageIntegrity::{compute,verify}`,
/// `MessageIntegritySha256::{compute,verify}`) against the independent HMACs: any data, keys shorter
/// than, equal to and longer than the hash's block size, every legal truncation, damaged values.
pub fn check_primitives(ctx: &mut Ctx, data: &[u8], key: &[u8], damage: u32) {
    use stun_types::attribute::{MessageIntegrity, MessageIntegritySha256};
    ctx.eval();
    let w = || json!({"kind": "primitive", "data": hex(data), "key": hex(key), "damage": damage});
    let want1 = crate::refimpl::crypto::hmac_sha1(key, data);
    let want2 = crate::refimpl::crypto::hmac_sha256(key, data);
    let r = guard(|| {
        let c1 = MessageIntegrity::compute(data, key).map_err(|e| format!("{e:?}"));
        let c2 = MessageIntegritySha256::compute(data, key).map_err(|e| format!("{e:?}"));
        let v1 = MessageIntegrity::verify(data, key, &want1).is_ok();
        let mut bad1 = want1;
        bad1[(damage as usize / 8) % 20] ^= 1 << (damage % 8);
        let v1bad = MessageIntegrity::verify(data, key, &bad1).is_ok();
        let mut v2 = vec![];
        for n in [16usize, 20, 24, 28, 32] {
            let good = MessageIntegritySha256::verify(data, key, &want2[..n]).is_ok();
            let mut bad = want2[..n].to_vec();
            bad[(damage as usize / 8) % n] ^= 1 << (damage % 8);
            let badr = MessageIntegritySha256::verify(data, key, &bad).is_ok();
            // the last byte in particular (a comparison that stops early)
            let mut bad_last = want2[..n].to_vec();
            bad_last[n - 1] ^= 1 << (damage % 8);
            let badl = MessageIntegritySha256::verify(data, key, &bad_last).is_ok();
            v2.push((n, good, badr, badl));
        }
        // the SHA-1 HMAC offered where the SHA-256 one is expected, and the other way round
        let cross = MessageIntegritySha256::verify(data, key, &want1[..]).is_ok();
        let mut w2 = [0u8; 20];
        w2.copy_from_slice(&want2[..20]);
        let cross2 = MessageIntegrity::verify(data, key, &w2).is_ok();
        (c1, c2, v1, v1bad, v2, cross, cross2)
    });
    match r {
        Err(p) => ctx.violation("C04", "no-panic", "MessageIntegrity::{compute,verify}", "primitive", w, "value".into(), format!("panic: {} at {}", p.msg, p.loc)),
        Ok((c1, c2, v1, v1bad, v2, cross, cross2)) => {
            if c1 != Ok(want1) {
                ctx.violation("C04", "hmac-is-rfc-hmac", "MessageIntegrity::compute", "primitive", w, hex(&want1), format!("{c1:?}"));
            }
            if c2 != Ok(want2) {
                ctx.violation("C04", "hmac-is-rfc-hmac", "MessageIntegritySha256::compute", "primitive", w, hex(&want2), format!("{c2:?}"));
            }
            if !v1 {
                ctx.violation("C04", "genuine-validates", "MessageIntegrity::verify", "primitive", w, "Ok for the HMAC-SHA1 of the data".into(), "Err".into());
            }
            if v1bad || cross2 {
                ctx.violation("C04", "tamper-detected", "MessageIntegrity::verify", "primitive", w, "Err for a value that is not the HMAC-SHA1 of the data".into(), format!("Ok (one bit damaged: {v1bad}, SHA-256 prefix offered: {cross2})"));
            }
            for (n, good, bad, badl) in v2 {
                if !good {
                    ctx.violation("C04", "genuine-validates", "MessageIntegritySha256::verify", &format!("primitive,len={n}"), w, format!("Ok for the first {n} bytes of the HMAC-SHA256"), "Err".into());
                }
                if bad || badl {
                    ctx.violation("C04", "tamper-detected", "MessageIntegritySha256::verify", &format!("primitive,len={n}"), w, "Err for a damaged value".into(), format!("Ok (bit {damage} damaged: {bad}, last byte damaged: {badl})"));
                }
            }
            if cross {
                ctx.violation("C04", "tamper-detected", "MessageIntegritySha256::verify", "primitive,sha1-offered", w, "Err".into(), "Ok".into());
            }
            ctx.count("primitive-checks");
        }
    }
}

pub fn run(ctx: &mut Ctx) {
    let quick = ctx.tier == Tier::Quick;
    {
        let np = ctx.n(6_000, 200_000);
        let mut rng = ctx.rng("primitives", 0);
        for i in 0..np {
            let dl = match i % 5 {
                0 => rng.usize(4),
                1 => *rng.pick(&[55usize, 56, 63, 64, 65, 119, 120, 127, 128, 129]),
                2 => rng.usize(2_000),
                _ => rng.usize(200),
            };
            let kl = match i % 7 {
                0 => 0,
                1 => *rng.pick(&[1usize, 16, 20, 32, 63, 64, 65, 127, 128, 129, 200]),
                _ => rng.usize(80),
            };
            let data: Vec<u8> = (0..dl).map(|_| rng.byte()).collect();
            let key: Vec<u8> = (0..kl).map(|_| rng.byte()).collect();
            check_primitives(ctx, &data, &key, rng.below(256) as u32);
        }
    }
    let n = ctx.n(2_400, 24_000);
    let mut rng = ctx.rng("sealed", 0);
    let mut done = 0u64;
    let mut tries = 0u64;
    while done < n && tries < n * 20 {
        tries += 1;
        // builder-sealed and reference-sealed alternate
        let (base, creds): (Vec<u8>, RefCreds) = if tries % 2 == 0 {
            let mut p = gen_program(&mut rng, 6, false);
            p.attrs.truncate(1 + rng.usize(6));
            if !p.seals.iter().any(|s| matches!(s, SealSpec::Sha1 | SealSpec::Sha256)) {
                p.seals.insert(0, if rng.chance(1, 2) { SealSpec::Sha1 } else { SealSpec::Sha256 });
            }
            let Some(b) = build_program(&p) else { continue };
            // the builder's HMAC bytes equal the reference's (pins key derivation + length rewrite)
            let want = p.reference_bytes();
            if b != want {
                let first = b.iter().zip(want.iter()).position(|(x, y)| x != y).unwrap_or(0);
                let rp = ref_parse(&want);
                ctx.violation(
                    "C04",
                    "builder-hmac-is-rfc-hmac",
                    "MessageBuilder::add_message_integrity",
                    &format!("first-difference-in={}", region_of(&rp, first)),
                    || p.to_json(),
                    hex(&want[want.len().saturating_sub(44)..]),
                    hex(&b[b.len().saturating_sub(44)..]),
                );
            }
            ctx.count("builder-sealed");
            // the same builder serialised into a reused (not zeroed) buffer is still a message sealed with K
            if tries % 8 == 0 {
                if let Some(d) = build_program_dirty(&p, 0xA5, tries % 16 == 0) {
                    ctx.count("builder-sealed-dirty-destination");
                    match validate(ctx, &d, &p.creds) {
                        Val::Ok(_) => {}
                        other => ctx.violation(
                            "C04",
                            "sealed-validates",
                            "MessageBuilder::write_into",
                            "dirty-destination",
                            || p.to_json(),
                            "Ok: sealed with these credentials".into(),
                            format!("{other:?}"),
                        ),
                    }
                }
            }
            (b, p.creds.clone())
        } else {
            let tid = gen_tid(&mut rng);
            let nattr = 1 + rng.usize(5);
            let tlvs: Vec<Tlv> = (0..nattr).map(|_| gen_ordinary_tlv(&mut rng, &tid)).collect();
            let sl = 16 + 4 * rng.usize(5);
            let seals = match rng.below(9) {
                0 => vec![Seal::Sha1],
                1 => vec![Seal::Sha256(sl)],
                2 => vec![Seal::Sha1, Seal::Sha256(sl)],
                3 => vec![Seal::Sha256(sl), Seal::Sha1],
                4 => vec![Seal::Sha1, Seal::Fingerprint],
                5 => vec![Seal::Sha256(sl), Seal::Fingerprint],
                6 => vec![Seal::Sha1, Seal::Sha256(sl), Seal::Fingerprint],
                7 => vec![Seal::Sha256(sl), Seal::Sha1, Seal::Fingerprint],
                _ => vec![Seal::Sha256(16)],
            };
            let creds = if rng.chance(1, 3) { gen_creds(&mut rng) } else { gen_creds_small(&mut rng) };
            let g = GenMsg { class: rng.below(4) as u8, method: gen_method(&mut rng), tid, tlvs, seals, creds: creds.clone() };
            let b = build_msg(&g);
            if !ref_parse(&b).accepted() {
                continue;
            }
            ctx.count("reference-sealed");
            (b, creds)
        };
        if base.len() > if quick { 220 } else { 420 } {
            continue;
        }
        done += 1;
        ctx.distinct(hash64(&[hash_bytes(&base)]));
        if done <= 3 {
            ctx.sample("sealed-message", || json!({"bytes": hex(&base), "creds": creds.to_json()}));
        }
        let Some(covered_end) = check_genuine(ctx, &base, &creds, "sealed-validates") else {
            // a sealed message that does not validate is itself the violation
            let rp = ref_parse(&base);
            let ri = ref_integrity(&base, &rp.attrs, &creds);
            if ri.all_correct() && !ctx.has_violations() {
                ctx.violation("C04", "sealed-validates", "Message::validate_integrity", "", || wit(&base, &creds, "sealed-validates"), "Ok".into(), "not Ok".into());
            }
            continue;
        };
        other_keys(ctx, &base, &creds, &mut rng);
        near_miss_hmac_inputs(ctx, &base, &creds);
        tamper(ctx, &base, &creds, covered_end, &mut rng, !quick);
    }
    ctx.count_n("sealed-messages", done);
    // ---- messages as real peers send them (attributes repeating each other's information, error
    //      responses with their usual attributes, ICE checks, both integrity attributes): sealed ones
    //      validate, every tampering and every other key fails ----
    {
        let mut r2 = ctx.rng("realistic", 0);
        let reps = ctx.n(16, 160).div_ceil(ctx.nshards).max(1);
        for variant in 0..REALISTIC_VARIANTS {
            for _ in 0..reps {
                let (base, creds) = gen_realistic_message(&mut r2, variant);
                let rp = ref_parse(&base);
                if !rp.accepted() || !rp.attrs.iter().any(|a| a.ty == MI || a.ty == MI256) {
                    check_genuine(ctx, &base, &creds, "realistic-unsealed");
                    continue;
                }
                let Some(covered_end) = check_genuine(ctx, &base, &creds, "sealed-validates") else {
                    if ref_integrity(&base, &rp.attrs, &creds).all_correct() && !ctx.has_violations() {
                        ctx.violation("C04", "sealed-validates", "Message::validate_integrity", "realistic-message", || wit(&base, &creds, "sealed-validates"), "Ok".into(), "not Ok".into());
                    }
                    continue;
                };
                ctx.count("realistic-sealed-messages");
                other_keys(ctx, &base, &creds, &mut r2);
                near_miss_hmac_inputs(ctx, &base, &creds);
                tamper(ctx, &base, &creds, covered_end, &mut r2, !quick);
            }
        }
        ctx.require("realistic-sealed-messages", 40);
    }
    // ---- partially correct / incorrect integrity, and no integrity at all ----
    let nm = ctx.n(160_000, 2_000_000);
    for i in 0..nm {
        let (b, g) = gen_message(&mut rng, 4);
        if b.len() > 2_000 {
            continue;
        }
        check_genuine(ctx, &b, &g.creds, "generated");
        let other = gen_creds_small(&mut rng);
        if !hmac_equivalent(&other.key(), &g.creds.key()) {
            let rp = ref_parse(&b);
            if rp.accepted() && rp.attrs.iter().any(|a| a.ty == MI || a.ty == MI256) && ref_integrity(&b, &rp.attrs, &other).none_correct() {
                check_must_fail(ctx, &b, &other, "other-key-rejected", "random");
            } else {
                check_genuine(ctx, &b, &other, "generated-other-key");
            }
        }
        let _ = i;
    }
    // ---- a few near the 16-bit boundary ----
    let nb = ctx.n(96, 960);
    for i in 0..nb {
        let creds = gen_creds_small(&mut rng);
        let tail: &[Seal] = match i % 3 { 0 => &[Seal::Sha1], 1 => &[Seal::Sha256(32)], _ => &[Seal::Sha1, Seal::Sha256(32), Seal::Fingerprint] };
        let total = 65_552 - 4 * rng.usize(12);
        let b = gen_boundary_message(&mut rng, total, tail, &creds);
        if check_genuine(ctx, &b, &creds, "boundary").is_some() {
            ctx.count("boundary-validated");
            let mut m = b.clone();
            for _ in 0..24 {
                let bit = rng.usize((b.len() - 60) * 8);
                m[bit / 8] ^= 1 << (bit % 8);
                check_must_fail(ctx, &m, &creds, "tamper-detected", "bit-flip:boundary");
                m[bit / 8] ^= 1 << (bit % 8);
            }
        }
    }
    ctx.require("primitive-checks", 5_000);
    ctx.require("sealed-messages", 100);
    ctx.require("builder-sealed", 50);
    ctx.require("reference-sealed", 50);
    ctx.require("single-bit-flips", 100_000);
    ctx.require("byte-substitutions", 100_000);
    ctx.require("alternative-keys", 1_000);
    ctx.require("tamper-failed-validation", 100_000);
    ctx.require("tamper-rejected-by-parser", 5_000);
    ctx.require("missing-reported", 1_000);
    ctx.require("validate-ok", 1_000);
}

pub fn replay(ctx: &mut Ctx, w: &Value) -> Result<(), String> {
    match w.get("kind").and_then(|k| k.as_str()) {
        Some("integrity") => {
            let buf = crate::refimpl::crypto::unhex(w["buf"].as_str().ok_or("buf")?).ok_or("hex")?;
            let creds = RefCreds::from_json(&w["creds"]).ok_or("creds")?;
            let what = w["what"].as_str().unwrap_or("");
            match what {
                "tamper-detected" | "other-key-rejected" => check_must_fail(ctx, &buf, &creds, what, "replay"),
                _ => {
                    check_genuine(ctx, &buf, &creds, what);
                }
            }
            Ok(())
        }
        Some("primitive") => {
            let data = crate::refimpl::crypto::unhex(w["data"].as_str().ok_or("data")?).ok_or("hex")?;
            let key = crate::refimpl::crypto::unhex(w["key"].as_str().ok_or("key")?).ok_or("hex")?;
            check_primitives(ctx, &data, &key, w["damage"].as_u64().unwrap_or(0) as u32);
            Ok(())
        }
        Some("program") => {
            let p = Program::from_json(w).ok_or("program")?;
            ctx.eval();
            if let Some(b) = build_program(&p) {
                let want = p.reference_bytes();
                if b != want {
                    ctx.violation("C04", "builder-hmac-is-rfc-hmac", "MessageBuilder::add_message_integrity", "replay", || p.to_json(), hex(&want[want.len().saturating_sub(44)..]), hex(&b[b.len().saturating_sub(44)..]));
                }
            }
            Ok(())
        }
        k => Err(format!("unknown witness kind {k:?}")),
    }
}
