//! Codec engine (DESIGN.md 3.3): one buffer in, every decoder and read-only operation run under
//! `catch_unwind`, everything compared with the reference decoder.  Assertions are tagged with the
//! property they belong to (C01, C02, C04, C08, C10, C16, C17).

use crate::ctx::{guard, hash64, hash_bytes, Ctx};
use crate::imp;
use crate::refimpl::attrs::{ref_decode, Kind, RefVal, ALL_KINDS};
use crate::refimpl::crypto::hex;
use crate::refimpl::parse::*;
use crate::trace_sub;
use serde_json::{json, Value};
use stun_types::attribute::{Attribute, AttributeType, RawAttribute};
use stun_types::message::{
    IntegrityAlgorithm, Message, MessageClass, MessageHeader, MessageType, StunParseError,
};

#[derive(Clone, Debug, Default)]
pub struct Opts {
    pub creds: Vec<RefCreds>,
    /// (supported, required) sets for attribute policing
    pub police: Vec<(Vec<u16>, Vec<u16>)>,
    /// Display/Debug formatting and the tracing-subscriber pass (C01)
    pub deep: bool,
    /// run the 19 typed decoders over every exposed attribute
    pub typed: bool,
}

#[derive(Clone, Debug, Default)]
pub struct Outcome {
    pub impl_accepted: bool,
    pub ref_accepted: bool,
    pub impl_panicked: bool,
    pub exposed_types: Vec<u16>,
    pub err: Option<String>,
}

pub fn wit_bytes(entry: &str, buf: &[u8], o: &Opts) -> Value {
    json!({
        "kind": "bytes",
        "entry": entry,
        "buf": hex(buf),
        "creds": o.creds.iter().map(|c| c.to_json()).collect::<Vec<_>>(),
        "police": o.police.iter().map(|(s, r)| json!([s, r])).collect::<Vec<_>>(),
        "deep": o.deep,
        "typed": o.typed,
    })
}

pub fn opts_from_json(w: &Value) -> Opts {
    let creds = w
        .get("creds")
        .and_then(|c| c.as_array())
        .map(|a| a.iter().filter_map(RefCreds::from_json).collect())
        .unwrap_or_default();
    let police = w
        .get("police")
        .and_then(|c| c.as_array())
        .map(|a| {
            a.iter()
                .filter_map(|p| {
                    let p = p.as_array()?;
                    let f = |v: &Value| -> Vec<u16> {
                        v.as_array().map(|x| x.iter().filter_map(|y| y.as_u64().map(|y| y as u16)).collect()).unwrap_or_default()
                    };
                    Some((f(p.first()?), f(p.get(1)?)))
                })
                .collect()
        })
        .unwrap_or_default();
    Opts {
        creds,
        police,
        deep: w.get("deep").and_then(|d| d.as_bool()).unwrap_or(true),
        typed: w.get("typed").and_then(|d| d.as_bool()).unwrap_or(true),
    }
}

pub fn err_name(e: &StunParseError) -> String {
    format!("{e:?}")
}

fn cause_name(c: &Cause) -> String {
    match c {
        Cause::NotStun => "NotStun".into(),
        Cause::Truncated { .. } => "Truncated".into(),
        Cause::AfterIntegrity(_) => "AttributeAfterIntegrity".into(),
        Cause::AfterFingerprint(_) => "AttributeAfterFingerprint".into(),
        Cause::FingerprintMismatch => "FingerprintMismatch".into(),
        Cause::MalformedFingerprint => "MalformedFingerprint".into(),
    }
}

fn cause_matches(e: &StunParseError, c: &Cause) -> bool {
    match (e, c) {
        (StunParseError::NotStun, Cause::NotStun) => true,
        (StunParseError::Truncated { expected, actual }, Cause::Truncated { exp_lo, exp_hi, actual: a }) => {
            actual == a && expected >= exp_lo && expected <= exp_hi
        }
        (StunParseError::AttributeAfterIntegrity(t), Cause::AfterIntegrity(rt)) => t.value() == *rt,
        (StunParseError::AttributeAfterFingerprint(t), Cause::AfterFingerprint(rt)) => t.value() == *rt,
        (StunParseError::FingerprintMismatch, Cause::FingerprintMismatch) => true,
        (_, Cause::MalformedFingerprint) => true,
        _ => false,
    }
}

fn class_num(c: MessageClass) -> u8 {
    match c {
        MessageClass::Request => 0,
        MessageClass::Indication => 1,
        MessageClass::Success => 2,
        MessageClass::Error => 3,
    }
}

fn tail_shape(b: &[u8], attrs: &[RefAttr]) -> String {
    let _ = b;
    let first = attrs.iter().position(|a| a.ty == MI || a.ty == MI256 || a.ty == FP);
    let Some(i) = first else { return "tail=none".into() };
    let names: Vec<&str> = attrs[i..]
        .iter()
        .map(|a| match a.ty {
            MI => "MI",
            MI256 => "MI256",
            FP => "FP",
            _ => "ORD",
        })
        .collect();
    format!("tail={}", names.join(","))
}

fn dedup(v: &[u16]) -> Vec<u16> {
    let mut out: Vec<u16> = vec![];
    for x in v {
        if !out.contains(x) {
            out.push(*x);
        }
    }
    out
}

/// The stand-alone decoders on arbitrary bytes (C01 no-panic; C17 header agreement).
pub fn check_small_decoders(ctx: &mut Ctx, buf: &[u8], rp: &RefParse, o: &Opts) {
    let n = buf.len();
    // MessageType::from_bytes on any slice
    ctx.wd.enter("MessageType::from_bytes", buf);
    let r = guard(|| MessageType::from_bytes(buf).map(|t| (class_num(t.class()), t.method())));
    ctx.wd.leave();
    match r {
        Err(p) => ctx.violation(
            "C01",
            "no-panic",
            "MessageType::from_bytes",
            if n < 2 { "len<2" } else { "len>=2" },
            || wit_bytes("MessageType::from_bytes", buf, o),
            "value or error".into(),
            format!("panic: {} at {}", p.msg, p.loc),
        ),
        Ok(res) => {
            if n >= 2 {
                let want = buf[0] & 0xC0 == 0;
                if res.is_ok() != want {
                    ctx.violation(
                        "C19",
                        "type-decode-accept-iff",
                        "MessageType::from_bytes",
                        "",
                        || wit_bytes("MessageType::from_bytes", buf, o),
                        format!("ok={want}"),
                        format!("{res:?}"),
                    );
                }
            }
        }
    }
    // MessageHeader::from_bytes
    ctx.wd.enter("MessageHeader::from_bytes", buf);
    let r = guard(|| {
        MessageHeader::from_bytes(buf).map(|h| {
            (class_num(h.get_type().class()), h.get_type().method(), imp::tid_to_bytes(h.transaction_id()), h.data_length())
        })
    });
    ctx.wd.leave();
    match r {
        Err(p) => ctx.violation(
            "C01",
            "no-panic",
            "MessageHeader::from_bytes",
            if n < 20 { "len<20" } else { "len>=20" },
            || wit_bytes("MessageHeader::from_bytes", buf, o),
            "value or error".into(),
            format!("panic: {} at {}", p.msg, p.loc),
        ),
        Ok(res) => {
            let w = || wit_bytes("MessageHeader::from_bytes", buf, o);
            if n < 20 {
                let ok = matches!(&res, Err(StunParseError::Truncated { expected: 20, actual }) if *actual == n);
                if !ok {
                    ctx.violation(
                        "C17",
                        "header-short-truncated",
                        "MessageHeader::from_bytes",
                        "len<20",
                        w,
                        format!("Err(Truncated{{expected: 20, actual: {n}}})"),
                        format!("{res:?}"),
                    );
                }
            } else {
                let not_stun = rp.causes.contains(&Cause::NotStun);
                match res {
                    Ok((c, m, tid, dl)) => {
                        if not_stun {
                            ctx.violation(
                                "C17",
                                "header-accept-iff",
                                "MessageHeader::from_bytes",
                                "non-stun-accepted",
                                w,
                                "Err(NotStun)".into(),
                                "Ok".into(),
                            );
                        } else if c != rp.class || m != rp.method || tid != rp.tid || dl as usize != rp.declared {
                            ctx.violation(
                                "C17",
                                "header-fields",
                                "MessageHeader::{get_type,transaction_id,data_length}",
                                "",
                                w,
                                format!("class {} method {:#x} tid {} len {}", rp.class, rp.method, hex(&rp.tid), rp.declared),
                                format!("class {c} method {m:#x} tid {} len {dl}", hex(&tid)),
                            );
                        }
                    }
                    Err(e) => {
                        if !not_stun || !matches!(e, StunParseError::NotStun) {
                            ctx.violation(
                                "C17",
                                "header-accept-iff",
                                "MessageHeader::from_bytes",
                                if not_stun { "wrong-error" } else { "stun-refused" },
                                w,
                                if not_stun { "Err(NotStun)".into() } else { "Ok".into() },
                                format!("Err({e:?})"),
                            );
                        }
                    }
                }
            }
        }
    }
    // RawAttribute::from_bytes on the whole buffer and on the body
    for (label, slice) in [("RawAttribute::from_bytes", buf), ("RawAttribute::from_bytes(body)", if n > 20 { &buf[20..] } else { &buf[0..0] })] {
        ctx.wd.enter("RawAttribute::from_bytes", slice);
        let r = guard(|| {
            RawAttribute::from_bytes(slice).map(|a| (a.get_type().value(), a.length() as usize, a.value.len()))
        });
        ctx.wd.leave();
        match r {
            Err(p) => ctx.violation(
                "C01",
                "no-panic",
                "RawAttribute::from_bytes",
                if slice.len() < 4 { "len<4" } else { "len>=4" },
                || wit_bytes(label, slice, o),
                "value or error".into(),
                format!("panic: {} at {}", p.msg, p.loc),
            ),
            Ok(Ok((_t, l, vl))) => {
                // an accepted raw attribute's value lies inside the slice
                if slice.len() < 4 || l != vl || 4 + l > slice.len() {
                    ctx.violation(
                        "C02",
                        "raw-attr-bounds",
                        "RawAttribute::from_bytes",
                        "",
                        || wit_bytes(label, slice, o),
                        "value inside the slice".into(),
                        format!("declared {l} value {vl} slice {}", slice.len()),
                    );
                }
            }
            Ok(Err(_)) => {}
        }
    }
}

/// Reference verdict for attribute policing of a *request*: None | Some((code, unknown list))
pub fn ref_police(exposed_types: &[u16], supported: &[u16], required: &[u16]) -> Option<(u16, Vec<u16>)> {
    let unknown: Vec<u16> =
        exposed_types.iter().copied().filter(|t| *t < 0x8000 && !supported.contains(t)).collect();
    if !unknown.is_empty() {
        return Some((420, unknown));
    }
    if required.iter().any(|t| !exposed_types.contains(t)) {
        return Some((400, vec![]));
    }
    None
}

/// What the library says about one buffer, as a string: verdict, header fields, exposed attributes,
/// lookups of the sealing types, validation under the given credentials.  Used to check that these
/// answers are a function of the buffer alone (not of what was decoded before, nor of the thread).
pub fn outcome_digest(buf: &[u8], creds: &[RefCreds]) -> String {
    let r = guard(|| match Message::from_bytes(buf) {
        Err(e) => format!("Err({e:?})"),
        Ok(m) => {
            let mut s = format!("Ok {:?} {:#x} {}", m.class(), m.method(), hex(&imp::tid_to_bytes(m.transaction_id())));
            for a in m.iter_attributes().take(buf.len() / 4 + 2) {
                s.push_str(&format!(" {:#06x}/{}:{:08x}", a.get_type().value(), a.value.len(), crate::refimpl::crypto::crc32_fast(&a.value)));
            }
            for t in [MI, MI256, FP] {
                s.push_str(&format!(" has({t:#x})={}", m.has_attribute(AttributeType::new(t))));
            }
            for c in creds {
                s.push_str(&format!(" v={:?}", m.validate_integrity(&imp::to_impl_creds(c)).map_err(|e| err_name(&e))));
            }
            s
        }
    });
    r.unwrap_or_else(|p| format!("panic: {}", p.msg))
}

thread_local! {
    /// the last few buffers with the digest they produced when they were first decoded
    static RECENT: std::cell::RefCell<Vec<(Vec<u8>, Vec<RefCreds>, String)>> = const { std::cell::RefCell::new(Vec::new()) };
    static RECENT_CALLS: std::cell::Cell<u64> = const { std::cell::Cell::new(0) };
}

/// Every 257th buffer: the last eight buffers are decoded again, in reverse order, as the first
/// calls of a freshly spawned thread, and must give the answers they gave the first time.
fn history_independence(ctx: &mut Ctx, buf: &[u8], o: &Opts) {
    if cfg!(miri) || buf.len() > 4096 {
        return;
    }
    let n = RECENT_CALLS.with(|c| {
        c.set(c.get() + 1);
        c.get()
    });
    let record = n % 32 == 0 || n % 257 < 8;
    if record || buf.len() <= 64 {
        let d = outcome_digest(buf, &o.creds);
        // ... nor of whether anybody listens to the library's tracing events (a subscriber that enables
        // and formats everything): the same answers, and no panic in an argument that is only evaluated then
        let ev0 = crate::trace_sub::events() + crate::trace_sub::spans();
        let ds = crate::trace_sub::with_subscriber(|| outcome_digest(buf, &o.creds));
        ctx.count("decoded-again-under-a-tracing-subscriber");
        ctx.count_n("tracing-events-seen-under-the-subscriber", crate::trace_sub::events() + crate::trace_sub::spans() - ev0);
        if ds != d {
            let panicked = ds.starts_with("panic:");
            let tag = if panicked { "C01".to_string() } else if ["C02", "C04", "C09", "C10", "C17"].contains(&ctx.prop.as_str()) { ctx.prop.clone() } else { "C02".to_string() };
            let tag = if panicked && ["C02", "C17"].contains(&ctx.prop.as_str()) { ctx.prop.clone() } else { tag };
            ctx.violation(
                &tag,
                "answer-depends-only-on-the-buffer",
                "Message::from_bytes",
                if panicked { "panic-under-tracing-subscriber" } else { "tracing-subscriber" },
                || wit_bytes("under-tracing-subscriber", buf, o),
                d.chars().take(300).collect(),
                format!("with a tracing subscriber installed: {}", ds.chars().take(300).collect::<String>()),
            );
        }
        if record {
            RECENT.with(|r| {
                let mut r = r.borrow_mut();
                r.push((buf.to_vec(), o.creds.clone(), d));
                if r.len() > 8 {
                    r.remove(0);
                }
            });
        }
    }
    if n % 257 != 8 {
        return;
    }
    let batch: Vec<(Vec<u8>, Vec<RefCreds>, String)> = RECENT.with(|r| r.borrow().clone());
    if batch.len() < 2 {
        return;
    }
    let b2 = batch.clone();
    let again: Vec<String> = std::thread::spawn(move || b2.iter().rev().map(|(b, c, _)| outcome_digest(b, c)).collect()).join().unwrap_or_default();
    ctx.count("history-independence-batches");
    for ((b, c, first), second) in batch.iter().rev().zip(again.iter()) {
        if first != second {
            let tag = if ["C02", "C04", "C09", "C10", "C17"].contains(&ctx.prop.as_str()) { ctx.prop.clone() } else { "C02".to_string() };
            let oo = Opts { creds: c.clone(), ..Opts::default() };
            ctx.violation(
                &tag,
                "answer-depends-only-on-the-buffer",
                "Message::from_bytes",
                "other-history-or-thread",
                || wit_bytes("history-independence", b, &oo),
                first.chars().take(300).collect(),
                format!("decoded again first on a fresh thread, in another order: {}", second.chars().take(300).collect::<String>()),
            );
            break;
        }
    }
}

/// Everything about one buffer.  Returns what happened (for workload statistics).
pub fn check_buffer(ctx: &mut Ctx, buf: &[u8], o: &Opts) -> Outcome {
    // the whole case is a watchdog region: a call that does not return anywhere in the inspection of
    // this buffer (formatting, iteration adaptors, lookups ...) is attributed to the buffer
    let opened = ctx.wd.enter_case("inspect-all(Message::from_bytes, then every read-only operation)", buf);
    let out = check_buffer_inner(ctx, buf, o);
    ctx.wd.leave_case(opened);
    out
}

fn check_buffer_inner(ctx: &mut Ctx, buf: &[u8], o: &Opts) -> Outcome {
    history_independence(ctx, buf, o);
    let mut out = Outcome::default();
    let rp = ref_parse(buf);
    out.ref_accepted = rp.accepted() && rp.excess == 0;
    check_small_decoders(ctx, buf, &rp, o);

    ctx.wd.enter("Message::from_bytes", buf);
    let r = guard(|| Message::from_bytes(buf));
    ctx.wd.leave();
    let w = |entry: &str| wit_bytes(entry, buf, o);
    // C17: "the stand-alone header decoder accepts exactly the 20-byte prefixes the full parser would
    // not call non-STUN": a relation between the two entry points themselves, checked directly
    if buf.len() >= 20 {
        if let (Ok(full), Ok(hdr)) = (&r, guard(|| MessageHeader::from_bytes(&buf[..20]).is_ok())) {
            let full_not_stun = matches!(full, Err(StunParseError::NotStun));
            if hdr == full_not_stun {
                ctx.violation(
                    "C17",
                    "header-agrees-with-parser",
                    "MessageHeader::from_bytes",
                    if hdr { "header-accepts-what-parser-calls-not-stun" } else { "header-refuses-what-parser-does-not-call-not-stun" },
                    || w("MessageHeader::from_bytes"),
                    format!("header decoder ok = {}", !full_not_stun),
                    format!("header decoder ok = {hdr}; Message::from_bytes -> {}", match full { Ok(_) => "Ok".to_string(), Err(e) => format!("Err({e:?})") }),
                );
            }
            ctx.count("header-vs-parser-compared");
        }
    }
    // the TryFrom entry points are the same decoders under another name: same verdict, same error
    if let Ok(full) = &r {
        let alt = guard(|| <Message as TryFrom<&[u8]>>::try_from(buf).map(|m| (m.get_type().class() as u8, m.method(), imp::tid_to_bytes(m.transaction_id()))));
        let want = full.as_ref().map(|m| (m.get_type().class() as u8, m.method(), imp::tid_to_bytes(m.transaction_id()))).map_err(|e| format!("{e:?}"));
        match alt {
            Err(p) => ctx.violation("C01", "no-panic", "Message::try_from", "", || w("Message::try_from"), "value or error".into(), format!("panic: {} at {}", p.msg, p.loc)),
            Ok(a) => {
                let a = a.map_err(|e| format!("{e:?}"));
                if a != want {
                    let truncated = matches!(full, Err(StunParseError::Truncated { .. }));
                    ctx.violation(
                        if truncated { "C17" } else { "C02" },
                        "try-from-agrees-with-from-bytes",
                        "Message::try_from",
                        if truncated { "truncated" } else { "" },
                        || w("Message::try_from"),
                        format!("{want:?}"),
                        format!("{a:?}"),
                    );
                }
            }
        }
        if buf.len() >= 2 {
            let a = guard(|| (<MessageType as TryFrom<&[u8]>>::try_from(buf).map(|t| t.to_bytes()).ok(), MessageType::from_bytes(buf).map(|t| t.to_bytes()).ok()));
            if let Ok((x, y)) = a {
                if x != y {
                    ctx.violation("C19", "try-from-agrees-with-from-bytes", "MessageType::try_from", "", || w("MessageType::try_from"), format!("{y:?}"), format!("{x:?}"));
                }
            }
        }
    }
    let msg = match r {
        Err(p) => {
            out.impl_panicked = true;
            ctx.violation(
                "C01",
                "no-panic",
                "Message::from_bytes",
                if buf.len() > 65_555 { "len>65555" } else { "any" },
                || w("Message::from_bytes"),
                "value or error".into(),
                format!("panic: {} at {}", p.msg, p.loc),
            );
            return out;
        }
        Ok(Err(e)) => {
            out.err = Some(err_name(&e));
            if buf.len() <= 4096 {
                ctx.log_event(|| {
                    json!({"k": "parse", "buf": hex(buf), "ok": false, "err": err_name(&e),
                           "ref_ok": rp.causes.is_empty() && rp.excess == 0, "ref_excess": rp.excess,
                           "ref_causes": rp.causes.iter().map(cause_name).collect::<Vec<_>>()})
                });
            }
            ctx.count(&format!("reject:{}", err_name(&e).split(['(', ' ', '{']).next().unwrap_or("?")));
            if rp.excess > 0 && rp.causes.is_empty() {
                // a buffer with excess bytes may be refused with any variant
                ctx.count("excess-refused");
            } else if rp.causes.is_empty() {
                ctx.violation(
                    "C02",
                    "accept-iff",
                    "Message::from_bytes",
                    &format!("wellformed-refused:{}", err_name(&e).split(['(', ' ', '{']).next().unwrap_or("?")),
                    || w("Message::from_bytes"),
                    "Ok (the reference decoder accepts this buffer)".into(),
                    format!("Err({e:?})"),
                );
            } else if rp.excess == 0 && !rp.causes.iter().any(|c| cause_matches(&e, c)) {
                let names: Vec<String> = rp.causes.iter().map(|c| format!("{c:?}")).collect();
                ctx.violation(
                    "C02",
                    "reject-cause",
                    "Message::from_bytes",
                    &format!("ref={}", cause_name(&rp.causes[0])),
                    || w("Message::from_bytes"),
                    format!("one of {names:?}"),
                    format!("Err({e:?})"),
                );
            }
            return out;
        }
        Ok(Ok(m)) => m,
    };
    out.impl_accepted = true;
    ctx.count("accepted");
    if !rp.causes.is_empty() {
        // the reference rejects what the implementation accepted
        let feature = if rp.excess > 0 {
            format!("excess,ref={}", cause_name(&rp.causes[0]))
        } else {
            format!("ref={}", cause_name(&rp.causes[0]))
        };
        let names: Vec<String> = rp.causes.iter().map(|c| format!("{c:?}")).collect();
        ctx.violation(
            "C02",
            "accept-iff",
            "Message::from_bytes",
            &feature,
            || w("Message::from_bytes"),
            format!("Err: {names:?}"),
            "Ok".into(),
        );
        // keep inspecting for C01 (read-only operations on an accepted message must not panic)
    }
    if rp.excess > 0 {
        ctx.count("excess-accepted");
    }

    // ---- header fields (C02) ----
    let hdr = guard(|| {
        (
            class_num(msg.class()),
            msg.method(),
            imp::tid_to_bytes(msg.transaction_id()),
            class_num(msg.get_type().class()),
            msg.is_response(),
            msg.has_class(msg.class()),
            msg.has_method(msg.method()),
        )
    });
    match hdr {
        Err(p) => ctx.violation(
            "C01",
            "no-panic",
            "Message::{class,method,transaction_id}",
            "",
            || w("Message::class"),
            "value".into(),
            format!("panic: {} at {}", p.msg, p.loc),
        ),
        Ok((c, m, tid, c2, isr, hc, hm)) => {
            if c != rp.class || m != rp.method || tid != rp.tid || c2 != c || isr != (rp.class >= 2) || !hc || !hm {
                ctx.violation(
                    "C02",
                    "header-fields",
                    "Message::{class,method,transaction_id}",
                    "",
                    || w("Message::class"),
                    format!("class {} method {:#x} tid {}", rp.class, rp.method, hex(&rp.tid)),
                    format!("class {c} method {m:#x} tid {} is_response {isr}", hex(&tid)),
                );
            }
        }
    }

    // ---- iteration (C01 bounded, C02 faithful, C10 exposure) ----
    let max_items = buf.len() / 4 + 2;
    let mut exposed: Vec<(u16, Vec<u8>)> = vec![];
    let mut after_none: Vec<(u16, Vec<u8>)> = vec![];
    {
        let mut it = msg.iter_attributes();
        let mut nones = 0;
        let mut steps = 0;
        loop {
            steps += 1;
            ctx.wd.enter("MessageAttributesIter::next", buf);
            let r = guard(|| it.next().map(|a| (a.get_type().value(), a.value.to_vec(), a.length())));
            ctx.wd.leave();
            match r {
                Err(p) => {
                    ctx.violation(
                        "C01",
                        "no-panic",
                        "MessageAttributesIter::next",
                        "",
                        || w("iter_attributes"),
                        "Some or None".into(),
                        format!("panic: {} at {}", p.msg, p.loc),
                    );
                    break;
                }
                Ok(None) => {
                    nones += 1;
                    if nones > 4 {
                        break;
                    }
                }
                Ok(Some((t, v, l))) => {
                    if l as usize != v.len() {
                        ctx.violation(
                            "C02",
                            "attr-length",
                            "RawAttribute::length",
                            "",
                            || w("iter_attributes"),
                            format!("{}", v.len()),
                            format!("{l}"),
                        );
                    }
                    if nones == 0 {
                        exposed.push((t, v));
                    } else {
                        after_none.push((t, v));
                    }
                }
            }
            if steps > max_items + 6 {
                ctx.violation(
                    "C01",
                    "iterator-bounded",
                    "MessageAttributesIter::next",
                    "",
                    || w("iter_attributes"),
                    format!("at most {max_items} items for a {}-byte message", buf.len()),
                    format!("{steps} calls without exhausting"),
                );
                break;
            }
        }
    }
    out.exposed_types = exposed.iter().map(|e| e.0).collect();
    // The reference walk of the bytes inside the declared length.  When the reference rejected
    // for a structural cause its walk is partial; ordering/CRC causes leave the walk complete.
    let ref_attrs: Vec<(u16, &[u8])> = rp.attrs.iter().map(|a| (a.ty, a.value(buf))).collect();
    let ref_exposed_idx = expose(&rp.attrs);
    let ref_exposed: Vec<(u16, &[u8])> = ref_exposed_idx.iter().map(|i| ref_attrs[*i]).collect();
    let fmt_seq = |s: &[(u16, Vec<u8>)]| -> String {
        s.iter().map(|(t, v)| format!("{t:#06x}/{}", v.len())).collect::<Vec<_>>().join(",")
    };
    let fmt_seq_r = |s: &[(u16, &[u8])]| -> String {
        s.iter().map(|(t, v)| format!("{t:#06x}/{}", v.len())).collect::<Vec<_>>().join(",")
    };
    {
        // C02: exposed attributes are an in-order subsequence of the encoded TLVs (inside the
        // declared length), identical type and value bytes; the prefix up to and including the first
        // integrity attribute is exactly the encoded one.
        let mut j = 0;
        let mut ok = true;
        for (t, v) in &exposed {
            let mut found = false;
            while j < ref_attrs.len() {
                let (rt, rv) = ref_attrs[j];
                j += 1;
                if rt == *t && rv == v.as_slice() {
                    found = true;
                    break;
                }
            }
            if !found {
                ok = false;
                break;
            }
        }
        let first_int = ref_attrs.iter().position(|a| a.0 == MI || a.0 == MI256);
        let prefix_len = first_int.map(|i| i + 1).unwrap_or(ref_attrs.len());
        let prefix_ok = exposed.len() >= prefix_len
            && exposed[..prefix_len].iter().zip(ref_attrs[..prefix_len].iter()).all(|(a, b)| a.0 == b.0 && a.1.as_slice() == b.1);
        if !ok || !prefix_ok {
            let feature = if rp.excess > 0 && exposed.len() > ref_attrs.len() {
                "excess-interpreted".to_string()
            } else if !ok {
                "not-a-subsequence".to_string()
            } else {
                "prefix-differs".to_string()
            };
            ctx.violation(
                "C02",
                "faithful-attributes",
                "iter_attributes",
                &feature,
                || w("iter_attributes"),
                format!("encoded (inside declared length): [{}]", fmt_seq_r(&ref_attrs)),
                format!("exposed: [{}]", fmt_seq(&exposed)),
            );
        }
    }
    if buf.len() <= 4096 {
        ctx.log_event(|| {
            json!({"k": "parse", "buf": hex(buf), "ok": true, "err": Value::Null,
                   "ref_ok": rp.causes.is_empty() && rp.excess == 0, "ref_excess": rp.excess,
                   "ref_causes": rp.causes.iter().map(cause_name).collect::<Vec<_>>(),
                   "class": rp.class, "method": rp.method, "tid": hex(&rp.tid),
                   "exposed": exposed.iter().map(|(t, v)| json!([t, hex(v)])).collect::<Vec<_>>(),
                   "ref_exposed": ref_exposed.iter().map(|(t, v)| json!([t, hex(v)])).collect::<Vec<_>>()})
        });
    }
    // C10 speaks about every message the implementation accepts.  The rule is evaluated on the
    // reference walk whenever that walk is complete: always when the reference accepts, and also
    // when it rejects for ordering / CRC causes only (its walk then still covers the whole body).
    let ref_walk_complete = rp.excess == 0
        && rp.attrs.last().map_or(buf.len() == 20 && rp.declared == 0, |a| a.padded_end() == 20 + rp.declared)
        && rp.causes.iter().all(|c| !matches!(c, Cause::Truncated { .. } | Cause::NotStun));
    if !rp.causes.is_empty() && ref_walk_complete {
        let same = exposed.len() == ref_exposed.len() && exposed.iter().zip(ref_exposed.iter()).all(|(a, b)| a.0 == b.0 && a.1.as_slice() == b.1);
        // exposing *less* than the rule on a message that should not have been accepted at all is
        // C02's business; exposing something located after an integrity attribute is C10's
        let first_int = ref_attrs.iter().position(|a| a.0 == MI || a.0 == MI256);
        let leaked = first_int.map_or(false, |fi| {
            exposed.iter().any(|(t, v)| {
                *t != MI && *t != MI256 && *t != FP && !ref_attrs[..=fi].iter().any(|(rt, rv)| rt == t && *rv == v.as_slice()) && ref_attrs[fi + 1..].iter().any(|(rt, rv)| rt == t && *rv == v.as_slice())
            })
        });
        if !same && leaked {
            ctx.violation(
                "C10",
                "exposure",
                "iter_attributes",
                &format!("wrongly-accepted,{}", tail_shape(buf, &rp.attrs)),
                || w("iter_attributes"),
                format!("nothing located after the first integrity attribute except MI-SHA256 / FINGERPRINT: [{}]", fmt_seq_r(&ref_exposed)),
                format!("[{}]", fmt_seq(&exposed)),
            );
        }
    }
    if rp.causes.is_empty() {
        // C10: exposure rule
        let same = exposed.len() == ref_exposed.len()
            && exposed.iter().zip(ref_exposed.iter()).all(|(a, b)| a.0 == b.0 && a.1.as_slice() == b.1);
        if !same {
            ctx.violation(
                "C10",
                "exposure",
                "iter_attributes",
                &tail_shape(buf, &rp.attrs),
                || w("iter_attributes"),
                format!("[{}]", fmt_seq_r(&ref_exposed)),
                format!("[{}]", fmt_seq(&exposed)),
            );
        }
        for (t, v) in &after_none {
            if !ref_exposed.iter().any(|(rt, rv)| rt == t && *rv == v.as_slice()) {
                ctx.violation(
                    "C10",
                    "exposure-after-none",
                    "iter_attributes",
                    &tail_shape(buf, &rp.attrs),
                    || w("iter_attributes"),
                    "nothing outside the exposure rule, even after None".into(),
                    format!("yielded {t:#06x}/{} after None", v.len()),
                );
            }
        }
        if !after_none.is_empty() {
            ctx.count("iterator-yielded-after-none");
        }
        ctx.set_insert("tails", tail_shape(buf, &rp.attrs));
    }

    // ---- every other way of driving the iterator exposes the same sequence (C10: "exposed by
    //      iteration"): skip / nth / step_by / last / count / fold / by_ref+take, which an
    //      implementation may specialise, must agree with plain next() ----
    {
        let n = exposed.len();
        let first_int = exposed.iter().position(|e| e.0 == MI || e.0 == MI256);
        let mut ks: Vec<usize> = (0..=n.min(4)).collect();
        if let Some(fi) = first_int {
            ks.extend([fi.saturating_sub(1), fi, fi + 1, fi + 2]);
        }
        ks.extend([n.saturating_sub(1), n, n + 1]);
        ks.sort();
        ks.dedup();
        let pair = |a: RawAttribute| (a.get_type().value(), a.value.to_vec());
        let r = guard(|| {
            let mut bad: Vec<(String, String, String)> = vec![];
            let mut bad2: Vec<(String, String, String)> = vec![];
            let mut chk = |how: String, got: Vec<(u16, Vec<u8>)>, want: Vec<(u16, Vec<u8>)>| {
                if got != want && bad.len() < 2 {
                    bad.push((how, fmt_seq(&want), fmt_seq(&got)));
                }
            };
            for &k in &ks {
                chk(format!("skip({k})"), msg.iter_attributes().skip(k).take(n + 4).map(pair).collect(), exposed.iter().skip(k).cloned().collect());
                chk(format!("nth({k})"), msg.iter_attributes().nth(k).map(pair).into_iter().collect(), exposed.get(k).cloned().into_iter().collect());
                // nth(k) and then the rest
                let mut it = msg.iter_attributes();
                let _ = it.nth(k);
                chk(format!("nth({k})+rest"), it.take(n + 4).map(pair).collect(), exposed.iter().skip(k + 1).cloned().collect());
                // take(k) through by_ref and then the rest
                let mut it = msg.iter_attributes();
                let head: Vec<_> = it.by_ref().take(k).map(pair).collect();
                let rest: Vec<_> = it.take(n + 4).map(pair).collect();
                chk(format!("by_ref().take({k})+rest"), [head, rest].concat(), exposed.clone());
            }
            for step in [2usize, 3] {
                chk(format!("step_by({step})"), msg.iter_attributes().step_by(step).take(n + 4).map(pair).collect(), exposed.iter().step_by(step).cloned().collect());
            }
            chk("last()".into(), msg.iter_attributes().last().map(pair).into_iter().collect(), exposed.last().cloned().into_iter().collect());
            // consumers that ask for size_hint between elements (collect, extend, chain, zip, peekable),
            // and the hint itself after every element: lower bound <= what is left <= upper bound
            chk("collect()".into(), msg.iter_attributes().map(pair).collect::<Vec<_>>(), exposed.clone());
            chk("filter().collect()".into(), msg.iter_attributes().filter(|a| a.get_type().value() != 0xfffe).map(pair).collect::<Vec<_>>(), exposed.iter().filter(|e| e.0 != 0xfffe).cloned().collect());
            {
                let mut v: Vec<(u16, Vec<u8>)> = Vec::new();
                v.extend(msg.iter_attributes().map(pair));
                chk("extend()".into(), v, exposed.clone());
                let mut it = msg.iter_attributes();
                let mut left = n;
                let mut hints_ok = true;
                loop {
                    let (lo, hi) = it.size_hint();
                    if lo > left || hi.map_or(false, |h| h < left) {
                        hints_ok = false;
                    }
                    if it.next().is_none() {
                        break;
                    }
                    left = left.saturating_sub(1);
                }
                let (lo, _) = it.size_hint();
                if !hints_ok || lo != 0 {
                    bad2.push(("size_hint() between elements".into(), "lower <= remaining <= upper".into(), format!("violated (after the end: lower {lo})")));
                }
                chk("chain()".into(), msg.iter_attributes().chain(msg.iter_attributes()).map(pair).collect::<Vec<_>>(), [exposed.clone(), exposed.clone()].concat());
                chk("zip()".into(), msg.iter_attributes().zip(0..n + 3).map(|(a, _)| pair(a)).collect::<Vec<_>>(), exposed.clone());
                let mut pk = msg.iter_attributes().peekable();
                let mut got = vec![];
                while pk.peek().is_some() {
                    got.push(pair(pk.next().unwrap()));
                }
                chk("peekable()".into(), got, exposed.clone());
                chk("fuse()".into(), msg.iter_attributes().fuse().map(pair).collect::<Vec<_>>(), exposed.clone());
                chk("find()".into(), msg.iter_attributes().find(|a| a.get_type().value() == FP).map(pair).into_iter().collect(), exposed.iter().find(|e| e.0 == FP).cloned().into_iter().collect());
                let pos = msg.iter_attributes().position(|a| a.get_type().value() == FP);
                if pos != exposed.iter().position(|e| e.0 == FP) {
                    bad2.push(("position()".into(), format!("{:?}", exposed.iter().position(|e| e.0 == FP)), format!("{pos:?}")));
                }
            }
            let cnt = msg.iter_attributes().count();
            let folded = msg.iter_attributes().fold(0usize, |a, _| a + 1);
            let (lo, hi) = msg.iter_attributes().size_hint();
            if cnt != n || folded != n || lo > n || hi.map_or(false, |h| h < n) {
                bad.push(("count/fold/size_hint".into(), format!("{n} items"), format!("count {cnt} fold {folded} size_hint ({lo}, {hi:?})")));
            }
            bad.extend(bad2);
            bad
        });
        match r {
            Err(p) => ctx.violation("C01", "no-panic", "MessageAttributesIter adaptors", "", || w("iter_attributes"), "values".into(), format!("panic: {} at {}", p.msg, p.loc)),
            Ok(bad) => {
                ctx.count_n("iterator-adaptor-comparisons", ks.len() as u64 * 4 + 4);
                for (how, want, got) in bad {
                    let tag = if ctx.prop == "C02" || ctx.prop == "C03" { ctx.prop.clone() } else { "C10".to_string() };
                    ctx.violation(
                        &tag,
                        "exposure-by-any-iteration",
                        "iter_attributes",
                        &format!("{},{}", how.split('(').next().unwrap_or(""), tail_shape(buf, &rp.attrs)),
                        || w("iter_attributes"),
                        format!("{how} agrees with plain next(): [{want}]"),
                        format!("[{got}]"),
                    );
                }
            }
        }
    }

    // ---- lookups (C02: first match among the exposed; C10: nothing hidden is found) ----
    let mut types: Vec<u16> = rp.attrs.iter().map(|a| a.ty).collect();
    types.extend_from_slice(&[MI, MI256, FP, 0x8022, 0x7f01]);
    let types = dedup(&types);
    for t in &types {
        let r = guard(|| {
            let ra = msg.raw_attribute(AttributeType::new(*t)).map(|a| (a.get_type().value(), a.value.to_vec()));
            let ha = msg.has_attribute(AttributeType::new(*t));
            (ra, ha)
        });
        match r {
            Err(p) => ctx.violation(
                "C01",
                "no-panic",
                "Message::{raw_attribute,has_attribute}",
                "",
                || w("raw_attribute"),
                "value".into(),
                format!("panic: {} at {}", p.msg, p.loc),
            ),
            Ok((ra, ha)) => {
                let first = exposed.iter().find(|e| e.0 == *t).cloned();
                if ra != first || ha != first.is_some() {
                    ctx.violation(
                        "C02",
                        "lookup-first-match",
                        "Message::{raw_attribute,has_attribute}",
                        "",
                        || w("raw_attribute"),
                        format!("type {t:#06x}: first exposed = {:?}", first.as_ref().map(|f| hex(&f.1))),
                        format!("raw_attribute = {:?}, has_attribute = {ha}", ra.as_ref().map(|f| hex(&f.1))),
                    );
                }
                if rp.causes.is_empty() {
                    let rfirst = ref_exposed.iter().find(|e| e.0 == *t);
                    if ra.as_ref().map(|x| x.1.as_slice()) != rfirst.map(|x| x.1) || ha != rfirst.is_some() {
                        ctx.violation(
                            "C10",
                            "lookup-exposure",
                            "Message::{raw_attribute,has_attribute}",
                            &tail_shape(buf, &rp.attrs),
                            || w("raw_attribute"),
                            format!("type {t:#06x}: {:?}", rfirst.map(|f| hex(f.1))),
                            format!("raw_attribute = {:?}, has_attribute = {ha}", ra.as_ref().map(|f| hex(&f.1))),
                        );
                    }
                }
            }
        }
    }

    // ---- typed extraction ×19 (C01 no-panic; C02 first match; C08 wrong-type refusal) ----
    if o.typed {
        for k in ALL_KINDS {
            let r = guard(|| imp::impl_msg_attribute(k, &msg).map(|x| x.map(|a| a.to_raw().value.to_vec())));
            match r {
                Err(p) => ctx.violation(
                    "C01",
                    "no-panic",
                    "Message::attribute",
                    k.name(),
                    || w("attribute"),
                    "value or error".into(),
                    format!("panic: {} at {}", p.msg, p.loc),
                ),
                Ok(res) => {
                    let first = exposed.iter().find(|e| e.0 == k.code());
                    match (first, &res) {
                        (None, Ok(None)) => {}
                        (None, other) => ctx.violation(
                            "C02",
                            "typed-lookup-missing",
                            "Message::attribute",
                            k.name(),
                            || w("attribute"),
                            "Err(MissingAttribute)".into(),
                            format!("{other:?}"),
                        ),
                        (Some((_, v)), res) => {
                            let rv = ref_decode(k, v, &rp.tid);
                            ctx.count(if rv.is_some() { "typed-extract-valid" } else { "typed-extract-invalid" });
                            // the value handed back must be the first occurrence's, not a later one's
                            if let Ok(Some(got_bytes)) = res {
                                let same_type: Vec<&Vec<u8>> = exposed.iter().filter(|e| e.0 == k.code()).map(|e| &e.1).collect();
                                if same_type.len() > 1 {
                                    ctx.count("typed-lookup-with-repeated-type");
                                    let canon = |x: &Vec<u8>| ref_decode(k, x, &rp.tid).and_then(|d| crate::refimpl::attrs::ref_encode(k, &d, &rp.tid));
                                    let first_c = canon(same_type[0]);
                                    let is_first = first_c.as_ref() == Some(got_bytes) || same_type[0] == got_bytes;
                                    let later = same_type[1..].iter().any(|x| canon(x).as_ref() == Some(got_bytes) || *x == got_bytes);
                                    if !is_first && later {
                                        ctx.violation(
                                            "C02",
                                            "typed-lookup-first-match",
                                            "Message::attribute",
                                            &format!("{},later-occurrence-returned", k.name()),
                                            || w("attribute"),
                                            format!("the first exposed {} ({}), or its decoding error", k.name(), hex(same_type[0])),
                                            format!("a later occurrence: {}", hex(got_bytes)),
                                        );
                                    }
                                }
                            }
                            match (rv.is_some(), res) {
                                (true, Ok(Some(_))) | (false, Err(_)) => {}
                                (_, Ok(None)) => ctx.violation(
                                    "C02",
                                    "typed-lookup-first-match",
                                    "Message::attribute",
                                    k.name(),
                                    || w("attribute"),
                                    "the first exposed attribute of that type".into(),
                                    "MissingAttribute".into(),
                                ),
                                (want, got) => ctx.violation(
                                    "C08",
                                    "decode-accept-iff",
                                    "Message::attribute",
                                    k.name(),
                                    || w("attribute"),
                                    format!("decodes = {want}"),
                                    format!("{got:?}"),
                                ),
                            }
                        }
                    }
                }
            }
        }
        // every typed decoder on every exposed raw attribute
        let raws: Vec<RawAttribute> = {
            let mut v = vec![];
            let mut it = msg.iter_attributes();
            for _ in 0..exposed.len() {
                match guard(|| it.next()) {
                    Ok(Some(a)) => v.push(a),
                    _ => break,
                }
            }
            v
        };
        for raw in &raws {
            for k in ALL_KINDS {
                let r = guard(|| imp::impl_decode(k, raw, &rp.tid).map(|d| d.display_len));
                match r {
                    Err(p) => ctx.violation(
                        "C01",
                        "no-panic",
                        "AttributeFromRaw::from_raw",
                        k.name(),
                        || w("from_raw"),
                        "value or error".into(),
                        format!("panic: {} at {}", p.msg, p.loc),
                    ),
                    Ok(res) => {
                        if raw.get_type().value() != k.code() && res != Err(imp::DecErr::WrongImpl) {
                            ctx.violation(
                                "C08",
                                "wrong-type-refused",
                                "AttributeFromRaw::from_raw",
                                k.name(),
                                || w("from_raw"),
                                "Err(WrongAttributeImplementation)".into(),
                                format!("{res:?}"),
                            );
                        }
                    }
                }
            }
        }
    }

    // ---- integrity validation (C01 no-panic; C04 consistency; C10 covered range) ----
    for c in &o.creds {
        let ic = imp::to_impl_creds(c);
        ctx.wd.enter("Message::validate_integrity", buf);
        let r = guard(|| msg.validate_integrity(&ic));
        ctx.wd.leave();
        let wv = || {
            let mut v = w("validate_integrity");
            v["creds"] = json!([c.to_json()]);
            v
        };
        match r {
            Err(p) => {
                let int_end_max = rp
                    .attrs
                    .iter()
                    .filter(|a| a.ty == MI || a.ty == MI256)
                    .map(|a| a.off + 4 + a.len)
                    .max()
                    .unwrap_or(0);
                let feature = if int_end_max > 65_535 {
                    format!("integrity-end>65535,build={}", ctx.build)
                } else if buf.len() > 65_555 {
                    "len>65555".to_string()
                } else {
                    "any".to_string()
                };
                ctx.violation(
                    "C01",
                    "no-panic",
                    "Message::validate_integrity",
                    &feature,
                    wv,
                    "Ok or Err".into(),
                    format!("panic: {} at {}", p.msg, p.loc),
                );
            }
            Ok(res) => {
                if rp.causes.is_empty() {
                    let ri = ref_integrity(buf, &rp.attrs, c);
                    if buf.len() <= 4096 {
                        ctx.log_event(|| {
                            json!({"k": "validate", "buf": hex(buf), "cred": c.to_json(),
                                   "res": match &res { Ok(a) => format!("{a:?}"), Err(e) => err_name(e) },
                                   "ref": ri.attrs.iter().map(|(i, t, ok)| json!([i, t, ok])).collect::<Vec<_>>()})
                        });
                    }
                    match &res {
                        Ok(algo) => {
                            ctx.count("validate-ok");
                            let ty = if *algo == IntegrityAlgorithm::Sha1 { MI } else { MI256 };
                            if !ri.correct(ty) {
                                ctx.violation(
                                    "C04",
                                    "ok-implies-correct-attribute",
                                    "Message::validate_integrity",
                                    &tail_shape(buf, &rp.attrs),
                                    wv,
                                    format!("reference: {:?}", ri.attrs),
                                    format!("Ok({algo:?})"),
                                );
                            }
                            if let Some(li) = last_exposed_integrity(&rp.attrs) {
                                if ri.correct_at(li) == Some(false) {
                                    ctx.violation(
                                        "C04",
                                        "tampered-final-integrity-validates",
                                        "Message::validate_integrity",
                                        &tail_shape(buf, &rp.attrs),
                                        wv,
                                        format!("Err: the last exposed integrity attribute is not correct; reference: {:?}", ri.attrs),
                                        format!("Ok({algo:?})"),
                                    );
                                }
                            }
                            // C10: "every exposed attribute ... lies inside the byte range covered by the HMAC
                            // that validate_integrity checks".  Validation succeeded, so the HMAC it checked
                            // must be the one over everything before the exposed integrity attribute of that
                            // algorithm: if the reference says that attribute's HMAC is wrong, what was checked
                            // covers something else and exposed attributes lie outside it.
                            if let Some(ia) = rp.attrs.iter().find(|a| a.ty == ty) {
                                let exposed_ordinary_before = ref_exposed_idx.iter().map(|i| &rp.attrs[*i]).any(|a| a.ty != MI && a.ty != MI256 && a.ty != FP && a.off < ia.off);
                                if !ri.correct(ty) && exposed_ordinary_before {
                                    ctx.violation(
                                        "C10",
                                        "exposed-covered-by-validated-hmac",
                                        "Message::validate_integrity",
                                        &tail_shape(buf, &rp.attrs),
                                        wv,
                                        format!("Err: the HMAC over the bytes before the exposed {} at offset {} is not the one in the message", if ty == MI { "MESSAGE-INTEGRITY" } else { "MESSAGE-INTEGRITY-SHA256" }, ia.off),
                                        format!("Ok({algo:?}) with exposed attributes [{}]", fmt_seq(&exposed)),
                                    );
                                }
                            }
                            // C10: exposed ordinary attributes lie before the checked attribute
                            if let Some(ia) = rp.attrs.iter().find(|a| a.ty == ty) {
                                let bad = ref_exposed_idx.iter().map(|i| &rp.attrs[*i]).any(|a| {
                                    a.ty != MI && a.ty != MI256 && a.ty != FP && a.off >= ia.off
                                });
                                let impl_bad = exposed.iter().any(|(t, v)| {
                                    *t != MI && *t != MI256 && *t != FP
                                        && rp.attrs.iter().any(|a| a.ty == *t && a.value(buf) == v.as_slice() && a.off >= ia.off)
                                        && !rp.attrs.iter().any(|a| a.ty == *t && a.value(buf) == v.as_slice() && a.off < ia.off)
                                });
                                if bad || impl_bad {
                                    ctx.violation(
                                        "C10",
                                        "exposed-inside-hmac-range",
                                        "Message::validate_integrity",
                                        &tail_shape(buf, &rp.attrs),
                                        wv,
                                        format!("every exposed ordinary attribute before offset {}", ia.off),
                                        format!("[{}]", fmt_seq(&exposed)),
                                    );
                                }
                            }
                        }
                        Err(e) => {
                            ctx.count("validate-err");
                            if ri.none_present() {
                                let ok = matches!(e, StunParseError::MissingAttribute(t) if t.value() == MI);
                                if !ok {
                                    ctx.violation(
                                        "C04",
                                        "missing-integrity-reported",
                                        "Message::validate_integrity",
                                        "",
                                        wv,
                                        "Err(MissingAttribute(MESSAGE-INTEGRITY))".into(),
                                        format!("Err({e:?})"),
                                    );
                                }
                            } else if ri.all_correct() {
                                ctx.violation(
                                    "C04",
                                    "all-correct-validates",
                                    "Message::validate_integrity",
                                    &tail_shape(buf, &rp.attrs),
                                    wv,
                                    format!("Ok (every integrity attribute is correct: {:?})", ri.attrs),
                                    format!("Err({e:?})"),
                                );
                            }
                        }
                    }
                }
            }
        }
    }

    // ---- attribute policing (C01 all classes; C16 requests) ----
    for (sup, req) in &o.police {
        check_policing(ctx, buf, &msg, &rp, &out.exposed_types, sup, req, o);
    }

    // ---- formatting and the tracing-subscriber pass (C01) ----
    if o.deep {
        let r = guard(|| {
            let mut n = format!("{msg}").len() + format!("{msg:?}").len();
            for a in msg.iter_attributes().take(max_items) {
                n += format!("{a}").len() + format!("{a:?}").len();
            }
            n
        });
        match r {
            Err(p) => ctx.violation(
                "C01",
                "no-panic",
                "Display/Debug",
                "",
                || w("Display"),
                "formatted text".into(),
                format!("panic: {} at {}", p.msg, p.loc),
            ),
            Ok(n) => ctx.count_n("formatted-bytes", n as u64),
        }
        let before = trace_sub::formatted_bytes();
        let r = guard(|| {
            trace_sub::with_subscriber(|| {
                let m2 = Message::from_bytes(buf);
                if let Ok(m2) = m2 {
                    for c in &o.creds {
                        let _ = m2.validate_integrity(&imp::to_impl_creds(c));
                    }
                    for t in types.iter().take(6) {
                        let _ = m2.raw_attribute(AttributeType::new(*t));
                    }
                    for k in ALL_KINDS {
                        let _ = imp::impl_msg_attribute(k, &m2);
                    }
                    if m2.has_class(MessageClass::Request) {
                        for (sup, req) in &o.police {
                            let s: Vec<AttributeType> = sup.iter().map(|t| AttributeType::new(*t)).collect();
                            let r: Vec<AttributeType> = req.iter().map(|t| AttributeType::new(*t)).collect();
                            if let Some(b) = Message::check_attribute_types(&m2, &s, &r) {
                                let _ = b.build();
                            }
                        }
                    }
                    let _ = format!("{m2}");
                }
            })
        });
        if let Err(p) = r {
            ctx.violation(
                "C01",
                "no-panic",
                "under-tracing-subscriber",
                "",
                || w("tracing"),
                "every operation returns".into(),
                format!("panic: {} at {}", p.msg, p.loc),
            );
        }
        ctx.count_n("tracing-formatted-bytes", trace_sub::formatted_bytes() - before);
    }

    let key = hash64(&[
        out.impl_accepted as u64,
        rp.attrs.len() as u64,
        hash_bytes(&rp.attrs.iter().flat_map(|a| [a.ty as u8, (a.ty >> 8) as u8, (a.len % 4) as u8]).collect::<Vec<u8>>()),
        (buf.len() % 4) as u64,
        rp.excess.min(9) as u64,
        hash_bytes(&buf[..buf.len().min(64)]),
    ]);
    ctx.distinct(key);
    out
}

#[allow(clippy::too_many_arguments)]
pub fn check_policing(
    ctx: &mut Ctx,
    buf: &[u8],
    msg: &Message,
    rp: &RefParse,
    exposed_types: &[u16],
    sup: &[u16],
    req: &[u16],
    o: &Opts,
) {
    let s: Vec<AttributeType> = sup.iter().map(|t| AttributeType::new(*t)).collect();
    let rq: Vec<AttributeType> = req.iter().map(|t| AttributeType::new(*t)).collect();
    let wv = || {
        let mut v = wit_bytes("check_attribute_types", buf, o);
        v["police"] = json!([[sup, req]]);
        v
    };
    ctx.wd.enter("Message::check_attribute_types", buf);
    let r = guard(|| Message::check_attribute_types(msg, &s, &rq).map(|b| b.build()));
    ctx.wd.leave();
    let is_request = rp.class == 0;
    match r {
        Err(p) => ctx.violation(
            "C01",
            "no-panic",
            "Message::check_attribute_types",
            if is_request { "class=request" } else { "class!=request" },
            wv,
            "Some(response) or None".into(),
            format!("panic: {} at {}", p.msg, p.loc),
        ),
        Ok(res) => {
            if !is_request || !rp.causes.is_empty() {
                return;
            }
            ctx.count("policed");
            let want = ref_police(exposed_types, sup, req);
            // C10: policing is one more way attributes are "exposed".  If the answer is the one the rule
            // gives for ALL attributes of the message (hidden ones included) and not the one for the
            // exposed ones, something located after an integrity attribute leaked through this entry point.
            {
                let all_types: Vec<u16> = rp.attrs.iter().map(|a| a.ty).collect();
                if all_types.len() != exposed_types.len() {
                    ctx.count("policed-with-hidden-attributes");
                    let alt = ref_police(&all_types, sup, req);
                    if alt != want {
                        let got_code: Option<u16> = res.as_ref().and_then(|b| {
                            let rr = ref_parse(b);
                            rr.attrs.iter().find(|a| a.ty == 0x0009).and_then(|a| match ref_decode(Kind::ErrorCode, a.value(b), &rr.tid) {
                                Some(RefVal::Error { code, .. }) => Some(code),
                                _ => None,
                            })
                        });
                        let got_list: Option<Vec<u16>> = res.as_ref().and_then(|b| {
                            let rr = ref_parse(b);
                            rr.attrs.iter().find(|a| a.ty == 0x000A).and_then(|a| match ref_decode(Kind::UnknownAttributes, a.value(b), &rr.tid) {
                                Some(RefVal::TypeList(l)) => Some(dedup(&l)),
                                _ => None,
                            })
                        });
                        let matches = |v: &Option<(u16, Vec<u16>)>| match v {
                            None => res.is_none(),
                            Some((c, l)) => got_code == Some(*c) && (*c != 420 || got_list.as_ref() == Some(&dedup(l))),
                        };
                        if matches(&alt) && !matches(&want) {
                            ctx.violation(
                                "C10",
                                "policing-sees-only-exposed-attributes",
                                "Message::check_attribute_types",
                                &tail_shape(buf, &rp.attrs),
                                wv,
                                format!("the verdict for the exposed attributes: {want:x?}"),
                                format!("the verdict for all attributes, hidden ones included: {alt:x?}"),
                            );
                        }
                    }
                }
            }
            match (&want, &res) {
                (None, None) => ctx.count("police-none"),
                (Some((code, unknown)), Some(bytes)) => {
                    ctx.count(if *code == 420 { "police-420" } else { "police-400" });
                    let rr = ref_parse(bytes);
                    let mut problems = vec![];
                    if !rr.accepted() || rr.excess != 0 {
                        problems.push(format!("response does not parse: {:?}", rr.causes));
                    } else {
                        match guard(|| {
                            Message::from_bytes(bytes).map(|m| {
                                // read back through the typed accessors: what they report is what the wire holds
                                let ec = m.attribute::<stun_types::attribute::ErrorCode>().ok().map(|e| e.code());
                                let ua = m.attribute::<stun_types::attribute::UnknownAttributes>().ok().map(|u| {
                                    let raw = stun_types::attribute::AttributeWrite::to_raw(&u);
                                    (raw.value.chunks_exact(2).map(|c| ((c[0] as u16) << 8) | c[1] as u16).collect::<Vec<u16>>(), format!("{u}").len())
                                });
                                (ec, ua, m.has_class(MessageClass::Error), m.method(), m.transaction_id())
                            })
                        }) {
                            Ok(Ok((ec, ua, is_err, method, tid))) => {
                                if ec != Some(*code) || !is_err || method != rp.method || imp::tid_to_bytes(tid) != rp.tid {
                                    problems.push(format!("read back through the typed API: ERROR-CODE {ec:?}, error class {is_err}, method {method:#x}"));
                                }
                                let wire_list = rr.attrs.iter().find(|a| a.ty == 0x000A).and_then(|a| match ref_decode(Kind::UnknownAttributes, a.value(bytes), &rr.tid) {
                                    Some(RefVal::TypeList(l)) => Some(l),
                                    _ => None,
                                });
                                if ua.as_ref().map(|u| &u.0) != wire_list.as_ref() {
                                    problems.push(format!("UNKNOWN-ATTRIBUTES read back through the typed API {:x?}, on the wire {wire_list:x?}", ua.map(|u| u.0)));
                                }
                            }
                            Ok(Err(_)) => problems.push("response refused by Message::from_bytes".to_string()),
                            Err(p) => problems.push(format!("panic while reading the response back: {} at {}", p.msg, p.loc)),
                        }
                        if rr.class != 3 {
                            problems.push(format!("class {} (want error)", rr.class));
                        }
                        if rr.method != rp.method {
                            problems.push(format!("method {:#x} (want {:#x})", rr.method, rp.method));
                        }
                        if rr.tid != rp.tid {
                            problems.push("transaction id differs".to_string());
                        }
                        let ec = rr.attrs.iter().find(|a| a.ty == 0x0009).and_then(|a| ref_decode(Kind::ErrorCode, a.value(bytes), &rr.tid));
                        match ec {
                            Some(RefVal::Error { code: c, .. }) if c == *code => {}
                            other => problems.push(format!("ERROR-CODE {other:?} (want {code})")),
                        }
                        if *code == 420 {
                            let ua = rr.attrs.iter().find(|a| a.ty == 0x000A).and_then(|a| ref_decode(Kind::UnknownAttributes, a.value(bytes), &rr.tid));
                            match ua {
                                Some(RefVal::TypeList(l)) if dedup(&l) == dedup(unknown) => {}
                                other => problems.push(format!("UNKNOWN-ATTRIBUTES {other:x?} (want {:x?})", dedup(unknown))),
                            }
                        }
                    }
                    if !problems.is_empty() {
                        ctx.violation(
                            "C16",
                            "police-response",
                            "Message::check_attribute_types",
                            &format!("code={code}"),
                            wv,
                            format!("error response {code} for method {:#x}", rp.method),
                            problems.join("; "),
                        );
                    }
                }
                (want, got) => ctx.violation(
                    "C16",
                    "police-verdict",
                    "Message::check_attribute_types",
                    &format!("want={}", want.as_ref().map(|w| w.0.to_string()).unwrap_or("none".into())),
                    wv,
                    format!("{want:x?}"),
                    format!("{}", got.as_ref().map(|b| format!("Some({})", hex(b))).unwrap_or("None".into())),
                ),
            }
        }
    }
}

pub fn replay(ctx: &mut Ctx, w: &Value) -> Result<(), String> {
    let buf = crate::refimpl::crypto::unhex(w.get("buf").and_then(|b| b.as_str()).ok_or("buf")?).ok_or("hex")?;
    let o = opts_from_json(w);
    match w.get("entry").and_then(|e| e.as_str()).unwrap_or("") {
        "RawAttribute::from_bytes(body)" | "RawAttribute::from_bytes" | "MessageType::from_bytes" | "MessageHeader::from_bytes" => {
            // the recorded slice is the exact input of the small decoder
            let rp = ref_parse(&buf);
            check_small_decoders(ctx, &buf, &rp, &o);
            if buf.len() >= 20 {
                check_buffer(ctx, &buf, &o);
            }
        }
        _ => {
            check_buffer(ctx, &buf, &o);
        }
    }
    ctx.eval();
    Ok(())
}
