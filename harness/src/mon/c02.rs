//! C02 — the parser accepts exactly the well-formed messages and exposes them faithfully.

use super::codec::{self, check_buffer, Opts};
use super::streams::*;
use crate::ctx::{Ctx, Tier};
use crate::gen::msg::*;
use crate::refimpl::parse::*;
use serde_json::Value;

/// declared length vs buffer length: for a valid message, every declared - actual in -8..=+8 and
/// the extremes, plus every amount of excess 1..=12 (garbage and attribute-shaped).
pub fn declared_sweep(ctx: &mut Ctx, n: u64) {
    let mut rng = ctx.rng("declared-sweep", 0);
    for _ in 0..n {
        let (buf, g) = gen_valid_message(&mut rng, 4);
        if buf.len() > 4000 {
            continue;
        }
        let o = Opts { creds: vec![g.creds.clone()], police: vec![], deep: false, typed: false };
        let body = buf.len() as i64 - 20;
        for d in (-8i64..=8).chain([-(body), 0xffff - body, 400]) {
            let nl = body + d;
            if !(0..=0xffff).contains(&nl) {
                continue;
            }
            let mut b = buf.clone();
            set_len(&mut b, nl as usize);
            check_buffer(ctx, &b, &o);
            ctx.eval();
            ctx.count("declared-sweep");
        }
        for k in 1..=12usize {
            let mut b = buf.clone();
            b.extend(rng.bytes(k));
            check_buffer(ctx, &b, &o);
            let mut b2 = buf.clone();
            push_tlv(&mut b2, &Tlv::new(*rng.pick(&[0x8022u16, 0x7f01, MI, MI256, FP]), rng.bytes(4 * (k % 4))));
            check_buffer(ctx, &b2, &o);
            ctx.evals_n(2);
            ctx.count_n("excess-sweep", 2);
        }
    }
}

pub fn run(ctx: &mut Ctx) {
    let cfg = StreamCfg { deep: false, typed: true, npolice: 0 };
    let quick = ctx.tier == Tier::Quick;
    short_stream(ctx, &cfg, if quick { 4 } else { 100 });
    let n = ctx.n(900_000, 12_000_000);
    grammar_stream(ctx, &cfg, n, 6);
    skeleton_stream(ctx, &cfg, if quick { 3 } else { 5 });
    let nd = ctx.n(24_000, 300_000);
    declared_sweep(ctx, nd);
    let nb = ctx.n(1_600, 16_000);
    boundary_stream(ctx, &cfg, nb);
    ctx.require("accepted", 10_000);
    ctx.require("reject:NotStun", 100);
    ctx.require("reject:Truncated", 1_000);
    ctx.require("reject:AttributeAfterIntegrity", 50);
    ctx.require("reject:AttributeAfterFingerprint", 50);
    ctx.require("reject:FingerprintMismatch", 50);
    ctx.require("declared-sweep", 1_000);
    ctx.require("excess-sweep", 1_000);
    ctx.require("stream:skeleton", 1_000);
}

pub fn replay(ctx: &mut Ctx, w: &Value) -> Result<(), String> {
    codec::replay(ctx, w)
}
