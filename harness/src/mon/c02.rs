//! C02 — the parser accepts exactly the well-formed messages and exposes them faithfully.

use super::codec::{self, check_buffer, Opts};
use super::streams::*;
use crate::ctx::{Ctx, Tier};
use crate::gen::msg::*;
use crate::refimpl::parse::*;
use serde_json::Value;

/// declared length vs buffer length: for a valid message, every declared - actual in -8..=+8 and
/// the extremes, plus every amount of excess 1..=12 (garbage and attribute-shaped).
pub fn declared_sweep(ctx: &mut Ctx, n: u64) {
    let mut rng = ctx.rng("declared-sweep", 0);
    for _ in 0..n {
        let (buf, g) = gen_valid_message(&mut rng, 4);
        if buf.len() > 4000 {
            continue;
        }
        let o = Opts { creds: vec![g.creds.clone()], police: vec![], deep: false, typed: false };
        let body = buf.len() as i64 - 20;
        for d in (-8i64..=8).chain([-(body), 0xffff - body, 400]) {
            let nl = body + d;
            if !(0..=0xffff).contains(&nl) {
                continue;
            }
            let mut b = buf.clone();
            set_len(&mut b, nl as usize);
            check_buffer(ctx, &b, &o);
            ctx.eval();
            ctx.count("declared-sweep");
        }
        for k in 1..=12usize {
            let mut b = buf.clone();
            b.extend(rng.bytes(k));
            check_buffer(ctx, &b, &o);
            let mut b2 = buf.clone();
            push_tlv(&mut b2, &Tlv::new(*rng.pick(&[0x8022u16, 0x7f01, MI, MI256, FP]), rng.bytes(4 * (k % 4))));
            check_buffer(ctx, &b2, &o);
            ctx.evals_n(2);
            ctx.count_n("excess-sweep", 2);
            // an excess that is a multiple of 2^16 (a 16-bit comparison of the two sizes would not see it)
            if k == 1 && rng.chance(1, 24) {
                for big_k in [65_536usize, 131_072] {
                    let mut big = buf.clone();
                    big.resize(buf.len() + big_k, *rng.pick(&[0u8, 0x5a]));
                    check_buffer(ctx, &big, &o);
                    ctx.count("excess-multiple-of-65536");
                }
            }
        }
    }
}

/// Repeated attribute types: for each of the 19 built-in types, messages that carry it two or three
/// times in every valid / invalid combination (lookups, typed ones included, answer with the first).
pub fn repeated_types(ctx: &mut Ctx, reps: u64) {
    use crate::refimpl::attrs::ref_encode;
    use crate::refimpl::parse::{encode, Tlv};
    let mut rng = ctx.rng("repeated-types", 0);
    let mut gi = 0u64;
    for k in crate::gen::msg::all_kinds().iter().copied() {
        if matches!(k.code(), 0x0008 | 0x001c | 0x8028) {
            continue; // the sealing types cannot be repeated in an accepted message
        }
        for rep in 0..reps {
            for pattern in 0..8u32 {
                gi += 1;
                if !ctx.mine(gi) {
                    continue;
                }
                let tid = crate::gen::msg::gen_tid(&mut rng);
                let n = if pattern < 4 { 2 } else { 3 };
                let mut tlvs = vec![];
                if rep % 2 == 1 {
                    tlvs.push(Tlv::new(0x7f33, rng.bytes(3)));
                }
                for j in 0..n {
                    let valid = pattern >> j & 1 == 1;
                    let v = if valid {
                        let rv = crate::gen::vals::gen_refval(&mut rng, k);
                        ref_encode(k, &rv, &tid).unwrap()
                    } else {
                        // wrong length for the fixed-size types, invalid UTF-8 for the text ones
                        match k.text_limit() {
                            Some(_) => vec![b'a', 0xff, 0xfe, b'z'],
                            None => {
                                let l = *rng.pick(&[1usize, 3, 5, 7, 13]);
                                rng.bytes(l)
                            }
                        }
                    };
                    tlvs.push(Tlv::new(k.code(), v));
                    if rep % 3 == 2 {
                        tlvs.push(Tlv::new(0xff44 + j as u16, rng.bytes(2)));
                    }
                }
                let buf = encode((rep % 4) as u8, 1, &tid, &tlvs);
                let o = Opts { typed: true, ..Opts::default() };
                check_buffer(ctx, &buf, &o);
                ctx.eval();
                ctx.count("repeated-type-messages");
                if pattern == 2 && rep == 0 && k.code() == 0x0024 {
                    ctx.sample("repeated-type", || codec::wit_bytes("Message::attribute", &buf, &o));
                }
            }
        }
    }
}

pub fn run(ctx: &mut Ctx) {
    let cfg = StreamCfg { deep: false, typed: true, npolice: 0 };
    let quick = ctx.tier == Tier::Quick;
    short_stream(ctx, &cfg, if quick { 4 } else { 100 });
    let n = ctx.n(900_000, 12_000_000);
    grammar_stream(ctx, &cfg, n, 6);
    let nr = ctx.n(4_000, 80_000);
    realistic_stream(ctx, &cfg, nr, 6);
    ctx.require("stream:realistic", 1_000);
    skeleton_stream(ctx, &cfg, if quick { 3 } else { 5 });
    let nd = ctx.n(24_000, 300_000);
    declared_sweep(ctx, nd);
    let nb = ctx.n(1_600, 16_000);
    boundary_stream(ctx, &cfg, nb);
    repeated_types(ctx, if quick { 8 } else { 200 });
    ctx.require("repeated-type-messages", 500);
    ctx.require("typed-lookup-with-repeated-type", 500);
    ctx.require("tracing-events-seen-under-the-subscriber", 1_000);
    ctx.require("accepted", 10_000);
    ctx.require("reject:NotStun", 100);
    ctx.require("reject:Truncated", 1_000);
    ctx.require("reject:AttributeAfterIntegrity", 50);
    ctx.require("reject:AttributeAfterFingerprint", 50);
    ctx.require("reject:FingerprintMismatch", 50);
    ctx.require("declared-sweep", 1_000);
    ctx.require("excess-sweep", 1_000);
    ctx.require("excess-multiple-of-65536", 20);
    ctx.require("stream:skeleton", 1_000);
}

pub fn replay(ctx: &mut Ctx, w: &Value) -> Result<(), String> {
    codec::replay(ctx, w)
}
