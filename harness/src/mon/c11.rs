//! C11 — builder ordering rules hold and refused operations leave no trace.

use super::builder::*;
use crate::ctx::{guard, hash64, Ctx, Tier};
use crate::imp;
use crate::refimpl::attrs::*;
use crate::refimpl::crypto::hex;
use crate::refimpl::parse::*;
use serde_json::{json, Value};
use stun_types::attribute::{AttributeType, AttributeWrite, RawAttribute};
use stun_types::message::{IntegrityAlgorithm, Message, MessageBuilder, StunWriteError};

#[derive(Clone, Copy, Debug, PartialEq, Eq)]
pub enum Op {
    /// add typed attribute #i of the pool (i in 0..3 for the enumerated alphabet)
    Typed(u8),
    /// add raw attribute #i of the raw pool
    Raw(u8),
    /// add again the type of the most recently added ordinary attribute (typed or raw)
    Dup,
    Sha1,
    Sha256,
    /// SHA-256 integrity under *other* credentials than the ones the Sha1 / Sha256 operations use
    Sha256Other,
    Fp,
    IntoOwned,
    Clone,
    /// `Clone::clone_from` into another builder (alternately one holding more attributes than this
    /// one, sealed, and an empty one); the destination replaces the builder
    CloneFrom,
}

impl Op {
    fn name(self) -> String {
        match self {
            Op::Typed(i) => format!("typed{i}"),
            Op::Raw(i) => format!("raw{i}"),
            Op::Dup => "dup".into(),
            Op::Sha1 => "sha1".into(),
            Op::Sha256 => "sha256".into(),
            Op::Sha256Other => "sha256-other-credentials".into(),
            Op::Fp => "fp".into(),
            Op::IntoOwned => "into_owned".into(),
            Op::Clone => "clone".into(),
            Op::CloneFrom => "clone_from".into(),
        }
    }
    fn from_name(s: &str) -> Option<Op> {
        Some(match s {
            "dup" => Op::Dup,
            "sha1" => Op::Sha1,
            "sha256" => Op::Sha256,
            "sha256-other-credentials" => Op::Sha256Other,
            "fp" => Op::Fp,
            "into_owned" => Op::IntoOwned,
            "clone" => Op::Clone,
            "clone_from" => Op::CloneFrom,
            s if s.starts_with("typed") => Op::Typed(s[5..].parse().ok()?),
            s if s.starts_with("raw") => Op::Raw(s[3..].parse().ok()?),
            _ => return None,
        })
    }
}

/// fixed pools: typed pool of 20 distinct kinds/values, raw pool of 20 distinct unknown types
fn typed_pool() -> Vec<(Kind, RefVal)> {
    let mut rng = crate::prng::Rng::new(0xC11);
    let mut v = vec![
        (Kind::Software, RefVal::Text("stunmon".into())),
        (Kind::Username, RefVal::Text("u:ser".into())),
        (Kind::Priority, RefVal::U32(0x6e0001ff)),
    ];
    for k in ordinary_kinds() {
        if !v.iter().any(|x| x.0 == k) {
            v.push((k, crate::gen::vals::gen_refval(&mut rng, k)));
        }
    }
    v
}
fn raw_pool() -> &'static Vec<(u16, Vec<u8>)> {
    static POOL: std::sync::OnceLock<Vec<(u16, Vec<u8>)>> = std::sync::OnceLock::new();
    POOL.get_or_init(make_raw_pool)
}
fn make_raw_pool() -> Vec<(u16, Vec<u8>)> {
    let mut v: Vec<(u16, Vec<u8>)> = (0..24u16).map(|i| (if i % 2 == 0 { 0x7f20 + i } else { 0xff20 + i }, vec![i as u8; (i as usize * 3) % 11])).collect();
    // boundary type codes: the reserved 0x0000 (the value of a default-initialised AttributeType),
    // the extremes, the comprehension boundary, and the neighbours of the sealing types
    // 0x0008 / 0x001c / 0x8028 (index 24 onwards; index 24 is in the enumerated alphabet)
    for (j, t) in [0x0000u16, 0xffff, 0x7fff, 0x8000, 0x0007, 0x001b, 0x001d, 0x8027, 0x8029].into_iter().enumerate() {
        v.push((t, vec![0xE0 + j as u8; (j * 5) % 7]));
    }
    // attributes that say something about the credentials, carried raw (index 33 onwards):
    // PASSWORD-ALGORITHM selecting SHA-256, USERHASH
    v.push((0x001d, vec![0, 2, 0, 0]));
    v.push((0x001e, vec![0x5a; 32]));
    // a relayed message's tail: the value ends in what looks like a FINGERPRINT attribute (index 35)
    v.push((0x0013, [&[0x00u8, 0x01, 0x00, 0x08, 0x21, 0x12, 0xa4, 0x42, 1, 2, 3, 4, 5, 6, 7, 8, 9, 10, 11, 12][..], &[0x80, 0x28, 0x00, 0x04, 0xde, 0xad, 0xbe, 0xef][..]].concat()));
    // large attributes whose length is not a multiple of four (index 36 onwards): beyond any small
    // scratch buffer a sealing step might stream the message through (257 / 301 / 1025 / 4098 / 16385
    // bytes), next to the small ones above
    for (j, n) in [257usize, 301, 1025, 4098, 16_385, 259].into_iter().enumerate() {
        v.push((0x7e60 + j as u16, (0..n).map(|i| (i * 7 + j + 1) as u8 | 1).collect()));
    }
    v
}

#[derive(Clone, Debug, Default)]
struct Model {
    /// the MESSAGE-INTEGRITY-SHA256 was added under the other credentials
    sha256_other: bool,
    types: Vec<u16>,
    values: Vec<Vec<u8>>, // wire values of ordinary attributes, in order (sealing values unknown)
}

impl Model {
    fn has(&self, t: u16) -> bool {
        self.types.contains(&t)
    }
    fn sealed(&self) -> bool {
        self.has(MI) || self.has(MI256) || self.has(FP)
    }
}

fn wit(ops: &[Op], creds: &RefCreds) -> Value {
    json!({"kind": "builder-ops", "ops": ops.iter().map(|o| o.name()).collect::<Vec<_>>(), "creds": creds.to_json()})
}

struct Snapshot {
    bytes: Vec<u8>,
    byte_len: usize,
    has: Vec<bool>,
    any: Option<u16>,
}

fn snapshot(b: &MessageBuilder, universe: &[u16]) -> Snapshot {
    Snapshot {
        bytes: b.build(),
        byte_len: b.byte_len(),
        has: universe.iter().map(|t| b.has_attribute(AttributeType::new(*t))).collect(),
        any: b.has_any_attribute(&universe.iter().map(|t| AttributeType::new(*t)).collect::<Vec<_>>()).map(|t| t.value()),
    }
}

pub fn check_ops(ctx: &mut Ctx, ops: &[Op], creds: &RefCreds) {
    check_ops_from(ctx, 0, ops, creds)
}

/// `start` selects how the builder comes into being: 0 = `Message::builder`, 1 = `builder_success`,
/// 2 = `builder_error`, 3 = `bad_request`, 4 = `unknown_attributes` (the canned responses arrive with
/// attributes already in them; the rules and the queries apply to those just the same), 5 / 6 / 7 =
/// `Message::builder` of class indication / success / error.
struct OpsCase<'a>(u8, &'a [Op], &'a RefCreds);
impl crate::ctx::WitnessSrc for OpsCase<'_> {
    fn witness(&self) -> Value {
        let mut v = wit(self.1, self.2);
        v["start"] = json!(self.0);
        v
    }
}

pub fn check_ops_from(ctx: &mut Ctx, start: u8, ops: &[Op], creds: &RefCreds) {
    let case = OpsCase(start, ops, creds);
    let opened = ctx.wd.enter_case_src("builder-operations", &case);
    check_ops_from_inner(ctx, start, ops, creds);
    ctx.wd.leave_case(opened);
}

fn check_ops_from_inner(ctx: &mut Ctx, start: u8, ops: &[Op], creds: &RefCreds) {
    ctx.eval();
    let tpool = typed_pool();
    let rpool = raw_pool();
    let tid = [0x42u8; 12];
    let objs: Vec<Box<dyn AttributeWrite>> = tpool.iter().map(|(k, v)| imp::impl_construct(*k, v, &tid).expect("pool value constructible")).collect();
    let mut universe: Vec<u16> = tpool.iter().map(|x| x.0.code()).collect();
    universe.extend(rpool.iter().map(|x| x.0));
    universe.extend_from_slice(&[MI, MI256, FP, 0x0001]);
    let icreds = imp::to_impl_creds(creds);
    let creds_other = RefCreds::Short("the-other-credentials".into());
    let icreds_other = imp::to_impl_creds(&creds_other);
    let w = || {
        let mut v = wit(ops, creds);
        v["start"] = json!(start);
        v
    };
    // the request the canned responses answer
    let req_bytes = crate::refimpl::parse::encode(0, 1, &tid, &[crate::refimpl::parse::Tlv::new(0x7f01, vec![1]), crate::refimpl::parse::Tlv::new(0x7f02, vec![])]);
    let req = match Message::from_bytes(&req_bytes) {
        Ok(m) => m,
        Err(_) => return,
    };
    universe.extend_from_slice(&[0x0009, 0x000a, 0x8022]);
    universe.sort();
    universe.dedup();

    let res = guard(|| {
        let mut problems: Vec<(String, String, String, String)> = vec![]; // (assertion, feature, expected, observed)
        let p = Program { class: 0, method: 1, tid, attrs: vec![], seals: vec![], creds: creds.clone() };
        let mut b: MessageBuilder = match start {
            0 => new_builder(&p),
            // plain builders of the other three classes
            5..=7 => new_builder(&Program { class: start - 4, ..p.clone() }),
            1 => Message::builder_success(&req),
            2 => Message::builder_error(&req),
            3 => Message::bad_request(&req),
            _ => Message::unknown_attributes(&req, &[AttributeType::new(0x7f01), AttributeType::new(0x7f02)]),
        };
        let mut model = Model::default();
        if start != 0 {
            // what the canned response already carries, as its own serialisation shows it
            let init = b.build();
            let rp0 = ref_parse(&init);
            model.types = rp0.attrs.iter().map(|a| a.ty).collect();
            model.values = rp0.attrs.iter().filter(|a| a.ty != MI && a.ty != MI256 && a.ty != FP).map(|a| a.value(&init).to_vec()).collect();
            // its queries agree with that serialisation before anything is added
            for t in universe.iter() {
                if b.has_attribute(AttributeType::new(*t)) != model.has(*t) {
                    problems.push((
                        "serialisation-agrees-with-queries".into(),
                        format!("canned-response,start={start}"),
                        format!("has_attribute({t:#06x}) = {}", model.has(*t)),
                        format!("{}", !model.has(*t)),
                    ));
                    break;
                }
            }
        }
        let mut last_ord: Option<(bool, usize)> = None; // (typed?, pool index)
        let mut refused = 0u32;
        for (step, op) in ops.iter().enumerate() {
            // "duplicate" with nothing to duplicate yet degenerates to a plain raw add
            let op = &(if matches!(op, Op::Dup) && last_ord.is_none() { Op::Raw(23) } else { *op });
            let before = snapshot(&b, &universe);
            // what the rule table says
            let (expect_ok, what): (bool, String) = match op {
                Op::Typed(i) => {
                    let t = tpool[*i as usize % tpool.len()].0.code();
                    (!model.has(t) && !model.sealed(), format!("add_attribute({t:#06x})"))
                }
                Op::Raw(i) => {
                    let t = rpool[*i as usize % rpool.len()].0;
                    (!model.has(t) && !model.sealed(), format!("add_raw_attribute({t:#06x})"))
                }
                Op::Dup => (false, "add duplicate".into()),
                Op::Sha1 => (!model.sealed(), "add_message_integrity(Sha1)".into()),
                Op::Sha256 | Op::Sha256Other => (!model.has(MI256) && !model.has(FP), "add_message_integrity(Sha256)".into()),
                Op::Fp => (!model.has(FP), "add_fingerprint".into()),
                Op::IntoOwned | Op::Clone | Op::CloneFrom => (true, op.name()),
            };
            let got: Result<(), StunWriteError> = match op {
                Op::Typed(i) => {
                    let i = *i as usize % tpool.len();
                    let r = b.add_attribute(objs[i].as_ref());
                    if r.is_ok() {
                        last_ord = Some((true, i));
                    }
                    r
                }
                Op::Raw(i) => {
                    let i = *i as usize % rpool.len();
                    let r = b.add_raw_attribute(RawAttribute::new(AttributeType::new(rpool[i].0), &rpool[i].1));
                    if r.is_ok() {
                        last_ord = Some((false, i));
                    }
                    r
                }
                Op::Dup => match last_ord {
                    // same type again, alternately through the typed and the raw entry point
                    Some((true, i)) if step % 2 == 0 => b.add_attribute(objs[i].as_ref()),
                    Some((true, i)) => b.add_raw_attribute(RawAttribute::new(AttributeType::new(tpool[i].0.code()), &[1, 2, 3])),
                    Some((false, i)) => b.add_raw_attribute(RawAttribute::new(AttributeType::new(rpool[i].0), &[9])),
                    None => unreachable!(),
                },
                Op::Sha1 => b.add_message_integrity(&icreds, IntegrityAlgorithm::Sha1),
                Op::Sha256 => b.add_message_integrity(&icreds, IntegrityAlgorithm::Sha256),
                Op::Sha256Other => b.add_message_integrity(&icreds_other, IntegrityAlgorithm::Sha256),
                Op::Fp => b.add_fingerprint(),
                Op::IntoOwned => {
                    b = b.into_owned();
                    Ok(())
                }
                Op::Clone => {
                    let c = b.clone();
                    b = c;
                    Ok(())
                }
                Op::CloneFrom => {
                    let mut dst = Message::builder(
                        stun_types::message::MessageType::from_class_method(stun_types::message::MessageClass::Error, 0x7),
                        imp::tid_from_bytes(&[0x99; 12]),
                    );
                    if step % 2 == 0 {
                        for j in 0..(model.types.len() + 3) {
                            let _ = dst.add_raw_attribute(RawAttribute::new(AttributeType::new(0x6e00 + j as u16), &vec![j as u8; j % 5]).into_owned());
                        }
                        let _ = dst.add_message_integrity(&icreds_other, IntegrityAlgorithm::Sha1);
                        let _ = dst.add_fingerprint();
                    }
                    dst.clone_from(&b);
                    b = dst;
                    Ok(())
                }
            };
            if got.is_ok() != expect_ok {
                problems.push((
                    "rule-table".into(),
                    format!("{}:{}", op.name(), if expect_ok { "wrongly-refused" } else { "wrongly-accepted" }),
                    format!("step {step} {what}: {}", if expect_ok { "Ok" } else { "Err" }),
                    format!("{got:?}"),
                ));
                break;
            }
            match (&got, op) {
                (Ok(()), Op::Typed(i)) => {
                    let i = *i as usize % tpool.len();
                    model.types.push(tpool[i].0.code());
                    model.values.push(ref_encode(tpool[i].0, &tpool[i].1, &tid).unwrap());
                }
                (Ok(()), Op::Raw(i)) => {
                    let i = *i as usize % rpool.len();
                    model.types.push(rpool[i].0);
                    model.values.push(rpool[i].1.clone());
                }
                (Ok(()), Op::Sha1) => model.types.push(MI),
                (Ok(()), Op::Sha256) => model.types.push(MI256),
                (Ok(()), Op::Sha256Other) => {
                    model.types.push(MI256);
                    model.sha256_other = true;
                }
                (Ok(()), Op::Fp) => model.types.push(FP),
                _ => {}
            }
            let after = snapshot(&b, &universe);
            if got.is_err() {
                refused += 1;
                if after.bytes != before.bytes || after.byte_len != before.byte_len || after.has != before.has || after.any != before.any {
                    problems.push((
                        "refused-leaves-no-trace".into(),
                        op.name(),
                        format!("step {step} {what} refused: builder unchanged ({} bytes)", before.bytes.len()),
                        format!("build() {} -> {} bytes, byte_len {} -> {}, has_attribute changed: {}", before.bytes.len(), after.bytes.len(), before.byte_len, after.byte_len, after.has != before.has),
                    ));
                    break;
                }
            } else if matches!(op, Op::IntoOwned | Op::Clone | Op::CloneFrom) && after.bytes != before.bytes {
                problems.push((
                    "copy-preserves-serialisation".into(),
                    op.name(),
                    hex(&before.bytes),
                    hex(&after.bytes),
                ));
                break;
            }
            // queries agree with the model after every step
            let want_has: Vec<bool> = universe.iter().map(|t| model.has(*t)).collect();
            if after.has != want_has {
                problems.push((
                    "queries-agree-with-contents".into(),
                    op.name(),
                    format!("step {step}: has_attribute per model {:?}", model.types),
                    format!("differs for {:?}", universe.iter().zip(after.has.iter().zip(want_has.iter())).filter(|(_, (a, b))| a != b).map(|(t, _)| format!("{t:#06x}")).collect::<Vec<_>>()),
                ));
                break;
            }
        }
        // the same operations on a second builder that nobody looks at in between (no query, no
        // serialisation until the end): being observed does not change a builder
        let silent: Option<Vec<u8>> = if ops.len() >= 2 && (ops.len() + start as usize) % 2 == 0 && problems.is_empty() {
            let mut b2: MessageBuilder = match start {
                0 => new_builder(&p),
                5..=7 => new_builder(&Program { class: start - 4, ..p.clone() }),
                1 => Message::builder_success(&req),
                2 => Message::builder_error(&req),
                3 => Message::bad_request(&req),
                _ => Message::unknown_attributes(&req, &[AttributeType::new(0x7f01), AttributeType::new(0x7f02)]),
            };
            let mut last2: Option<(bool, usize)> = None;
            let mut n2 = if start == 0 || start >= 5 { 0usize } else { ref_parse(&b2.build()).attrs.len() };
            for (step, op) in ops.iter().enumerate() {
                let op = &(if matches!(op, Op::Dup) && last2.is_none() { Op::Raw(23) } else { *op });
                let r: Result<(), StunWriteError> = match op {
                    Op::Typed(i) => {
                        let i = *i as usize % tpool.len();
                        let r = b2.add_attribute(objs[i].as_ref());
                        if r.is_ok() {
                            last2 = Some((true, i));
                        }
                        r
                    }
                    Op::Raw(i) => {
                        let i = *i as usize % rpool.len();
                        let r = b2.add_raw_attribute(RawAttribute::new(AttributeType::new(rpool[i].0), &rpool[i].1));
                        if r.is_ok() {
                            last2 = Some((false, i));
                        }
                        r
                    }
                    Op::Dup => match last2 {
                        Some((true, i)) if step % 2 == 0 => b2.add_attribute(objs[i].as_ref()),
                        Some((true, i)) => b2.add_raw_attribute(RawAttribute::new(AttributeType::new(tpool[i].0.code()), &[1, 2, 3])),
                        Some((false, i)) => b2.add_raw_attribute(RawAttribute::new(AttributeType::new(rpool[i].0), &[9])),
                        None => unreachable!(),
                    },
                    Op::Sha1 => b2.add_message_integrity(&icreds, IntegrityAlgorithm::Sha1),
                    Op::Sha256 => b2.add_message_integrity(&icreds, IntegrityAlgorithm::Sha256),
                    Op::Sha256Other => b2.add_message_integrity(&icreds_other, IntegrityAlgorithm::Sha256),
                    Op::Fp => b2.add_fingerprint(),
                    Op::IntoOwned => {
                        b2 = b2.into_owned();
                        Err(StunWriteError::IntegrityFailed)
                    }
                    Op::Clone => {
                        let c = b2.clone();
                        b2 = c;
                        Err(StunWriteError::IntegrityFailed)
                    }
                    Op::CloneFrom => {
                        let mut dst = Message::builder(
                            stun_types::message::MessageType::from_class_method(stun_types::message::MessageClass::Error, 0x7),
                            imp::tid_from_bytes(&[0x99; 12]),
                        );
                        if step % 2 == 0 {
                            for j in 0..(n2 + 3) {
                                let _ = dst.add_raw_attribute(RawAttribute::new(AttributeType::new(0x6e00 + j as u16), &vec![j as u8; j % 5]).into_owned());
                            }
                            let _ = dst.add_message_integrity(&icreds_other, IntegrityAlgorithm::Sha1);
                            let _ = dst.add_fingerprint();
                        }
                        dst.clone_from(&b2);
                        b2 = dst;
                        Err(StunWriteError::IntegrityFailed)
                    }
                };
                if r.is_ok() {
                    n2 += 1;
                }
            }
            Some(b2.build())
        } else {
            None
        };
        // the final state through the other serialisation paths as well (a caller's reused buffer,
        // the owned copy, a clone): "the serialised message is accepted by the parser with valid
        // integrity and fingerprint" holds for whatever path serialises it
        let built = b.build();
        let mut alts: Vec<(&'static str, Vec<u8>)> = vec![];
        for (how, fill) in [("write_into(0xA5-filled)", 0xA5u8), ("write_into(0xFF-filled)", 0xFF)] {
            let mut dest = vec![fill; built.len() + 8];
            match b.write_into(&mut dest) {
                Ok(n) => {
                    dest.truncate(n);
                    alts.push((how, dest));
                }
                Err(_) => alts.push((how, vec![])),
            }
        }
        alts.push(("clone().build()", b.clone().build()));
        if let Some(sb) = silent {
            alts.push(("the same operations on a builder that is not looked at in between", sb));
        }
        {
            let o = b.clone().into_owned();
            let mut dest = vec![0x5Au8; built.len()];
            let n = o.write_into(&mut dest).unwrap_or(0);
            dest.truncate(n);
            alts.push(("into_owned().write_into(0x5A-filled)", dest));
        }
        for (how, bytes) in alts {
            if bytes != built && problems.is_empty() {
                let first = bytes.iter().zip(built.iter()).position(|(a, b)| a != b);
                let verdict = match Message::from_bytes(&bytes) {
                    Ok(m) => format!("parses, validate_integrity = {:?}", m.validate_integrity(&icreds).map_err(|e| format!("{e:?}"))),
                    Err(e) => format!("parser refuses it: {e:?}"),
                };
                problems.push((
                    "serialised-final-state-accepted".into(),
                    how.into(),
                    "the same well-formed, validly sealed message whichever way it is serialised".into(),
                    format!("{how}: {} bytes, first difference from build() at {first:?}; {verdict}", bytes.len()),
                ));
            }
        }
        (problems, built, b.byte_len(), model, refused)
    });
    let (problems, bytes, bl, model, refused) = match res {
        Err(p) => {
            ctx.violation("C11", "no-panic", "MessageBuilder", "", w, "Ok or Err".into(), format!("panic: {} at {}", p.msg, p.loc));
            return;
        }
        Ok(x) => x,
    };
    ctx.count_n("refused-operations", refused as u64);
    ctx.distinct(hash64(&[crate::ctx::hash_bytes(ops.iter().map(|o| o.name()).collect::<Vec<_>>().join(",").as_bytes())]));
    for (a, f, e, o) in problems {
        ctx.violation("C11", &a, "MessageBuilder", &f, w, e, o);
        return;
    }
    // ---- final state: serialisation agrees with the queries, parses, validates ----
    let rp = ref_parse(&bytes);
    let types: Vec<u16> = rp.attrs.iter().map(|a| a.ty).collect();
    if !rp.accepted() || rp.excess != 0 || types != model.types || bl != bytes.len() {
        ctx.violation(
            "C11",
            "serialisation-agrees-with-queries",
            "MessageBuilder::build",
            "",
            w,
            format!("well-formed message with attribute types {:x?}", model.types),
            format!("causes {:?} types {types:x?} byte_len {bl} len {}", rp.causes, bytes.len()),
        );
        return;
    }
    // ordinary values as put in
    let ord_vals: Vec<Vec<u8>> = rp.attrs.iter().filter(|a| a.ty != MI && a.ty != MI256 && a.ty != FP).map(|a| a.value(&bytes).to_vec()).collect();
    if ord_vals != model.values {
        ctx.violation("C11", "serialisation-agrees-with-queries", "MessageBuilder::build", "values", w, "values as added".into(), "a value differs".into());
    }
    // validation looks at the SHA-256 attribute when there is one: it was added under the other
    // credentials in some sequences; each integrity attribute is correct under the credentials it was added with
    let vcreds = if model.sha256_other { &icreds_other } else { &icreds };
    let parsed = guard(|| Message::from_bytes(&bytes).map(|m| m.validate_integrity(vcreds).map_err(|e| format!("{e:?}"))));
    match parsed {
        Ok(Ok(v)) => {
            ctx.count("final-state-parsed");
            let ri = {
                let a = ref_integrity(&bytes, &rp.attrs, creds);
                if model.sha256_other {
                    let b = ref_integrity(&bytes, &rp.attrs, &creds_other);
                    // MI judged under `creds`, MI-SHA256 under the other ones
                    RefIntegrity { attrs: a.attrs.iter().zip(b.attrs.iter()).map(|(x, y)| if x.1 == MI256 { *y } else { *x }).collect() }
                } else {
                    a
                }
            };
            if model.sha256_other {
                ctx.count("final-state-with-two-credentials");
            }
            let has_int = model.has(MI) || model.has(MI256);
            if has_int && (!ri.all_correct() || v.is_err()) {
                ctx.violation(
                    "C11",
                    "final-integrity-valid",
                    "Message::validate_integrity",
                    "",
                    w,
                    "every integrity attribute correct and validation Ok".into(),
                    format!("reference {:?}, validate {v:?}", ri.attrs),
                );
            }
            if has_int {
                ctx.count("final-state-validated");
            }
        }
        other => ctx.violation(
            "C11",
            "final-state-parses",
            "Message::from_bytes",
            "",
            w,
            "Ok".into(),
            format!("{other:?} on {}", hex(&bytes[..bytes.len().min(120)])),
        ),
    }
}

fn alphabet() -> Vec<Op> {
    vec![Op::Typed(0), Op::Typed(1), Op::Typed(2), Op::Raw(0), Op::Raw(24), Op::Dup, Op::Sha1, Op::Sha256, Op::Sha256Other, Op::Fp, Op::IntoOwned, Op::Clone]
}

pub fn run(ctx: &mut Ctx) {
    let quick = ctx.tier == Tier::Quick;
    let creds = RefCreds::Short("c11".into());
    let alpha = alphabet();
    // ---- all sequences up to the depth bound ----
    let depth = if quick { 6 } else { 7 };
    let mut idx = 0u64;
    for len in 0..=depth {
        let total = (alpha.len() as u64).pow(len as u32);
        for code in 0..total {
            idx += 1;
            if !ctx.mine(idx) {
                continue;
            }
            // quick tier: complete to length 5, every 5th sequence of length 6
            if quick && len == 6 && (code / ctx.nshards) % 5 != ctx.seed % 5 {
                continue;
            }
            let mut c = code;
            let ops: Vec<Op> = (0..len)
                .map(|_| {
                    let o = alpha[(c % alpha.len() as u64) as usize];
                    c /= alpha.len() as u64;
                    o
                })
                .collect();
            // HMAC cost: sequences with several seals are the expensive ones; all are run
            check_ops(ctx, &ops, &creds);
            if code % 9_973 == 1 {
                ctx.sample("enumerated", || wit(&ops, &creds));
            }
        }
    }
    ctx.count_n("enumeration-depth", if ctx.shard == 0 { depth as u64 } else { 0 });
    // ---- every one of the 65 536 type codes (except the three sealing ones) through the raw entry
    //      point: a second attribute of the same type is refused, before and after a seal ----
    {
        use stun_types::message::{MessageClass, MessageType};
        for t in 0..=0xffffu32 {
            idx += 1;
            if !ctx.mine(idx) {
                continue;
            }
            let t = t as u16;
            if t == MI || t == MI256 || t == FP {
                continue;
            }
            ctx.eval();
            let r = guard(|| {
                let mut b = Message::builder(MessageType::from_class_method(MessageClass::Request, 1), imp::tid_from_bytes(&[7; 12]));
                let first = b.add_raw_attribute(RawAttribute::new(AttributeType::new(t), &[1, 2, 3])).is_ok();
                let before = b.build();
                let dup = b.add_raw_attribute(RawAttribute::new(AttributeType::new(t), &[4])).is_ok();
                let unchanged = b.build() == before;
                let fp = b.add_fingerprint().is_ok();
                let sealed = b.build();
                let after_seal = b.add_raw_attribute(RawAttribute::new(AttributeType::new(t), &[5, 6])).is_ok();
                let other = if t == 0x7e7e { 0x7e7f } else { 0x7e7e };
                let other_after_seal = b.add_raw_attribute(RawAttribute::new(AttributeType::new(other), &[])).is_ok();
                (first, dup, unchanged, fp, after_seal, other_after_seal, b.build() == sealed, b.has_attribute(AttributeType::new(t)))
            });
            match r {
                Ok((true, false, true, true, false, false, true, true)) => ctx.count("type-codes-swept"),
                other => ctx.violation(
                    "C11",
                    "rule-table",
                    "MessageBuilder::add_raw_attribute",
                    "type-sweep",
                    || json!({"kind": "builder-type-sweep", "type": t}),
                    "first add accepted; duplicate refused without trace; fingerprint accepted; the type and another type refused after it without trace; has_attribute true".into(),
                    format!("(first, duplicate, unchanged, fingerprint, after-seal, other-after-seal, unchanged, has) = {other:?}"),
                ),
            }
        }
    }
    // ---- a builder that already holds ~64 KiB: further adds and seals that still fit the 16-bit
    //      length field are accepted like any other ----
    for pad in [65_400usize, 65_440, 65_464, 65_480, 65_492, 65_500] {
        idx += 1;
        if !ctx.mine(idx) {
            continue;
        }
        ctx.eval();
        let big = vec![0x42u8; pad];
        let icreds = imp::to_impl_creds(&creds);
        let r = guard(|| {
            use stun_types::message::{MessageClass, MessageType};
            let mut b = Message::builder(MessageType::from_class_method(MessageClass::Request, 1), imp::tid_from_bytes(&[8; 12]));
            let a = b.add_raw_attribute(RawAttribute::new(AttributeType::new(0x7e00), &big)).is_ok();
            // body so far: 4 + pad.  Each of the following fits below 65 532 body bytes only while it does.
            let mut body = 4 + pad;
            let mut out = vec![a];
            // only operations whose result still fits the 16-bit length field (65 532 body bytes) are
            // attempted: what the builder does beyond that is not specified by the property
            let mut did_mi = false;
            if body + 8 <= 65_532 {
                out.push(b.add_raw_attribute(RawAttribute::new(AttributeType::new(0x7e01), &[1, 2, 3, 4])).is_ok());
                body += 8;
            }
            if body + 24 <= 65_532 {
                out.push(b.add_message_integrity(&icreds, IntegrityAlgorithm::Sha1).is_ok());
                body += 24;
                did_mi = true;
            }
            if body + 8 <= 65_532 {
                out.push(b.add_fingerprint().is_ok());
                body += 8;
            }
            let bytes = b.build();
            let parses = Message::from_bytes(&bytes).map(|m| m.validate_integrity(&icreds).is_ok() || !did_mi).unwrap_or(false);
            (out, bytes.len() == 20 + body, parses, body)
        });
        match r {
            Ok((out, true, true, _)) if out.iter().all(|x| *x) => ctx.count("near-64k-builders"),
            other => ctx.violation(
                "C11",
                "rule-table",
                "MessageBuilder",
                "near-64k",
                || json!({"kind": "builder-near-64k", "pad": pad}),
                "adds and seals that fit the 16-bit length field are accepted; the result parses and validates".into(),
                format!("{other:?}"),
            ),
        }
    }
    // ---- the same, starting from each kind of canned response (depth 4) ----
    for start in 1..=4u8 {
        for len in 0..=4usize {
            let total = (alpha.len() as u64).pow(len as u32);
            for code in 0..total {
                idx += 1;
                if !ctx.mine(idx) {
                    continue;
                }
                let mut c = code;
                let ops: Vec<Op> = (0..len)
                    .map(|_| {
                        let o = alpha[(c % alpha.len() as u64) as usize];
                        c /= alpha.len() as u64;
                        o
                    })
                    .collect();
                check_ops_from(ctx, start, &ops, &creds);
                ctx.count("canned-response-sequences");
            }
        }
    }
    // ---- every class x short-term and long-term credentials: all sequences up to length 3 ----
    {
        let lt = RefCreds::Long("us:er".into(), "realm.example".into(), "long-term".into());
        for start in [0u8, 5, 6, 7, 1, 2] {
            for cr in [&creds, &lt] {
                if start == 0 && std::ptr::eq(cr, &creds) {
                    continue; // enumerated above, deeper
                }
                for len in 0..=3usize {
                    let total = (alpha.len() as u64).pow(len as u32);
                    for code in 0..total {
                        idx += 1;
                        if !ctx.mine(idx) {
                            continue;
                        }
                        let mut c = code;
                        let ops: Vec<Op> = (0..len)
                            .map(|_| {
                                let o = alpha[(c % alpha.len() as u64) as usize];
                                c /= alpha.len() as u64;
                                o
                            })
                            .collect();
                        check_ops_from(ctx, start, &ops, cr);
                        ctx.count("class-and-credential-sequences");
                    }
                }
            }
        }
    }
    // ---- clone_from into longer / sealed / empty builders: every sequence up to length 4 over the
    //      alphabet plus clone_from that uses it at least once ----
    {
        let mut alpha2 = alpha.clone();
        alpha2.push(Op::CloneFrom);
        for len in 1..=4usize {
            let total = (alpha2.len() as u64).pow(len as u32);
            for code in 0..total {
                let mut c = code;
                let ops: Vec<Op> = (0..len)
                    .map(|_| {
                        let o = alpha2[(c % alpha2.len() as u64) as usize];
                        c /= alpha2.len() as u64;
                        o
                    })
                    .collect();
                if !ops.contains(&Op::CloneFrom) {
                    continue;
                }
                idx += 1;
                if !ctx.mine(idx) {
                    continue;
                }
                check_ops(ctx, &ops, &creds);
                ctx.count("clone-from-sequences");
            }
        }
    }
    // ---- small and large attributes in both orders in front of every sealing combination ----
    {
        let seal_sets: [&[Op]; 7] = [&[Op::Fp], &[Op::Sha1], &[Op::Sha256], &[Op::Sha1, Op::Fp], &[Op::Sha256, Op::Fp], &[Op::Sha1, Op::Sha256, Op::Fp], &[Op::Sha1, Op::Sha256]];
        let mut gi = 0u64;
        for large in 36u8..42 {
            for small in [Op::Typed(0), Op::Typed(1), Op::Raw(1), Op::Raw(5)] {
                for seals in seal_sets.iter() {
                    for order in 0..3 {
                        gi += 1;
                        if !ctx.mine(gi) {
                            continue;
                        }
                        let mut ops = match order {
                            0 => vec![small, Op::Raw(large)],
                            1 => vec![Op::Raw(large), small],
                            _ => vec![small, Op::Raw(large), Op::Typed(2), Op::Raw(36 + (large - 36 + 1) % 6)],
                        };
                        ops.extend_from_slice(seals);
                        if gi % 3 == 0 {
                            ops.push(Op::IntoOwned);
                        }
                        check_ops(ctx, &ops, &creds);
                        ctx.count("small-and-large-attribute-sequences");
                    }
                }
            }
        }
    }
    // ---- random longer sequences (SmallVec spill beyond 16 types) ----
    let n = ctx.n(60_000, 600_000);
    let mut rng = ctx.rng("random-ops", 0);
    for i in 0..n {
        let len = 8 + rng.usize(33);
        let lt = if rng.chance(1, 2) { crate::gen::vals::gen_creds_small(&mut rng) } else { creds.clone() };
        let mut ops = vec![];
        for _ in 0..len {
            ops.push(match rng.below(20) {
                0..=7 => Op::Typed(rng.below(16) as u8),
                8..=13 => Op::Raw(if rng.chance(1, 8) { 36 + rng.below(6) as u8 } else { rng.below(36) as u8 }),
                14 => Op::Dup,
                15 => Op::Sha1,
                16 => {
                    if rng.chance(1, 3) {
                        Op::Sha256Other
                    } else {
                        Op::Sha256
                    }
                }
                17 => Op::Fp,
                18 => Op::IntoOwned,
                _ => {
                    if rng.chance(1, 3) {
                        Op::CloneFrom
                    } else {
                        Op::Clone
                    }
                }
            });
        }
        // keep the seals towards the end so that long unsealed prefixes exist
        if rng.chance(2, 3) {
            let (mut a, mut s): (Vec<Op>, Vec<Op>) = ops.iter().partition(|o| !matches!(o, Op::Sha1 | Op::Sha256 | Op::Sha256Other | Op::Fp));
            let k = a.len().saturating_sub(rng.usize(4));
            let tail: Vec<Op> = a.split_off(k);
            a.append(&mut s);
            a.extend(tail);
            ops = a;
        }
        check_ops_from(ctx, *rng.pick(&[0u8, 0, 0, 5, 6, 7, 1, 2, 3, 4]), &ops, &lt);
        ctx.count("random-sequences");
        if i < 2 {
            ctx.sample("random", || wit(&ops, &lt));
        }
    }
    ctx.require("refused-operations", 10_000);
    ctx.require("canned-response-sequences", 10_000);
    ctx.require("type-codes-swept", 100_000);
    ctx.require("near-64k-builders", 6);
    ctx.require("final-state-parsed", 10_000);
    ctx.require("final-state-validated", 5_000);
    ctx.require("random-sequences", 1_000);
    ctx.require("class-and-credential-sequences", 10_000);
    ctx.require("clone-from-sequences", 5_000);
    ctx.require("small-and-large-attribute-sequences", 400);
}

pub fn replay(ctx: &mut Ctx, w: &Value) -> Result<(), String> {
    let ops: Vec<Op> = w.get("ops").and_then(|o| o.as_array()).ok_or("ops")?.iter().map(|o| Op::from_name(o.as_str().unwrap_or(""))).collect::<Option<Vec<_>>>().ok_or("bad op")?;
    let creds = RefCreds::from_json(w.get("creds").ok_or("creds")?).ok_or("bad creds")?;
    check_ops_from(ctx, w.get("start").and_then(|s| s.as_u64()).unwrap_or(0) as u8, &ops, &creds);
    Ok(())
}
