//! Workloads of the agent-level properties C05, C06, C07, C15, C18, C20 over the agent engine.

use super::agent::*;
use crate::ctx::{hash64, hash_bytes, Ctx, Tier};
use serde_json::{json, Value};
use std::collections::BTreeSet;

fn hist_key(h: &History) -> u64 {
    hash64(&[h.tcp as u64, hash_bytes(h.to_json().to_string().as_bytes())])
}

fn run_plain(ctx: &mut Ctx, h: &History) -> RunResult {
    ctx.eval();
    let k = hist_key(h);
    ctx.distinct(k);
    // a deterministic sample of the histories is recorded for the offline checker: 1 in 64 of the
    // short (enumerated) ones, 1 in 4 of the long ones
    let record = if h.ops.len() <= 6 { k % 64 == 0 } else { k % 4 == 0 };
    run_history(ctx, h, &RunCfg { trap_clock: true, record, ..Default::default() })
}

/// systematic small scope: every history of exactly `depth` operations (shorter ones are prefixes
/// whose drains are exercised by depth-1 .. runs as well), both transports
pub fn small_scope(ctx: &mut Ctx, max_depth: usize, alphabet: &[Op]) {
    let mut gi = 0u64;
    for depth in 1..=max_depth {
        for tcp in [false, true] {
            let mut todo = vec![];
            for_each_small(depth, alphabet, tcp, |code, h| {
                gi += 1;
                if ctx.mine(gi) {
                    todo.push((code, h));
                }
            });
            for (code, h) in todo {
                run_plain(ctx, &h);
                ctx.count("enumerated-histories");
                if code % 7919 == 3 {
                    ctx.sample("enumerated", || h.to_json());
                }
                if ctx.has_violations() && ctx.violations.len() > 20 {
                    return;
                }
            }
        }
    }
    if ctx.shard == 0 {
        ctx.count_n("enumeration-depth", max_depth as u64);
        ctx.count_n("enumeration-alphabet", alphabet.len() as u64);
    }
}

pub fn random_histories(ctx: &mut Ctx, n: u64, emphasis: &str, min_len: usize, max_len: usize, ntid: u8) {
    let mut rng = ctx.rng(&format!("random-{emphasis}"), 0);
    for i in 0..n {
        let len = min_len + rng.usize(max_len - min_len + 1);
        let h = gen_history(&mut rng, len, ntid, emphasis);
        let r = run_plain(ctx, &h);
        ctx.count("random-histories");
        ctx.count_n("random-history-operations", len as u64);
        if i < 2 {
            let head = History { tcp: h.tcp, remote0: h.remote0, remote_addr: h.remote_addr, ops: h.ops.iter().take(12).cloned().collect() };
            ctx.sample(&format!("random-{emphasis}"), || json!({"first_operations": head.to_json(), "operations": len, "first_replies": r.log.iter().take(12).collect::<Vec<_>>()}));
        }
    }
}

fn req(tid: u8, dest: u8, seal: Sealing, payload: u16) -> Op {
    Op::Send { kind: MsgKind::Request, tid, dest, seal, payload }
}

/// hand-shaped stress histories
pub fn stress_shapes(ctx: &mut Ctx, reps: u64) {
    let mut rng = ctx.rng("stress", 0);
    // (1) many transactions due at the same instant, replayed on fresh agents: the orders seen
    let mut orders: BTreeSet<String> = BTreeSet::new();
    for r in 0..reps.max(8) {
        for n in [2u8, 3, 4, 8] {
            let mut ops: Vec<Op> = (0..n).map(|i| req(i, i % 5, Sealing::None, i as u16)).collect();
            for _ in 0..(n as usize * 8 + 4) {
                ops.push(Op::Poll(PollAt::AtWait));
            }
            let h = History { tcp: false, remote0: None, remote_addr: None, ops };
            let res = run_history(ctx, &h, &RunCfg { drain_polls: r % 2 == 0, trap_clock: true, ..Default::default() });
            ctx.eval();
            ctx.distinct(hist_key(&h) ^ r);
            if n == 3 {
                // first drain after the initial sends that serves all three
                let s = res.orders.join("");
                if let Some(seg) = s.split('|').find(|seg| seg.matches('S').count() == 3) {
                    orders.insert(seg.to_string());
                } else if let Some(p) = s.find("S") {
                    orders.insert(s[p..].chars().take(6).collect());
                }
            }
            ctx.count("simultaneous-due-histories");
        }
    }
    for o in orders {
        ctx.set_insert("simultaneous-service-orders-3tx", o);
    }
    for _ in 0..reps {
        // (2) a poll arriving minutes late, then on time again
        let late = 60_000 + rng.below(3_600_000);
        let h = History {
            tcp: rng.chance(1, 4),
            remote0: None,
            remote_addr: None,
            ops: vec![req(0, 0, Sealing::None, 1), req(1, 1, Sealing::None, 2), Op::Poll(PollAt::After(late)), Op::Poll(PollAt::Now), Op::Poll(PollAt::Now), Op::Poll(PollAt::AtWait), Op::Poll(PollAt::AtWait)],
        };
        run_plain(ctx, &h);
        // (3) response between cancel() and the poll that reports it; response after completion
        let h = History {
            tcp: false,
            remote0: Some(0),
            remote_addr: None,
            ops: vec![
                req(0, 0, Sealing::None, 3),
                Op::Cancel(0),
                Op::Response { tid: 0, from: 0, error: false, seal: RespSeal::Unsigned, fp: false },
                Op::Poll(PollAt::Now),
                Op::Response { tid: 0, from: 0, error: false, seal: RespSeal::Unsigned, fp: false },
                req(0, 2, Sealing::None, 4),
                Op::Poll(PollAt::AtWait),
                Op::Response { tid: 0, from: 2, error: true, seal: RespSeal::Unsigned, fp: true },
                Op::Response { tid: 0, from: 2, error: true, seal: RespSeal::Unsigned, fp: true },
            ],
        };
        run_plain(ctx, &h);
        // (4) id reuse immediately after each kind of completion
        for how in 0..3 {
            let mut ops = vec![req(2, 1, Sealing::None, 5)];
            match how {
                0 => ops.push(Op::Response { tid: 2, from: 1, error: false, seal: RespSeal::Unsigned, fp: false }),
                1 => {
                    ops.push(Op::Cancel(2));
                    ops.push(Op::Poll(PollAt::Now));
                }
                _ => {
                    ops.push(Op::Configure { tid: 2, rto: 5, n: 0, last: 7, rto_us: 0, last_us: 0 });
                    ops.push(Op::Poll(PollAt::AtWait));
                    ops.push(Op::Poll(PollAt::AtWait));
                }
            }
            ops.push(req(2, 3, Sealing::None, 6));
            ops.push(req(2, 4, Sealing::None, 7)); // duplicate while outstanding
            ops.push(Op::Poll(PollAt::AtWait));
            ops.push(Op::Poll(PollAt::AtWait));
            run_plain(ctx, &History { tcp: rng.chance(1, 3), remote0: None, remote_addr: None, ops });
        }
        // (5) reconfiguration to fewer retransmissions than already sent
        let h = History {
            tcp: false,
            remote0: None,
            remote_addr: None,
            ops: vec![
                req(0, 0, Sealing::None, 8),
                Op::Poll(PollAt::AtWait),
                Op::Poll(PollAt::AtWait),
                Op::Poll(PollAt::AtWait),
                Op::Poll(PollAt::AtWait),
                Op::Poll(PollAt::AtWait),
                Op::Poll(PollAt::AtWait),
                Op::Configure { tid: 0, rto: 1 + rng.below(1000), n: rng.below(3) as u32, last: rng.below(5000), rto_us: 0, last_us: 0 },
                Op::Poll(PollAt::Now),
                Op::Poll(PollAt::AtWait),
                Op::Poll(PollAt::AtWait),
            ],
        };
        run_plain(ctx, &h);
        // (6) forged responses at every point of the schedule do not move it
        let mut ops = vec![Op::SetRemote(0), req(1, 2, *rng.pick(&[Sealing::Sha1, Sealing::Sha256, Sealing::Both]), 9)];
        for k in 0..8 {
            ops.push(Op::Response { tid: 1, from: (k % 5) as u8, error: k % 2 == 0, seal: *rng.pick(&[RespSeal::Unsigned, RespSeal::Sha1(2), RespSeal::CorruptSha1(0), RespSeal::CorruptSha256(0), RespSeal::Sha256(1, 32), RespSeal::OddLen(0, k as u8), RespSeal::GoodBad(0)]), fp: k % 3 == 0 });
            ops.push(Op::Poll(if k % 2 == 0 { PollAt::AtWait } else { PollAt::Half }));
            ops.push(Op::Poll(PollAt::AtWait));
        }
        ops.push(Op::Response { tid: 1, from: 2, error: false, seal: *rng.pick(&[RespSeal::Sha1(0), RespSeal::Sha256(0, 32), RespSeal::Sha256(0, 16), RespSeal::Both(0)]), fp: true });
        run_plain(ctx, &History { tcp: false, remote0: None, remote_addr: None, ops });
        run_plain(ctx, &gen_extended_schedule(&mut rng));
        ctx.count("schedule-extended-after-last-transmission");
        run_plain(ctx, &gen_staggered_service(&mut rng));
        ctx.count("staggered-service-histories");
        run_plain(ctx, &gen_stale_instants(&mut rng));
        ctx.count("stale-instant-histories");
        run_plain(ctx, &gen_answered_between_polls(&mut rng));
        ctx.count("answered-between-polls-histories");
        run_plain(ctx, &gen_bystander_calls(&mut rng));
        ctx.count("bystander-call-histories");
        run_plain(ctx, &gen_handle_then(&mut rng));
        ctx.count("handle-then-histories");
        // (13) stray, duplicated and late responses, then their ids are used by new requests
        {
            let t = rng.below(NTID as u64) as u8;
            let mut ops = vec![Op::Response { tid: t, from: 1, error: false, seal: RespSeal::Unsigned, fp: false }];
            if rng.chance(1, 2) {
                ops.push(req(t, 2, Sealing::None, 5));
                ops.push(Op::Response { tid: t, from: 2, error: false, seal: RespSeal::Unsigned, fp: true });
                ops.push(Op::Response { tid: t, from: 2, error: false, seal: RespSeal::Unsigned, fp: true }); // duplicate, late
            }
            ops.push(Op::Poll(PollAt::AtWait));
            ops.push(req(t, 3, Sealing::None, 6));
            ops.push(Op::Poll(PollAt::AtWait));
            ops.push(Op::Response { tid: t, from: 3, error: rng.chance(1, 2), seal: RespSeal::Unsigned, fp: false });
            for _ in 0..4 {
                ops.push(Op::Poll(PollAt::AtWait));
            }
            run_plain(ctx, &History { tcp: rng.chance(1, 3), remote0: None, remote_addr: None, ops });
            ctx.count("stray-then-reused-id-histories");
        }
        ctx.count_n("stress-histories", 12);
    }
    for _ in 0..(reps / 16).max(2) {
        let h = gen_many_peers(&mut rng);
        run_plain(ctx, &h);
        ctx.count("many-peers-histories");
    }
    for _ in 0..(reps / 32).max(1) {
        let h = gen_many_transactions(&mut rng);
        run_plain(ctx, &h);
        ctx.count("many-transactions-histories");
    }
}

/// (7) the schedule is extended after its last transmission went out (and again later): the later
///     retransmissions must still carry the request
pub fn gen_extended_schedule(rng: &mut crate::prng::Rng) -> History {
    let n1 = rng.below(3) as u32;
    let n2 = n1 + 1 + rng.below(4) as u32;
    let rto = 1 + rng.below(400);
    let mut ops = vec![req(3, (rng.below(NCORE as u64)) as u8, *rng.pick(&[Sealing::None, Sealing::Sha1]), 10), Op::Configure { tid: 3, rto, n: n1, last: 5_000 + rng.below(5_000), rto_us: 0, last_us: 0 }];
    for _ in 0..n1 + 1 {
        ops.push(Op::Poll(PollAt::AtWait));
    }
    // now waiting for the final timeout: extend
    ops.push(Op::Poll(PollAt::Half));
    ops.push(Op::Configure { tid: 3, rto: 1 + rng.below(400), n: n2, last: rng.below(3_000), rto_us: 0, last_us: 0 });
    for _ in 0..(n2 - n1) as usize + 2 {
        ops.push(Op::Poll(PollAt::AtWait));
    }
    ops.push(Op::Configure { tid: 3, rto, n: n2 + 2, last: 100, rto_us: 0, last_us: 0 });
    for _ in 0..5 {
        ops.push(Op::Poll(PollAt::AtWait));
    }
    History { tcp: false, remote0: None, remote_addr: None, ops }
}

/// (8) several transactions due at one instant, served by polls at *different* instants: each
///     schedule continues from the instant its own transmission was handed out
pub fn gen_staggered_service(rng: &mut crate::prng::Rng) -> History {
    let n = 2 + rng.below(3) as u8;
    let mut ops: Vec<Op> = (0..n).map(|i| req(i, i % NCORE as u8, Sealing::None, 20 + i as u16)).collect();
    if rng.chance(1, 2) {
        for i in 0..n {
            ops.push(Op::Configure { tid: i, rto: 300, n: 3, last: 900, rto_us: 0, last_us: 0 });
        }
    }
    ops.push(Op::Poll(PollAt::AtWait));
    for _ in 0..(n as usize * 5) {
        ops.push(Op::Poll(*rng.pick(&[PollAt::After(1), PollAt::After(50), PollAt::After(200), PollAt::After(777), PollAt::Now, PollAt::AtWait])));
    }
    for _ in 0..(n as usize * 4) {
        ops.push(Op::Poll(PollAt::AtWait));
    }
    History { tcp: false, remote0: None, remote_addr: None, ops }
}

/// (12) answered between two polls of one instant: several transactions are due at the same
///      instant, one poll serves one of them, responses arrive (for the one just served, for another
///      one, for none) and the agent is polled again with the identical instant: every transaction
///      still due is served at that instant, the answered ones are gone
pub fn gen_answered_between_polls(rng: &mut crate::prng::Rng) -> History {
    let n = 2 + rng.below(4) as u8;
    let mut ops: Vec<Op> = (0..n).map(|i| req(i, i % NCORE as u8, Sealing::None, 30 + i as u16)).collect();
    ops.push(Op::Poll(PollAt::AtWait)); // WaitUntil(t)
    let rounds = 1 + rng.usize(3);
    for _ in 0..rounds {
        ops.push(Op::Poll(PollAt::AtWait)); // at t: one of them is served
        for i in 0..n {
            match rng.below(4) {
                0 => {
                    ops.push(Op::Response { tid: i, from: i % NCORE as u8, error: false, seal: RespSeal::Unsigned, fp: rng.chance(1, 2) });
                    ops.push(Op::Poll(PollAt::Now));
                }
                1 => ops.push(Op::Response { tid: i, from: i % NCORE as u8, error: rng.chance(1, 3), seal: RespSeal::Unsigned, fp: false }),
                _ => {}
            }
        }
        for _ in 0..(n as usize + 1) {
            ops.push(Op::Poll(PollAt::Now));
        }
    }
    for _ in 0..(n as usize * 8) {
        ops.push(Op::Poll(PollAt::AtWait));
    }
    History { tcp: false, remote0: None, remote_addr: None, ops }
}

/// a call that has nothing to do with timing (credentials set / changed, messages from peers, stray and
/// forged responses, datagrams and non-requests sent, other transactions started, finished or looked at)
pub fn gen_bystander(rng: &mut crate::prng::Rng, busy: u8) -> Op {
    let from = rng.below(NCORE as u64) as u8;
    match rng.below(14) {
        0 => Op::SetLocal(rng.below(4) as u8),
        1 => Op::SetRemote(rng.below(3) as u8),
        2 => Op::Incoming { request: rng.chance(1, 2), tid: 6, from },
        3 => Op::IncomingSigned { request: rng.chance(1, 2), tid: 7, from, cred: rng.below(4) as u8, good: rng.chance(1, 2) },
        4 => Op::Response { tid: 6, from, error: rng.chance(1, 2), seal: RespSeal::Unsigned, fp: rng.chance(1, 2) }, // stray
        5 => Op::Response { tid: busy, from, error: rng.chance(1, 2), seal: *rng.pick(&[RespSeal::Unsigned, RespSeal::Sha1(2), RespSeal::CorruptSha1(0), RespSeal::CorruptSha256(0), RespSeal::OddLen(0, 3)]), fp: false }, // forged (for a signed request)
        6 => Op::SendData { dest: from, len: rng.below(1200) as u16 },
        7 => Op::Send { kind: *rng.pick(&[MsgKind::Indication, MsgKind::Success, MsgKind::Error]), tid: *rng.pick(&[busy, 5]), dest: from, seal: *rng.pick(&[Sealing::None, Sealing::Sha1]), payload: rng.below(300) as u16 },
        8 => Op::Send { kind: MsgKind::Request, tid: busy, dest: from, seal: Sealing::None, payload: 77 }, // refused: already in progress
        9 => Op::Send { kind: MsgKind::Request, tid: 5, dest: from, seal: *rng.pick(&[Sealing::None, Sealing::Sha256]), payload: 78 },
        10 => Op::Response { tid: 5, from, error: false, seal: *rng.pick(&[RespSeal::Unsigned, RespSeal::Sha256(0, 32)]), fp: false },
        11 => Op::Cancel(5),
        12 => Op::Via { holder: busy, inner: Box::new(Op::Incoming { request: true, tid: 6, from }) },
        _ => Op::SetLocal(rng.below(4) as u8),
    }
}

/// (14) bystander calls at every point of a schedule: an authenticated (or not) request follows its
///      schedule exactly while calls that have nothing to do with timing are made between its
///      transmissions: local / remote credentials set and changed, messages from peers, stray and
///      forged responses, datagrams and non-requests sent, another transaction started and finished
pub fn gen_bystander_calls(rng: &mut crate::prng::Rng) -> History {
    let seal = *rng.pick(&[Sealing::None, Sealing::Sha1, Sealing::Sha256, Sealing::Both]);
    let mut ops = vec![];
    if rng.chance(1, 2) {
        ops.push(Op::SetLocal(rng.below(4) as u8));
    }
    ops.push(req(1, rng.below(NCORE as u64) as u8, seal, 40));
    if rng.chance(1, 2) {
        ops.push(gen_configure(rng, 1));
    }
    let first = rng.usize(8);
    for step in 0..12usize {
        if step >= first {
            for _ in 0..1 + rng.usize(2) {
                ops.push(gen_bystander(rng, 1));
            }
        }
        ops.push(Op::Poll(*rng.pick(&[PollAt::AtWait, PollAt::AtWait, PollAt::AtWait, PollAt::Half, PollAt::Before(1)])));
    }
    for _ in 0..10 {
        ops.push(Op::Poll(PollAt::AtWait));
    }
    History { tcp: rng.chance(1, 5), remote0: if rng.chance(1, 2) { Some(0) } else { None }, remote_addr: None, ops }
}

/// (16) a handle that outlives a call routed through it: the agent is polled through a request
///      handle's `mut_agent()` (early: it answers WaitUntil) and the SAME handle then shortens the
///      schedule, cancels, or stops retransmissions; the next wake-up is the new schedule's
pub fn gen_handle_then(rng: &mut crate::prng::Rng) -> History {
    let n = 1 + rng.below(3) as u8;
    let mut ops: Vec<Op> = (0..n).map(|i| req(i, i % NCORE as u8, Sealing::None, 50 + i as u16)).collect();
    for _ in 0..rng.usize(3) {
        ops.push(Op::Poll(PollAt::AtWait));
    }
    let holder = rng.below(n as u64) as u8;
    let then = match rng.below(4) {
        0 => Op::Cancel(holder),
        1 => Op::CancelRetrans(holder),
        // a much shorter schedule than the one the agent has just reported a wake-up for
        2 => Op::Configure { tid: holder, rto: 1 + rng.below(40), n: 1 + rng.below(4) as u32, last: 1 + rng.below(60), rto_us: 0, last_us: 0 },
        _ => gen_configure(rng, holder),
    };
    ops.push(Op::ViaThen { holder, inner: Box::new(Op::Poll(*rng.pick(&[PollAt::Now, PollAt::Half, PollAt::Before(1), PollAt::AtWait]))), then: Box::new(then) });
    for _ in 0..4 {
        ops.push(Op::Poll(*rng.pick(&[PollAt::Now, PollAt::AtWait, PollAt::AtWait, PollAt::Before(1)])));
    }
    for _ in 0..(n as usize * 9) {
        ops.push(Op::Poll(PollAt::AtWait));
    }
    History { tcp: rng.chance(1, 4), remote0: None, remote_addr: None, ops }
}

/// (11) stale instants: a call is handed an instant earlier than one handed to an earlier call (for
///      another transaction, or for a message that leaves no transaction); every schedule counts from
///      the instants of its own transmissions
pub fn gen_stale_instants(rng: &mut crate::prng::Rng) -> History {
    let back = *rng.pick(&[1u64, 500, 10_000, 30_000, 39_499, 39_500, 120_000]);
    let mut ops = vec![];
    match rng.below(5) {
        3 => {
            // the FIRST instant the agent ever sees is the late one: A is sent late and answered (or
            // cancelled and reaped), then B is started with an earlier instant
            ops.push(Op::Advance(back));
            ops.push(req(0, 0, Sealing::None, 2));
            if rng.chance(1, 2) {
                ops.push(Op::Response { tid: 0, from: 0, error: false, seal: RespSeal::Unsigned, fp: false });
            } else {
                ops.push(Op::Cancel(0));
                ops.push(Op::Poll(PollAt::Now));
            }
            ops.push(Op::Rewind(back));
            ops.push(req(1, 2, Sealing::None, 3));
        }
        4 => {
            // an idle agent is polled late (nothing outstanding), then a request is started earlier
            ops.push(Op::Advance(back));
            ops.push(Op::Poll(PollAt::Now));
            ops.push(Op::Rewind(back));
            ops.push(req(1, 2, Sealing::None, 3));
        }
        0 => {
            // an indication far in the "future", then a request now
            ops.push(Op::Advance(back));
            ops.push(Op::Send { kind: MsgKind::Indication, tid: 5, dest: 1, seal: Sealing::None, payload: 1 });
            ops.push(Op::Rewind(back));
            ops.push(req(0, 0, Sealing::None, 2));
        }
        1 => {
            // A sent and answered late, then B started with an earlier instant
            ops.push(req(0, 0, Sealing::None, 2));
            ops.push(Op::Advance(back));
            ops.push(Op::Response { tid: 0, from: 0, error: false, seal: RespSeal::Unsigned, fp: false });
            ops.push(Op::Rewind(back));
            ops.push(req(1, 2, Sealing::None, 3));
        }
        _ => {
            // A polled late (its schedule moves on), B started earlier, both polled on
            ops.push(req(0, 0, Sealing::None, 2));
            ops.push(Op::Poll(PollAt::After(back)));
            ops.push(Op::Rewind(back / 2 + 1));
            ops.push(req(1, 2, Sealing::None, 3));
        }
    }
    for _ in 0..(6 + rng.usize(10)) {
        ops.push(Op::Poll(*rng.pick(&[PollAt::AtWait, PollAt::AtWait, PollAt::Half, PollAt::After(1)])));
    }
    History { tcp: rng.chance(1, 4), remote0: None, remote_addr: None, ops }
}

/// (10) many concurrent transactions: 20..=1500 requests started at one instant (ids beyond the core
///      eight), polled through their whole schedules; a few core transactions run alongside
pub fn gen_many_transactions(rng: &mut crate::prng::Rng) -> History {
    let count = *rng.pick(&[20usize, 33, 65, 129, 257, 500, 1025, 1500]);
    let first = NTID + rng.usize(60_000 - count);
    let mut ops = vec![req(0, 1, Sealing::None, 3)];
    ops.push(Op::SendBurst { first: first as u16, count: count as u16 });
    ops.push(req(1, 2, Sealing::None, 4));
    if rng.chance(1, 2) {
        // short schedules keep the history small: every transaction of the burst keeps the default one,
        // the core ones are reconfigured
        ops.push(Op::Configure { tid: 0, rto: 100, n: 2, last: 50, rto_us: 0, last_us: 0 });
    }
    // serve the first wave partly with polls at different instants, then let the drain finish
    for _ in 0..(count / 4 + 8) {
        ops.push(Op::Poll(*rng.pick(&[PollAt::AtWait, PollAt::AtWait, PollAt::Now, PollAt::After(1)])));
    }
    ops.push(Op::Response { tid: 1, from: 2, error: false, seal: RespSeal::Unsigned, fp: false });
    History { tcp: rng.chance(1, 5), remote0: None, remote_addr: None, ops }
}

/// (9) many distinct peers: messages accepted from 70..=240 different source addresses; every one
///     of them must be (and stay) validated, none of the others may be.
pub fn gen_many_peers(rng: &mut crate::prng::Rng) -> History {
    let npeers = 70 + rng.usize(171);
    let first = NCORE + rng.usize(256 - NCORE - npeers + 1); // single-peer operations carry u8 indices
    let mut ops = vec![];
    // one history in four starts with a burst of 300..=6000 further peers (beyond any small cache size)
    if rng.chance(1, 4) {
        let count = *rng.pick(&[300usize, 513, 600, 1025, 1500, 2049, 4097, 6000]);
        let bfirst = 256 + rng.usize(NADDR - 256 - count);
        ops.push(Op::IncomingBurst { first: bfirst as u16, count: count as u16 });
    }
    for k in 0..npeers {
        let from = (first + k) as u8;
        match rng.below(4) {
            0 | 1 => ops.push(Op::Incoming { request: rng.chance(1, 2), tid: rng.below(NTID as u64) as u8, from }),
            2 => {
                let tid = (k % 4) as u8;
                ops.push(req(tid, from, Sealing::None, k as u16));
                ops.push(Op::Response { tid, from, error: false, seal: RespSeal::Unsigned, fp: false });
            }
            _ => {
                // a dropped response (unknown id) from a peer validates nothing
                ops.push(Op::Response { tid: 7, from, error: false, seal: RespSeal::Unsigned, fp: false });
            }
        }
        if rng.chance(1, 10) {
            ops.push(Op::Poll(PollAt::AtWait));
        }
    }
    ops.push(Op::Poll(PollAt::AtWait));
    History { tcp: rng.chance(1, 3), remote0: None, remote_addr: None, ops }
}

/// configurations x poll schedules for one to four overlapping transactions (C06)
pub fn schedule_sweep(ctx: &mut Ctx, n: u64) {
    let mut rng = ctx.rng("schedules", 0);
    // default schedules, polled exactly: the instants the property names
    for tcp in [false, true] {
        let mut ops = vec![req(0, 0, Sealing::None, 1)];
        for _ in 0..10 {
            ops.push(Op::Poll(PollAt::AtWait));
        }
        let h = History { tcp, remote0: None, remote_addr: None, ops };
        let r = run_history(ctx, &h, &RunCfg { trap_clock: true, ..Default::default() });
        ctx.eval();
        let sends: Vec<String> = r.log.iter().filter(|l| l.contains("SendData") || l.contains("Transmit") || l.contains("TimedOut")).map(|l| l.split(' ').next().unwrap_or("").to_string()).collect();
        let want: Vec<&str> = if tcp {
            vec!["send@0", "poll@39500"]
        } else {
            vec!["send@0", "poll@500", "poll@1500", "poll@3500", "poll@7500", "poll@15500", "poll@31500", "poll@39500"]
        };
        if sends != want && !ctx.has_violations() {
            ctx.violation(
                "C06",
                "default-schedule",
                "StunAgent::poll",
                if tcp { "tcp" } else { "udp" },
                || h.to_json(),
                format!("{want:?}"),
                format!("{sends:?}"),
            );
        }
        ctx.count("default-schedules-checked");
        ctx.sample(if tcp { "default-tcp" } else { "default-udp" }, || json!({"history": h.to_json(), "replies": r.log}));
    }
    for i in 0..n {
        let ntx = 1 + rng.usize(4);
        let tcp = rng.chance(1, 4);
        let mut ops = vec![];
        for t in 0..ntx {
            // one schedule in four belongs to an authenticated request
            let seal = if rng.chance(1, 4) { *rng.pick(&[Sealing::Sha1, Sealing::Sha256, Sealing::Both]) } else { Sealing::None };
            ops.push(req(t as u8, t as u8, seal, t as u16));
            if rng.chance(3, 4) {
                ops.push(gen_configure(&mut rng, t as u8));
            }
            if rng.chance(1, 2) {
                ops.push(Op::Advance(rng.below(2_000)));
            }
        }
        let style = rng.below(5);
        let bystanders = rng.chance(1, 3);
        let steps = 6 + rng.usize(30);
        for s in 0..steps {
            ops.push(match style {
                0 => Op::Poll(PollAt::AtWait),
                1 => {
                    if s % 2 == 0 {
                        Op::Poll(PollAt::Before(1))
                    } else {
                        Op::Poll(PollAt::AtWait)
                    }
                }
                2 => Op::Poll(*rng.pick(&[PollAt::After(1), PollAt::After(999), PollAt::After(3_600_000), PollAt::AtWait, PollAt::Now])),
                3 => {
                    let b = 1 + rng.below(100);
                    Op::Poll(*rng.pick(&[PollAt::Half, PollAt::Before(b), PollAt::AtWait, PollAt::AtWait, PollAt::Now]))
                }
                _ => gen_poll(&mut rng),
            });
            if rng.chance(1, 12) {
                let t = rng.below(ntx as u64) as u8;
                ops.push(if rng.chance(1, 2) { gen_configure(&mut rng, t) } else { Op::CancelRetrans(t) });
            }
            // calls that have nothing to do with timing, between the transmissions
            if bystanders && rng.chance(1, 6) {
                let busy = rng.below(ntx as u64) as u8;
                ops.push(gen_bystander(&mut rng, busy));
                ctx.count("bystander-calls-in-schedules");
            }
        }
        let h = History { tcp, remote0: if rng.chance(1, 3) { Some(0) } else { None }, remote_addr: None, ops };
        run_plain(ctx, &h);
        ctx.count("schedule-histories");
        if i < 1 {
            ctx.sample("schedule", || h.to_json());
        }
    }
    // exhaustive-ish configuration grid with exact polling
    let rtos = [1u64, 2, 499, 500, 501, 1000, 59_999, 60_000];
    let lasts = [0u64, 1, 8000, 60_000];
    let mut gi = 0u64;
    for rto in rtos {
        for nre in 0..=8u32 {
            for last in lasts {
                for tcp in [false, true] {
                    gi += 1;
                    if !ctx.mine(gi) {
                        continue;
                    }
                    // every third grid point carries sub-millisecond parts (interval = rto * 2^i truncated)
                    let (rto_us, last_us) = if gi % 3 == 0 { ([1u16, 500, 999][(gi / 3 % 3) as usize], [0u16, 999][(gi / 9 % 2) as usize]) } else { (0, 0) };
                    let mut ops = vec![req(0, 0, Sealing::None, 1), Op::Configure { tid: 0, rto, n: nre, last, rto_us, last_us }];
                    for _ in 0..12 {
                        ops.push(Op::Poll(PollAt::AtWait));
                    }
                    run_plain(ctx, &History { tcp, remote0: None, remote_addr: None, ops });
                    ctx.count("configuration-grid");
                }
            }
        }
    }
}

// ---------------------------------------------------------------------------------------------
// per-property entry points

fn common_requires(ctx: &mut Ctx) {
    ctx.require("requests-started", 2_000);
    ctx.require("completed-delivered", 300);
    ctx.require("completed-timed-out", 300);
    ctx.require("completed-cancelled", 100);
    ctx.require("retransmissions-checked", 2_000);
}

pub fn run_c05(ctx: &mut Ctx) {
    let quick = ctx.tier == Tier::Quick;
    small_scope(ctx, if quick { 4 } else { 5 }, &small_alphabet());
    let n = ctx.n(12_000, 160_000);
    random_histories(ctx, n, "general", 200, if quick { 800 } else { 2000 }, 8);
    random_histories(ctx, n / 2, "general", 20, 120, 3);
    stress_shapes(ctx, ctx.n(640, 6_400));
    common_requires(ctx);
    ctx.require("duplicate-id-refused", 500);
    ctx.require("response-dropped-unknown-tid", 500);
    ctx.require("enumerated-histories", 50_000);
    ctx.require("simultaneous-due-histories", 100);
}

pub fn run_c06(ctx: &mut Ctx) {
    let quick = ctx.tier == Tier::Quick;
    let n = ctx.n(400_000, 6_000_000);
    schedule_sweep(ctx, n);
    random_histories(ctx, ctx.n(12_000, 120_000), "timing", 100, if quick { 500 } else { 1500 }, 4);
    // timing-relevant slice of the small-scope alphabet, one level deeper
    let a = small_alphabet();
    let timing: Vec<Op> = vec![a[0].clone(), a[1].clone(), a[3].clone(), a[4].clone(), a[5].clone(), a[12].clone(), a[13].clone(), Op::Poll(PollAt::Half), Op::Configure { tid: 1, rto: 60_000, n: 8, last: 0, rto_us: 0, last_us: 0 }];
    small_scope(ctx, if quick { 5 } else { 6 }, &timing);
    stress_shapes(ctx, ctx.n(320, 3_200));
    ctx.require("requests-started", 50_000);
    ctx.require("retransmissions-checked", 100_000);
    ctx.require("timeouts-checked", 10_000);
    ctx.require("configure-calls", 20_000);
    ctx.require("cancel-retransmissions-calls", 1_000);
    ctx.require("configuration-grid", 500);
    ctx.require("default-schedules-checked", 2);
    ctx.require("bystander-calls-in-schedules", 10_000);
    ctx.require("bystander-call-histories", 300);
    ctx.require("handle-used-after-routing-a-call-through-it", 200);
}

pub fn run_c07(ctx: &mut Ctx) {
    let quick = ctx.tier == Tier::Quick;
    // authentication slice of the alphabet
    let alpha: Vec<Op> = vec![
        req(1, 2, Sealing::Sha1, 5),
        req(0, 0, Sealing::None, 2),
        req(2, 1, Sealing::Both, 7),
        Op::Poll(PollAt::AtWait),
        Op::Poll(PollAt::Half),
        Op::Response { tid: 1, from: 2, error: false, seal: RespSeal::Sha1(0), fp: true },
        Op::Response { tid: 1, from: 3, error: true, seal: RespSeal::Unsigned, fp: false },
        Op::Response { tid: 1, from: 2, error: false, seal: RespSeal::Sha1(2), fp: false },
        Op::Response { tid: 1, from: 2, error: false, seal: RespSeal::CorruptSha1(0), fp: false },
        Op::Response { tid: 2, from: 1, error: false, seal: RespSeal::Sha256(0, 16), fp: false },
        Op::Response { tid: 0, from: 0, error: false, seal: RespSeal::CorruptSha256(1), fp: false },
        Op::Response { tid: 1, from: 2, error: false, seal: RespSeal::OddLen(0, 0), fp: false },
        Op::SetRemote(2),
        Op::SetRemote(0),
        // the agent's own (local) credentials never authenticate a response
        Op::SetLocal(0),
        // ... nor do long-term local credentials turn an unsigned 401 / 438 challenge into an answer
        Op::SetLocal(1),
        Op::Response { tid: 1, from: 2, error: true, seal: RespSeal::Unsigned, fp: true },
    ];
    // remote credentials initially unset for half of the enumerated histories
    let mut gi = 0u64;
    for depth in 1..=(if quick { 4 } else { 5 }) {
        for remote0 in [None, Some(0u8)] {
            let mut todo = vec![];
            for_each_small(depth, &alpha, false, |_c, mut h| {
                gi += 1;
                if ctx.mine(gi) {
                    h.remote0 = remote0;
                    todo.push(h);
                }
            });
            for h in todo {
                run_plain(ctx, &h);
                ctx.count("enumerated-histories");
            }
        }
    }
    let n = ctx.n(24_000, 240_000);
    random_histories(ctx, n, "auth", 60, if quick { 400 } else { 1200 }, 4);
    stress_shapes(ctx, ctx.n(480, 4_800));
    ctx.require("delivered-authenticated", 1_000);
    ctx.require("delivered-unauthenticated", 1_000);
    ctx.require("response-dropped-outstanding", 5_000);
    ctx.require("forged-response-dropped-then-monitored", 2_000);
    ctx.require("retransmissions-checked", 5_000);
    ctx.require("completed-timed-out", 500);
}

pub fn run_c15(ctx: &mut Ctx) {
    let quick = ctx.tier == Tier::Quick;
    let a = small_alphabet();
    let alpha: Vec<Op> = vec![
        a[0].clone(),
        a[1].clone(),
        a[3].clone(),
        a[6].clone(),
        a[7].clone(),
        a[8].clone(),
        a[9].clone(),
        a[10].clone(),
        Op::Incoming { request: false, tid: 4, from: 1 },
        Op::Response { tid: 0, from: 1, error: false, seal: RespSeal::Unsigned, fp: false },
        Op::Response { tid: 1, from: 4, error: false, seal: RespSeal::Sha1(0), fp: false },
        a[11].clone(),
    ];
    small_scope(ctx, if quick { 4 } else { 5 }, &alpha);
    let n = ctx.n(16_000, 160_000);
    random_histories(ctx, n, "general", 100, if quick { 600 } else { 1500 }, 6);
    random_histories(ctx, n, "auth", 50, 300, 4);
    // many distinct peers (70..=240 source addresses per history): all validated, all stay validated
    {
        let mut rng = ctx.rng("many-peers", 0);
        for _ in 0..ctx.n(320, 3_200) {
            let h = gen_many_peers(&mut rng);
            run_plain(ctx, &h);
            ctx.count("many-peers-histories");
        }
    }
    // every special source address (wildcards, port 0, multicast, broadcast, loopback, link-local,
    // IPv4-mapped, all-ones ...) through each accept path and each drop path
    if ctx.shard % 4 == 0 {
        for s in 8u8..32 {
            for variant in 0..6 {
                let mut ops = vec![];
                match variant {
                    0 => ops.push(Op::Incoming { request: true, tid: 1, from: s }),
                    1 => ops.push(Op::Incoming { request: false, tid: 2, from: s }),
                    2 => {
                        ops.push(req(3, s, Sealing::None, 2));
                        ops.push(Op::Response { tid: 3, from: s, error: false, seal: RespSeal::Unsigned, fp: true });
                    }
                    3 => {
                        ops.push(req(3, s, Sealing::Sha1, 4));
                        ops.push(Op::Response { tid: 3, from: s, error: true, seal: RespSeal::Sha1(0), fp: false });
                    }
                    4 => {
                        // dropped: nothing outstanding / wrong key
                        ops.push(Op::Response { tid: 5, from: s, error: false, seal: RespSeal::Unsigned, fp: false });
                        ops.push(req(3, 0, Sealing::Sha1, 4));
                        ops.push(Op::Response { tid: 3, from: s, error: false, seal: RespSeal::Sha1(2), fp: false });
                    }
                    _ => ops.push(Op::IncomingSigned { request: true, tid: 1, from: s, cred: 0, good: true }),
                }
                ops.push(Op::Poll(PollAt::AtWait));
                ops.push(Op::Incoming { request: false, tid: 6, from: (s % 8) });
                for tcp in [false, true] {
                    let h = History { tcp, remote0: Some(0), remote_addr: None, ops: ops.clone() };
                    run_plain(ctx, &h);
                    ctx.count("special-source-address-histories");
                }
            }
        }
    }
    // very many accepted messages from one address (beyond any 8- or 16-bit count): still validated
    if ctx.shard % 8 == 1 || !quick {
        let mut rng = ctx.rng("flood", 0);
        for count in [255u32, 256, 257, 65_535, 65_536, 65_537, 70_000] {
            let from = rng.below(NCORE as u64) as u8;
            let ops = vec![
                Op::Incoming { request: true, tid: 0, from: ((from + 1) % NCORE as u8) },
                Op::IncomingFlood { from, count },
                Op::Poll(PollAt::AtWait),
                Op::Incoming { request: false, tid: 1, from },
            ];
            let h = History { tcp: rng.chance(1, 2), remote0: None, remote_addr: None, ops };
            run_plain(ctx, &h);
            ctx.count("flood-histories");
        }
    }
    // validated peers stay validated however long nothing happens: idle polls hours, days and years
    // apart (following the agent's own idle wake-ups, and in big jumps)
    {
        let mut rng = ctx.rng("long-idle", 0);
        for k in 0..ctx.n(32, 320) {
            let mut ops = vec![Op::Incoming { request: true, tid: 0, from: 1 }, req(1, 2, Sealing::None, 3), Op::Response { tid: 1, from: 2, error: false, seal: RespSeal::Unsigned, fp: false }, Op::Poll(PollAt::Now)];
            match k % 4 {
                0 => {
                    for _ in 0..30 {
                        ops.push(Op::Poll(PollAt::AtWait));
                    }
                }
                1 => {
                    ops.push(Op::Advance(90_000_000));
                    ops.push(Op::Poll(PollAt::Now));
                    ops.push(Op::Advance(90_000_000));
                    ops.push(Op::Poll(PollAt::Now));
                }
                2 => {
                    ops.push(Op::Advance(*rng.pick(&[86_400_000u64, 86_400_001, 604_800_000, 31_536_000_000, 315_360_000_000])));
                    ops.push(Op::Poll(PollAt::Now));
                    ops.push(Op::Poll(PollAt::AtWait));
                }
                _ => {
                    // traffic from one peer keeps coming, the other one is silent for days
                    for _ in 0..5 {
                        ops.push(Op::Advance(40_000_000));
                        ops.push(Op::Incoming { request: false, tid: 3, from: 1 });
                        ops.push(Op::Poll(PollAt::Now));
                    }
                }
            }
            ops.push(Op::Incoming { request: false, tid: 2, from: 4 });
            ops.push(Op::Poll(PollAt::AtWait));
            let h = History { tcp: k % 8 >= 4, remote0: None, remote_addr: None, ops };
            run_plain(ctx, &h);
            ctx.count("long-idle-histories");
        }
        ctx.require("long-idle-histories", 32);
    }
    ctx.require("flood-histories", 7);
    ctx.require("special-source-address-histories", 200);
    ctx.require("many-peers-histories", 100);
    ctx.require("incoming-accepted", 2_000);
    ctx.require("completed-delivered", 1_000);
    ctx.require("response-dropped-outstanding", 1_000);
    ctx.require("response-dropped-unknown-tid", 1_000);
}

/// (15) every special destination (wildcards, port 0, multicast, broadcast, IPv4-mapped, zoned and
///      flow-labelled link-local ...): a request, an indication and a response sent there; the request
///      followed through part of its schedule, answered from exactly that address or not at all
pub fn special_destinations(ctx: &mut Ctx) {
    let mut rng = ctx.rng("special-destinations", 0);
    let mut gi = 0u64;
    for dest in 8u8..32 {
        for tcp in [false, true] {
            for variant in 0..4u8 {
                gi += 1;
                if !ctx.mine(gi) {
                    continue;
                }
                let seal = if variant % 2 == 0 { Sealing::None } else { Sealing::Sha1 };
                let mut ops = vec![req(2, dest, seal, 60 + dest as u16)];
                if variant >= 2 {
                    ops.push(Op::Configure { tid: 2, rto: 50 + rng.below(300), n: 3, last: 400, rto_us: 0, last_us: 0 });
                }
                ops.push(Op::Send { kind: MsgKind::Indication, tid: 3, dest, seal: Sealing::None, payload: 61 });
                ops.push(Op::Send { kind: if variant % 2 == 0 { MsgKind::Success } else { MsgKind::Error }, tid: 4, dest, seal: Sealing::None, payload: 62 });
                for _ in 0..3 {
                    ops.push(Op::Poll(PollAt::AtWait));
                }
                // another request to a neighbouring special address: two destinations, two transactions
                ops.push(req(5, 8 + (dest - 8 + 1) % 24, Sealing::None, 63));
                ops.push(Op::Poll(PollAt::AtWait));
                if variant == 1 || variant == 2 {
                    ops.push(Op::Response { tid: 2, from: dest, error: false, seal: if seal == Sealing::None { RespSeal::Unsigned } else { RespSeal::Sha1(0) }, fp: true });
                }
                for _ in 0..8 {
                    ops.push(Op::Poll(PollAt::AtWait));
                }
                run_plain(ctx, &History { tcp, remote0: Some(0), remote_addr: None, ops });
                ctx.count("special-destination-histories");
            }
        }
    }
}

pub fn run_c18(ctx: &mut Ctx) {
    let quick = ctx.tier == Tier::Quick;
    special_destinations(ctx);
    ctx.require("special-destination-histories", 150);
    small_scope(ctx, if quick { 3 } else { 4 }, &small_alphabet());
    let n = ctx.n(20_000, 200_000);
    random_histories(ctx, n, "general", 100, if quick { 600 } else { 1500 }, 8);
    random_histories(ctx, n / 2, "timing", 60, 300, 4);
    stress_shapes(ctx, ctx.n(320, 3_200));
    ctx.require("requests-started", 5_000);
    ctx.require("non-requests-sent", 2_000);
    ctx.require("retransmissions-checked", 10_000);
}

/// C20: replay each history under shifted instants / other instances / noise / threads and compare
pub fn run_c20(ctx: &mut Ctx) {
    let quick = ctx.tier == Tier::Quick;
    if !cfg!(miri) && !crate::clock::probe() {
        ctx.inconclusive.push("clock interposer is not live in this process (Instant::now() not observed)".into());
    } else {
        ctx.count("clock-interposer-live");
    }
    if !cfg!(miri) && crate::clock::probe_env() {
        ctx.count("getenv-interposer-live");
    }
    let n = ctx.n(12_000, 120_000);
    let mut rng = ctx.rng("c20", 0);
    for i in 0..n {
        let len = 20 + rng.usize(if quick { 200 } else { 600 });
        let emphasis = *rng.pick(&["general", "timing", "auth"]);
        let h = gen_history(&mut rng, len, 4, emphasis);
        let rs = rng.below(1_000_000_000);
        let shift = *rng.pick(&[1u64, 1000, 3_600_000, 1_000_000_000, rs]);
        check_c20_history(ctx, &h, shift, i % 16 == 0);
        if i < 2 {
            ctx.sample("history", || json!({"operations": len, "shift_ms": shift, "first_operations": History { tcp: h.tcp, remote0: h.remote0, remote_addr: h.remote_addr, ops: h.ops.iter().take(10).cloned().collect() }.to_json()}));
        }
    }
    // shapes: staggered service of simultaneously due transactions, many distinct peers, schedule extension
    let nshape = ctx.n(640, 6_400);
    for i in 0..nshape {
        let h = match i % 8 {
            0 if i % 64 == 0 => gen_many_transactions(&mut rng),
            0 => gen_many_peers(&mut rng),
            1 | 2 => gen_extended_schedule(&mut rng),
            3 | 4 => gen_stale_instants(&mut rng),
            5 => gen_answered_between_polls(&mut rng),
            _ => gen_staggered_service(&mut rng),
        };
        check_c20_history(ctx, &h, 1 + rng.below(1_000_000), i % 32 == 0);
        ctx.count("shape-histories");
    }
    // the enumerated small scope, each history replayed shifted
    let mut gi = 0u64;
    let a = small_alphabet();
    for depth in 1..=(if quick { 3 } else { 4 }) {
        let mut todo = vec![];
        for_each_small(depth, &a, false, |_c, h| {
            gi += 1;
            if ctx.mine(gi) {
                todo.push(h);
            }
        });
        for h in todo {
            check_c20_history(ctx, &h, 86_400_000, false);
            ctx.count("enumerated-histories");
        }
    }
    ctx.require("histories-compared", 1_000);
    ctx.require("non-drain-model-runs", 1_000);
    ctx.require("shape-histories", 100);
    ctx.require("variant-runs", 5_000);
    ctx.require("threaded-runs", 50);
    let seen = super::agent::TRACE_SEEN.with(|c| c.replace(0));
    ctx.count_n("tracing-events-seen-under-the-subscriber", seen);
    ctx.require("tracing-events-seen-under-the-subscriber", 10_000);
    if !cfg!(miri) {
        ctx.require("clock-interposer-live", 1);
        ctx.require("getenv-interposer-live", 1);
    }
}

pub fn check_c20_history(ctx: &mut Ctx, h: &History, shift: u64, threads: bool) {
    ctx.eval();
    ctx.distinct(hist_key(h));
    let base_cfg = RunCfg { drain_polls: true, trap_clock: true, log_observations: true, ..Default::default() };
    let base = run_history(ctx, h, &base_cfg);
    ctx.count("histories-compared");
    check_no_interference(ctx, h);
    let variants: Vec<(&str, RunCfg)> = vec![
        ("shifted", RunCfg { shift_ms: shift, ..base_cfg.clone() }),
        ("second-instance", base_cfg.clone()),
        ("with-unrelated-agents", RunCfg { noise_agents: true, ..base_cfg.clone() }),
        ("shifted-with-unrelated-agents", RunCfg { shift_ms: shift / 2 + 1, noise_agents: true, ..base_cfg.clone() }),
        // whether anybody listens to the library's tracing events is ambient state too
        ("with-tracing-subscriber", RunCfg { with_subscriber: true, ..base_cfg.clone() }),
    ];
    for (name, cfg) in variants {
        let r = run_history(ctx, h, &cfg);
        ctx.count("variant-runs");
        compare_logs(ctx, h, name, &base.log, &r.log, cfg.shift_ms);
    }
    if threads {
        // one spawned thread, then four threads replaying concurrently: each thread runs with its
        // own monitor context whose violations are merged afterwards
        let mut logs = vec![];
        let mk = |k: u64, h: &History, ctx: &Ctx| {
            let hh = h.clone();
            let prop = ctx.prop.clone();
            let (tier, seed, shard, nshards) = (ctx.tier, ctx.seed, ctx.shard, ctx.nshards);
            let cfg = RunCfg { drain_polls: true, trap_clock: true, log_observations: true, shift_ms: k * 977, noise_agents: k % 2 == 1, ..Default::default() };
            move || {
                let mut c2 = Ctx::new_quiet(&prop, tier, seed, shard, nshards);
                let r = run_history(&mut c2, &hh, &cfg);
                (r, c2.violations.clone())
            }
        };
        // one spawned thread on its own, then four threads replaying concurrently
        let mut results = vec![(0u64, std::thread::spawn(mk(0, h, ctx)).join())];
        let handles: Vec<_> = (1..5u64).map(|k| (k, std::thread::spawn(mk(k, h, ctx)))).collect();
        for (k, j) in handles {
            results.push((k, j.join()));
        }
        for (k, res) in results {
            match res {
                Ok((r, viols)) => {
                    for v in viols {
                        let sig = v["signature"].as_str().unwrap_or("").to_string();
                        let parts: Vec<&str> = sig.split('|').collect();
                        if parts.len() >= 4 {
                            ctx.violation(parts[0], parts[1], parts[2], &format!("{},thread", parts[3]), || v["witness"].clone(), v["expected"].as_str().unwrap_or("").to_string(), v["observed"].as_str().unwrap_or("").to_string());
                        }
                    }
                    logs.push((k, r.log));
                }
                Err(_) => ctx.violation("C20", "no-panic", "StunAgent", "thread", || h.to_json(), "thread completes".into(), "thread panicked".into()),
            }
            ctx.count("threaded-runs");
        }
        for (k, l) in logs {
            compare_logs(ctx, h, if k == 0 { "spawned-thread" } else { "concurrent-threads" }, &base.log, &l, 0);
        }
    }
}

/// "Instants passed to one call do not leak into another transaction's schedule": run the history
/// without draining (polls at different instants serve simultaneously due transactions one by one)
/// under the reference model.  If the model is violated on the full history but holds on every
/// projection of the history onto a single transaction id (same polls, same instants), the
/// deviation is caused by the *other* transactions' calls: interference, a C20 matter.  (A
/// deviation that also shows on a projection is a plain C05/C06/C18 defect and is left to those
/// checks.)
fn check_no_interference(ctx: &mut Ctx, h: &History) {
    let cfg = RunCfg { trap_clock: true, ..Default::default() };
    let full = run_history(ctx, h, &cfg);
    ctx.count("non-drain-model-runs");
    let Some(tag) = full.failed_tag else {
        return;
    };
    if !(tag.starts_with("C05") || tag.starts_with("C06") || tag.starts_with("C18")) {
        return;
    }
    let tid_of = |o: &Op| match o {
        Op::Send { kind: MsgKind::Request, tid, .. } | Op::Response { tid, .. } | Op::Cancel(tid) | Op::CancelRetrans(tid) | Op::Configure { tid, .. } => Some(*tid % NTID as u8),
        _ => None,
    };
    let tids: BTreeSet<u8> = h.ops.iter().filter_map(tid_of).collect();
    if tids.len() < 2 {
        return;
    }
    let mut clean = true;
    for t in &tids {
        let ops: Vec<Op> = h.ops.iter().filter(|o| tid_of(o).map_or(true, |x| x == *t)).cloned().collect();
        let hp = History { tcp: h.tcp, remote0: h.remote0, remote_addr: h.remote_addr, ops };
        if run_history(ctx, &hp, &cfg).failed_tag.is_some() {
            clean = false;
            break;
        }
        ctx.count("projection-runs");
    }
    if clean {
        ctx.violation(
            "C20",
            "transactions-do-not-interfere",
            "StunAgent",
            tag.split('|').nth(1).unwrap_or(""),
            || h.to_json(),
            "every transaction behaves as in the projection of the history onto its own calls (the reference model holds on each projection)".into(),
            format!("the model is violated only when the transactions run together: {tag}"),
        );
    }
}

/// Events produced by polls at one and the same instant may legitimately come out in any order
/// (hash order of the outstanding map): sort every run of event lines sharing a `poll@<t>` prefix.
fn normalise(log: &[String]) -> Vec<String> {
    let mut out: Vec<String> = Vec::with_capacity(log.len());
    let mut run: Vec<String> = vec![];
    let mut run_key = String::new();
    for l in log {
        let key = if l.starts_with("poll@") && !l.contains("WaitUntil") { l.split(' ').next().unwrap_or("").to_string() } else { String::new() };
        if key.is_empty() || key != run_key {
            run.sort();
            out.append(&mut run);
            run_key = key.clone();
        }
        if key.is_empty() {
            // a WaitUntil at the same instant closes the run but stays in place
            out.push(l.clone());
            if !l.starts_with("poll@") {
                run_key.clear();
            }
        } else {
            run.push(l.clone());
        }
    }
    run.sort();
    out.append(&mut run);
    out
}

fn compare_logs(ctx: &mut Ctx, h: &History, variant: &str, a: &[String], b: &[String], shift: u64) {
    if a == b {
        return;
    }
    let (a, b) = (&normalise(a), &normalise(b));
    if a == b {
        return;
    }
    let i = a.iter().zip(b.iter()).position(|(x, y)| x != y).unwrap_or(a.len().min(b.len()));
    let mut w = h.to_json();
    w["shift_ms"] = json!(shift);
    w["variant"] = json!(variant);
    ctx.violation(
        "C20",
        "replay-equal",
        "StunAgent",
        variant,
        || w,
        format!("reply #{i}: {:?}", a.get(i)),
        format!("reply #{i}: {:?} (instants are offsets from the run's own base)", b.get(i)),
    );
}

pub fn replay(ctx: &mut Ctx, w: &Value) -> Result<(), String> {
    if ctx.prop == "C20" {
        let h = History::from_json(w).ok_or("bad history")?;
        let shift = w.get("shift_ms").and_then(|s| s.as_u64()).unwrap_or(1000);
        for _ in 0..4 {
            check_c20_history(ctx, &h, shift.max(1), true);
        }
        Ok(())
    } else {
        super::agent::replay(ctx, w)
    }
}
