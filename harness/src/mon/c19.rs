//! C19 — message type and transaction id fields are encoded bijectively per the RFC.

use crate::ctx::{guard, hash64, Ctx};
use crate::refimpl::crypto::hex;
use crate::refimpl::parse::{class_of, method_of, type_field, COOKIE};
use serde_json::{json, Value};
use stun_types::message::{Message, MessageClass, MessageHeader, MessageType, TransactionId};

fn class_num(c: MessageClass) -> u8 {
    match c {
        MessageClass::Request => 0,
        MessageClass::Indication => 1,
        MessageClass::Success => 2,
        MessageClass::Error => 3,
    }
}
fn class_from(n: u8) -> MessageClass {
    match n {
        0 => MessageClass::Request,
        1 => MessageClass::Indication,
        2 => MessageClass::Success,
        _ => MessageClass::Error,
    }
}

/// one 16-bit type-field value, decoded from a slice with `extra` trailing bytes
pub fn check_type_field(ctx: &mut Ctx, v: u16, extra: usize, seen: Option<&mut std::collections::HashSet<(u8, u16)>>) {
    ctx.eval();
    ctx.distinct(hash64(&[1, v as u64, extra as u64]));
    let mut buf = vec![(v >> 8) as u8, v as u8];
    buf.extend(std::iter::repeat(0xA5).take(extra));
    let wit = || json!({"kind": "type-field", "value": v, "extra": extra});
    // a type field with one of the top two bits set is "not STUN" for every decoder that reads it,
    // whatever the rest of the header says (any length field, a short or a long buffer)
    if v & 0xC000 != 0 && extra == 0 {
        for (len_field, total) in [(0u16, 20usize), (0, 172), (4660, 172), (0xffff, 20), (8, 28), (3, 24)] {
            let mut m = vec![0u8; total];
            m[0] = (v >> 8) as u8;
            m[1] = v as u8;
            m[2] = (len_field >> 8) as u8;
            m[3] = len_field as u8;
            m[4..8].copy_from_slice(&COOKIE);
            let r = guard(|| (Message::from_bytes(&m).map(|_| ()).map_err(|e| format!("{e:?}")), MessageHeader::from_bytes(&m).map(|_| ()).map_err(|e| format!("{e:?}"))));
            if let Ok((full, hdr)) = r {
                if full != Err("NotStun".to_string()) || hdr != Err("NotStun".to_string()) {
                    ctx.violation(
                        "C19",
                        "type-decode-accept-iff",
                        "Message::from_bytes",
                        "top-bits-set-not-reported-as-not-stun",
                        || json!({"kind": "type-field-in-buffer", "value": v, "length_field": len_field, "total": total}),
                        "Err(NotStun) from the parser and the header decoder".into(),
                        format!("parser {full:?}, header decoder {hdr:?} (length field {len_field}, {total} bytes)"),
                    );
                    break;
                }
            }
        }
    }
    let r = guard(|| MessageType::from_bytes(&buf));
    let r2 = guard(|| MessageType::try_from(&buf[..]));
    let want_ok = v & 0xC000 == 0;
    match (r, r2) {
        (Err(p), _) | (_, Err(p)) => ctx.violation(
            "C19",
            "type-decode-no-panic",
            "MessageType::from_bytes",
            "len>=2",
            wit,
            "Ok or Err".into(),
            format!("panic {} at {}", p.msg, p.loc),
        ),
        (Ok(a), Ok(b)) => {
            if a.is_ok() != b.is_ok() {
                ctx.violation(
                    "C19",
                    "type-decode-tryfrom-agrees",
                    "MessageType::try_from",
                    "",
                    wit,
                    format!("{:?}", a.as_ref().map(|t| t.method())),
                    format!("{:?}", b.as_ref().map(|t| t.method())),
                );
            }
            match a {
                Ok(t) => {
                    ctx.count("type_field_accepted");
                    if !want_ok {
                        ctx.violation(
                            "C19",
                            "type-decode-accept-iff",
                            "MessageType::from_bytes",
                            "top-bits-set-accepted",
                            wit,
                            "Err(NotStun)".into(),
                            format!("Ok({:?})", t),
                        );
                        return;
                    }
                    let (c, m) = (class_num(t.class()), t.method());
                    if c != class_of(v) || m != method_of(v) {
                        ctx.violation(
                            "C19",
                            "type-decode-fields",
                            "MessageType::{class,method}",
                            "",
                            wit,
                            format!("class {} method {:#x}", class_of(v), method_of(v)),
                            format!("class {c} method {m:#x}"),
                        );
                    }
                    if t.is_response() != (class_of(v) >= 2) {
                        ctx.violation(
                            "C19",
                            "type-is-response",
                            "MessageType::is_response",
                            "",
                            wit,
                            format!("{}", class_of(v) >= 2),
                            format!("{}", t.is_response()),
                        );
                    }
                    // re-encoding gives the same 16 bits
                    let back = t.to_bytes();
                    if back != [(v >> 8) as u8, v as u8] {
                        ctx.violation(
                            "C19",
                            "type-reencode",
                            "MessageType::to_bytes",
                            "",
                            wit,
                            format!("{:04x}", v),
                            hex(&back),
                        );
                    }
                    if let Some(s) = seen {
                        if !s.insert((c, m)) {
                            ctx.violation(
                                "C19",
                                "type-decode-injective",
                                "MessageType::from_bytes",
                                "",
                                wit,
                                "unique (class, method)".into(),
                                format!("duplicate ({c}, {m:#x})"),
                            );
                        }
                    }
                }
                Err(e) => {
                    ctx.count("type_field_refused");
                    let is_notstun = matches!(e, stun_types::message::StunParseError::NotStun);
                    if want_ok || !is_notstun {
                        ctx.violation(
                            "C19",
                            "type-decode-accept-iff",
                            "MessageType::from_bytes",
                            if want_ok { "valid-refused" } else { "wrong-error" },
                            wit,
                            if want_ok { "Ok".into() } else { "Err(NotStun)".into() },
                            format!("Err({e:?})"),
                        );
                    }
                }
            }
        }
    }
}

pub fn check_class_method(ctx: &mut Ctx, c: u8, m: u16) {
    ctx.eval();
    ctx.distinct(hash64(&[2, c as u64, m as u64]));
    let wit = || json!({"kind": "class-method", "class": c, "method": m});
    let r = guard(|| {
        let t = MessageType::from_class_method(class_from(c), m);
        let mut w = [0xEEu8; 4];
        t.write_into(&mut w[..2]);
        // into a longer destination (a packet buffer): the first two bytes, nothing else
        let mut long = [0xEEu8; 20];
        t.write_into(&mut long);
        if long[..2] != w[..2] || long[2..].iter().any(|b| *b != 0xEE) {
            w = [0; 4]; // reported below as a layout failure
        }
        let parsed = MessageType::from_bytes(&t.to_bytes()).ok().map(|p| (class_num(p.class()), p.method()));
        (
            t.to_bytes(),
            w,
            class_num(t.class()),
            t.method(),
            t.has_class(class_from(c)) && t.is_response() == (c >= 2) && (0..4u8).all(|o| t.has_class(class_from(o)) == (o == c)),
            // it has exactly one method: not its neighbours, not values that agree with it in some of
            // their bits, not 16-bit values beyond the 12-bit range whose low bits are m
            t.has_method(m)
                && [m ^ 1, m ^ 0x80, m ^ 0x800, m.wrapping_add(1) & 0xfff, m | 0x1000, m | 0x8000, m | 0xf000, m.wrapping_add(0x1000), want_field_of(c, m)]
                    .iter()
                    .all(|q| *q == m || !t.has_method(*q)),
            parsed,
            format!("{t}").len(),
        )
    });
    let want = type_field(c, m);
    match r {
        Err(p) => ctx.violation(
            "C19",
            "type-encode-no-panic",
            "MessageType::from_class_method",
            "",
            wit,
            "value".into(),
            format!("panic {} at {}", p.msg, p.loc),
        ),
        Ok((bytes, w, c2, m2, hc, hm, parsed, _)) => {
            let wb = [(want >> 8) as u8, want as u8];
            if bytes != wb || w[..2] != wb || w[2..] != [0xEE, 0xEE] {
                ctx.violation(
                    "C19",
                    "type-encode-layout",
                    "MessageType::{to_bytes,write_into}",
                    "",
                    wit,
                    format!("{:04x}", want),
                    format!("to_bytes {} write_into {}", hex(&bytes), hex(&w)),
                );
            }
            if c2 != c || m2 != m || !hc || !hm || parsed != Some((c, m)) {
                ctx.violation(
                    "C19",
                    "type-roundtrip",
                    "MessageType::{class,method,from_bytes}",
                    "",
                    wit,
                    format!("({c}, {m:#x})"),
                    format!("class {c2} method {m2:#x} has_class {hc} has_method {hm} parsed {parsed:?}"),
                );
            }
        }
    }
}

fn want_field_of(c: u8, m: u16) -> u16 {
    type_field(c, m)
}

/// The type field as it appears in bytes 0..2 of messages: built directly (empty, small, and with a
/// body that overflows the 16-bit length field), and in the responses derived from a parsed request
/// (`builder_success` / `builder_error`), for this (class, method).
pub fn check_type_in_messages(ctx: &mut Ctx, c: u8, m: u16, huge: bool) {
    ctx.eval();
    let wit = || json!({"kind": "class-method-in-message", "class": c, "method": m, "huge": huge});
    let want = type_field(c, m);
    let wb = [(want >> 8) as u8, want as u8];
    let r = guard(|| {
        let tid = TransactionId::from(0x1122_3344_5566_7788_99aa_bbccu128);
        let mt = MessageType::from_class_method(class_from(c), m);
        let mut out: Vec<(String, Vec<u8>)> = vec![];
        out.push(("empty message".into(), Message::builder(mt, tid).build()[..2].to_vec()));
        let filler = vec![0x33u8; 65_000];
        let sizes: &[usize] = if huge { &[4, 65_000, 65_528, 65_532, 65_536, 65_540, 70_000, 131_072] } else { &[4] };
        for &body in sizes {
            // raw attributes adding up to `body` bytes of body (each value at most 65 000 bytes)
            let mut b = Message::builder(mt, tid);
            let mut left = body;
            let mut ty = 0xc200u16;
            while left >= 4 {
                let l = (left - 4).min(65_000) & !3usize;
                let _ = b.add_raw_attribute(stun_types::attribute::RawAttribute::new(stun_types::attribute::AttributeType::new(ty), &filler[..l]));
                ty += 1;
                left -= 4 + l;
            }
            let bytes = b.build();
            out.push((format!("build() with a {body}-byte body"), bytes[..2].to_vec()));
            let mut dest = vec![0xA5u8; bytes.len()];
            if b.write_into(&mut dest).is_ok() {
                out.push((format!("write_into() with a {body}-byte body"), dest[..2].to_vec()));
            }
        }
        // the built message decodes back, through the header decoder and the full parser
        {
            let bytes = Message::builder(mt, tid).build();
            let h = MessageHeader::from_bytes(&bytes).map(|h| (class_num(h.get_type().class()), h.get_type().method())).map_err(|e| format!("{e:?}"));
            let f = Message::from_bytes(&bytes).map(|m| (class_num(m.class()), m.method())).map_err(|e| format!("{e:?}"));
            if h != Ok((c, m)) || f != Ok((c, m)) {
                out.push((format!("PARSE header {h:?} message {f:?}"), vec![0xff, 0xff]));
            }
        }
        // responses derived from the parsed request
        let mut derived: Vec<(&'static str, Option<(u8, u16, Vec<u8>)>)> = vec![];
        if c == 0 {
            let req = Message::builder(mt, tid).build();
            if let Ok(msg) = Message::from_bytes(&req) {
                let rd = |b: Vec<u8>| Message::from_bytes(&b).ok().map(|r| (class_num(r.class()), r.method(), b[..2].to_vec()));
                derived.push(("builder_success", rd(Message::builder_success(&msg).build())));
                derived.push(("builder_error", rd(Message::builder_error(&msg).build())));
                derived.push(("bad_request", rd(Message::bad_request(&msg).build())));
                derived.push(("unknown_attributes", rd(Message::unknown_attributes(&msg, &[stun_types::attribute::AttributeType::new(0x7f01)]).build())));
            }
        }
        (out, derived)
    });
    match r {
        Err(p) => ctx.violation("C19", "type-encode-no-panic", "MessageBuilder::build", "", wit, "bytes".into(), format!("panic {} at {}", p.msg, p.loc)),
        Ok((out, derived)) => {
            for (how, got) in out {
                if how.starts_with("PARSE") {
                    ctx.violation("C19", "type-roundtrip", "Message::from_bytes", "built-message", wit, format!("class {c} method {m:#x} from the header decoder and the parser"), how);
                    break;
                }
                if got != wb {
                    ctx.violation("C19", "type-field-in-message", "MessageBuilder::{build,write_into}", if how.contains("byte body") && !how.contains(" 4-byte") { "large-body" } else { "" }, wit, format!("{:04x} in bytes 0..2 ({how})", want), hex(&got));
                    break;
                }
            }
            for (how, got) in derived {
                let wclass = if how == "builder_success" { 2u8 } else { 3 };
                let wf = type_field(wclass, m);
                let ok = matches!(&got, Some((gc, gm, b)) if *gc == wclass && *gm == m && b[..] == [(wf >> 8) as u8, wf as u8]);
                if !ok {
                    ctx.violation("C19", "type-field-in-message", "Message::{builder_success,builder_error}", how, wit, format!("class {wclass} method {m:#x} = {wf:04x} via {how}"), format!("{got:x?}"));
                    break;
                }
            }
            ctx.count("type-fields-in-messages");
        }
    }
}

pub fn check_tid(ctx: &mut Ctx, x: u128) {
    ctx.eval();
    ctx.distinct(hash64(&[3, x as u64, (x >> 64) as u64]));
    let wit = || json!({"kind": "tid", "value": format!("{:032x}", x)});
    let low = x & ((1u128 << 96) - 1);
    let r = guard(|| {
        let t = TransactionId::from(x);
        let back: u128 = t.into();
        let mt = MessageType::from_class_method(MessageClass::Request, 1);
        let b = Message::builder(mt, t);
        let btid: u128 = b.transaction_id().into();
        let bytes = b.build();
        let parsed = Message::from_bytes(&bytes).ok().map(|m| u128::from(m.transaction_id()));
        let hdr = MessageHeader::from_bytes(&bytes).ok().map(|h| u128::from(h.transaction_id()));
        let _ = format!("{t} {t:?}");
        // every one of the 96 bits tells two ids apart (equality, hashing, ordering of the wire bytes);
        // bits above them tell nothing
        let mut bit_faults: Vec<u32> = vec![];
        if (x ^ (x >> 64)) as u64 % 8 == 0 {
            use std::collections::HashSet;
            let mut set: HashSet<TransactionId> = HashSet::new();
            set.insert(t);
            for k in 0..128u32 {
                let o = TransactionId::from(x ^ (1u128 << k));
                let same = o == t && set.contains(&o);
                let differ = o != t && !set.contains(&o);
                if (k < 96 && !differ) || (k >= 96 && !same) {
                    bit_faults.push(k);
                }
            }
            // two bits at once (a comparison that folds words onto each other cancels such pairs), and
            // whole words swapped or repeated
            for k in 0..96u32 {
                for d in [1u32, 8, 16, 24, 32, 48, 64] {
                    if k + d < 96 {
                        let o = TransactionId::from(x ^ (1u128 << k) ^ (1u128 << (k + d)));
                        if o == t || set.contains(&o) {
                            bit_faults.push(1000 + k * 100 + d);
                        }
                    }
                }
            }
            let low = x & ((1u128 << 96) - 1);
            let (w0, w1, w2) = (low & 0xffff_ffff, (low >> 32) & 0xffff_ffff, (low >> 64) & 0xffff_ffff);
            for (i, y) in [(w1 << 64) | (w2 << 32) | w0, (w0 << 64) | (w1 << 32) | w2, (w2 << 64) | (w0 << 32) | w1, (low >> 48) | ((low & 0xffff_ffff_ffff) << 48)].into_iter().enumerate() {
                let o = TransactionId::from(y);
                if y != low && (o == t || set.contains(&o)) {
                    bit_faults.push(9000 + i as u32);
                }
            }
        }
        // the id through every other way a builder comes to carry it: responses made from the parsed
        // request (success / error), write_into, into_owned, clone
        let mut derived: Vec<(&'static str, Option<(u128, u8, u16)>)> = vec![];
        if let Ok(m) = Message::from_bytes(&bytes) {
            let rd = |b: Vec<u8>| Message::from_bytes(&b).ok().map(|r| (u128::from(r.transaction_id()), class_num(r.class()), r.method()));
            derived.push(("builder_success", rd(Message::builder_success(&m).build())));
            derived.push(("builder_error", rd(Message::builder_error(&m).build())));
            let b2 = Message::builder(mt, t);
            let mut dest = vec![0xA5u8; 24];
            derived.push(("write_into", b2.write_into(&mut dest).ok().and_then(|n| rd(dest[..n].to_vec()))));
            derived.push(("into_owned", rd(Message::builder(mt, t).into_owned().build())));
            derived.push(("clone", rd(b2.clone().build())));
            // a copy made into a builder that already exists (another id, another type, attributes of
            // its own, sealed): `Clone::clone_from`, directly and through containers that forward to it
            let other = TransactionId::from(!x ^ 0x5555_aaaa_5555_aaaa_5555_aaaa);
            let mut scratch = Message::builder(MessageType::from_class_method(MessageClass::Error, 0xabc), other);
            let _ = scratch.add_fingerprint();
            scratch.clone_from(&b2);
            let sid: u128 = scratch.transaction_id().into();
            derived.push(("clone_from", if sid == low { rd(scratch.build()) } else { Some((sid, 0xff, 0)) }));
            let mut some = Some(Message::builder(MessageType::from_class_method(MessageClass::Indication, 2), other));
            some.clone_from(&Some(b2.clone()));
            derived.push(("Option::clone_from", rd(some.unwrap().build())));
            let mut v = vec![Message::builder(MessageType::from_class_method(MessageClass::Success, 0x7ff), other)];
            v.clone_from(&vec![b2.clone()]);
            let mut dest = vec![0x3Cu8; 20];
            derived.push(("Vec::clone_from", v[0].write_into(&mut dest).ok().and_then(|n| rd(dest[..n].to_vec()))));
        }
        (back, btid, bytes, parsed, hdr, derived, bit_faults)
    });
    match r {
        Err(p) => ctx.violation(
            "C19",
            "tid-no-panic",
            "TransactionId::from",
            "",
            wit,
            "value".into(),
            format!("panic {} at {}", p.msg, p.loc),
        ),
        Ok((back, btid, bytes, parsed, hdr, derived, bit_faults)) => {
            if !bit_faults.is_empty() {
                ctx.violation("C19", "tid-all-96-bits-significant", "TransactionId::{eq,hash}", "", wit, "ids differing in one of the low 96 bits are different ids, bits above are ignored".into(), format!("not so for bits {bit_faults:?}"));
            }
            for (how, got) in &derived {
                let want_class = match *how { "builder_success" => 2u8, "builder_error" => 3, _ => 0 };
                if *got != Some((low, want_class, 1)) {
                    ctx.violation("C19", "tid-readback", "Message::transaction_id", how, wit, format!("id {low:x} class {want_class} method 1 via {how}"), format!("{got:x?}"));
                }
            }
            if back != low || btid != low {
                ctx.violation(
                    "C19",
                    "tid-low-96",
                    "TransactionId::from(u128)",
                    "",
                    wit,
                    format!("{low:x}"),
                    format!("into {back:x} builder {btid:x}"),
                );
            }
            let mut want = [0u8; 12];
            for i in 0..12 {
                want[i] = (low >> (8 * (11 - i))) as u8;
            }
            if bytes.len() < 20 || bytes[4..8] != COOKIE || bytes[8..20] != want {
                ctx.violation(
                    "C19",
                    "tid-placement",
                    "MessageBuilder::build",
                    "",
                    wit,
                    format!("cookie then {}", hex(&want)),
                    hex(&bytes),
                );
            }
            if parsed != Some(low) || hdr != Some(low) {
                ctx.violation(
                    "C19",
                    "tid-readback",
                    "Message::transaction_id",
                    "",
                    wit,
                    format!("{low:x}"),
                    format!("message {parsed:x?} header {hdr:x?}"),
                );
            }
        }
    }
}

fn check_out_of_range_method(ctx: &mut Ctx, c: u8, q: u16) {
    ctx.eval();
    let r = guard(|| {
        let t = MessageType::from_class_method(class_from(c), q);
        let b = t.to_bytes();
        let back = MessageType::from_bytes(&b).ok().map(|p| (class_num(p.class()), p.method()));
        (b, class_num(t.class()), t.method(), back)
    });
    match r {
        Err(p) => ctx.violation("C19", "type-encode-no-panic", "MessageType::from_class_method", "method-beyond-12-bits", || json!({"kind": "class-method-out-of-range", "class": c, "method": q}), "value".into(), format!("panic {} at {}", p.msg, p.loc)),
        Ok((b, c2, m2, back)) => {
            if b[0] & 0xc0 != 0 || m2 > 0xfff || c2 != c || back != Some((c2, m2)) {
                ctx.violation(
                    "C19",
                    "type-encode-layout",
                    "MessageType::from_class_method",
                    "method-beyond-12-bits",
                    || json!({"kind": "class-method-out-of-range", "class": c, "method": q}),
                    "a type field with the top two bits clear that decodes back to the class and the (12-bit) method it reports".into(),
                    format!("bytes {} class {c2} method {m2:#x} decodes to {back:?}", hex(&b)),
                );
            }
            ctx.count("out-of-range-methods-encoded");
        }
    }
}

fn generate_after_pauses() -> Vec<(u64, u128, bool)> {
    let mut out: Vec<(u64, u128, bool)> = vec![];
    for pause_ms in [0u64, 300, 1_100, 2_300, 0, 2_050] {
        std::thread::sleep(std::time::Duration::from_millis(pause_ms));
        let r = guard(|| {
            let b = Message::builder_request(1);
            let id = b.transaction_id();
            let bytes = b.build();
            let parsed = Message::from_bytes(&bytes).map(|m| m.transaction_id() == id).unwrap_or(false);
            let hdr = MessageHeader::from_bytes(&bytes).map(|h| h.transaction_id() == id).unwrap_or(false);
            (u128::from(TransactionId::generate()), u128::from(id), parsed && hdr)
        });
        if let Ok((g, bid, same)) = r {
            out.push((pause_ms, g, true));
            out.push((pause_ms, bid, same));
        }
    }
    out
}

fn judge_generated_after_pauses(ctx: &mut Ctx, out: Vec<(u64, u128, bool)>) {
    for (pause_ms, v, same) in out {
        ctx.eval();
        ctx.count("ids-generated-after-a-pause");
        if v >> 96 != 0 || !same {
            ctx.violation(
                "C19",
                "tid-generate-96bit",
                "TransactionId::generate",
                "after-a-pause",
                || json!({"kind": "generate-after-pauses", "value": format!("{v:x}"), "pause_ms": pause_ms}),
                "< 2^96, and the id of a generated request is what the wire carries".into(),
                format!("{v:x} (read back unchanged: {same}) after a pause of {pause_ms} ms"),
            );
        }
    }
}

pub fn run(ctx: &mut Ctx) {
    // ---- ids generated after pauses (0.3 s, 1.1 s, 2.3 s since the thread last generated one): a
    //      thread of its own, started first and joined at the end, so that the waiting costs nothing ----
    let paused = (!cfg!(miri) && ctx.shard % 4 == 0).then(|| std::thread::spawn(generate_after_pauses));
    // ---- the encoder handed a method beyond the 12-bit range: whatever it makes of it, what it
    //      writes is a STUN type field (top two bits clear) that decodes back to what it reports ----
    if ctx.shard == 1 % ctx.nshards {
        for c in 0..4u8 {
            for q in [0x1000u16, 0x1001, 0x2000, 0x3000, 0x4000, 0x8000, 0xc000, 0xf001, 0xffff, 0x1fff, 0x2abc] {
                check_out_of_range_method(ctx, c, q);
            }
        }
    }
    run_rest(ctx);
    if let Some(h) = paused {
        match h.join() {
            Ok(out) => judge_generated_after_pauses(ctx, out),
            Err(_) => ctx.violation("C19", "tid-generate-96bit", "TransactionId::generate", "after-a-pause", || json!({"kind": "generate-after-pauses", "value": "0"}), "ids".into(), "the generating thread panicked".into()),
        }
    }
}

fn run_rest(ctx: &mut Ctx) {
    // ---- exhaustive finite part (sharded by value) ----
    // Injectivity needs the whole domain in one place: shard 0 walks all 65 536 values with
    // extra = 0 and keeps the (class, method) set; the other slice lengths are spread over shards.
    if ctx.shard == 0 {
        let mut seen = std::collections::HashSet::new();
        for v in 0..=0xffffu32 {
            check_type_field(ctx, v as u16, 0, Some(&mut seen));
        }
        ctx.count_n("distinct_class_method_decoded", seen.len() as u64);
        if seen.len() != 16384 && !ctx.has_violations() {
            ctx.violation(
                "C19",
                "type-decode-surjective",
                "MessageType::from_bytes",
                "",
                || json!({"kind": "type-field", "value": 0, "extra": 0}),
                "16384 distinct (class, method)".into(),
                format!("{}", seen.len()),
            );
        }
    }
    let mut i = 0u64;
    for extra in [1usize, 2, 18, 70_000 - 2] {
        let step = if extra > 1000 { 4099 } else { 1 };
        let mut v = 0u32;
        while v <= 0xffff {
            if ctx.mine(i) {
                check_type_field(ctx, v as u16, extra, None);
            }
            i += 1;
            v += step;
        }
    }
    for c in 0..4u8 {
        for m in 0..4096u16 {
            if ctx.mine(i) {
                check_class_method(ctx, c, m);
                // the type field inside real messages; the oversized-body variants (a body of 64 KiB
                // and more, which the 16-bit length field cannot hold) for a spread of methods
                let huge = m % 257 == 0 || m == 0xfff || m == 0xffe || m.is_power_of_two();
                check_type_in_messages(ctx, c, m, huge);
                if m == 1 || m == 0xfff {
                    ctx.sample("class-method", || {
                        json!({"class": c, "method": m, "type_field": format!("{:04x}", type_field(c, m))})
                    });
                }
            }
            i += 1;
        }
    }
    if ctx.shard == 0 {
        ctx.count_n("exhaustive_type_field_values_per_build", 65536);
        ctx.count_n("exhaustive_class_method_pairs_per_build", 16384);
    }

    // ---- transaction ids: boundary patterns (all shards split them) + random ----
    let mut pats: Vec<u128> = vec![0, 1, u128::MAX, (1u128 << 96) - 1, 1u128 << 96, (1u128 << 96) + 1, 1u128 << 127];
    for b in 0..128 {
        pats.push(1u128 << b);
        pats.push(!(1u128 << b));
        pats.push((1u128 << b).wrapping_sub(1));
    }
    for byte in 0..16 {
        for val in [0x01u128, 0x7f, 0x80, 0xff, 0x21, 0x12, 0xa4, 0x42] {
            pats.push(val << (8 * byte));
        }
    }
    pats.push(0x2112A442u128 << 96);
    pats.push(0x2112A442u128);
    pats.push(0x2112A442_2112A442_2112A442_2112A442u128);
    for (j, p) in pats.iter().enumerate() {
        if ctx.mine(j as u64) {
            check_tid(ctx, *p);
            if j < 3 {
                ctx.sample("tid-pattern", || json!({"tid": format!("{:032x}", p)}));
            }
        }
    }
    if ctx.shard == 0 {
        ctx.count_n("tid_boundary_patterns_per_build", pats.len() as u64);
    }
    let n = ctx.n(2_000_000, 20_000_000);
    let mut rng = ctx.rng("tid-random", 0);
    for k in 0..n {
        let mut x = rng.u128();
        // bias: half of the samples keep high bits set (the mask matters), half are 96-bit
        if k % 2 == 0 {
            x &= (1u128 << 96) - 1;
        }
        check_tid(ctx, x);
    }
    ctx.count_n("tid_random", n);

    // ---- generated ids fit in 96 bits ----
    // at least 2^16 + a few thousand calls on this one thread (a per-thread sequence counter folded
    // into the id would wrap into the bits above 96 only after 65 536 calls)
    let g = ctx.n(500_000, 5_000_000).max(70_000);
    let mut distinct_gen = std::collections::HashSet::new();
    for _ in 0..g {
        ctx.eval();
        match guard(|| u128::from(TransactionId::generate())) {
            Ok(v) => {
                if v >> 96 != 0 {
                    ctx.violation(
                        "C19",
                        "tid-generate-96bit",
                        "TransactionId::generate",
                        "",
                        || json!({"kind": "generate", "value": format!("{v:x}")}),
                        "< 2^96".into(),
                        format!("{v:x}"),
                    );
                }
                if distinct_gen.len() < 100_000 {
                    distinct_gen.insert(v);
                }
                // every 4096th: the id of a generated request is what the wire carries and the parser reads back
                if distinct_gen.len() % 4096 == 1 {
                    let ok = guard(|| {
                        let b = Message::builder_request(1);
                        let want = u128::from(b.transaction_id());
                        let bytes = b.build();
                        let got = Message::from_bytes(&bytes).ok().map(|m| u128::from(m.transaction_id()));
                        (want, got)
                    });
                    if let Ok((want, got)) = ok {
                        if got != Some(want) || want >> 96 != 0 {
                            ctx.violation("C19", "tid-readback", "Message::builder_request", "generated-id", || json!({"kind": "generate", "value": format!("{want:x}")}), format!("{want:x} (< 2^96) read back"), format!("{got:x?}"));
                        }
                    }
                }
            }
            Err(p) => ctx.violation(
                "C19",
                "tid-generate-no-panic",
                "TransactionId::generate",
                "",
                || json!({"kind": "generate"}),
                "value".into(),
                format!("panic {}", p.msg),
            ),
        }
    }
    ctx.count_n("tid_generated", g);
    ctx.count_n("tid_generated_distinct_sampled", distinct_gen.len() as u64);
}

pub fn replay(ctx: &mut Ctx, w: &Value) -> Result<(), String> {
    match w.get("kind").and_then(|k| k.as_str()) {
        Some("type-field") => {
            let v = w["value"].as_u64().ok_or("value")? as u16;
            let e = w["extra"].as_u64().unwrap_or(0) as usize;
            check_type_field(ctx, v, e, None);
        }
        Some("class-method-in-message") => {
            check_type_in_messages(ctx, w["class"].as_u64().ok_or("class")? as u8, w["method"].as_u64().ok_or("method")? as u16, w["huge"].as_bool().unwrap_or(true))
        }
        Some("class-method") => {
            check_class_method(ctx, w["class"].as_u64().ok_or("class")? as u8, w["method"].as_u64().ok_or("method")? as u16)
        }
        Some("class-method-out-of-range") => check_out_of_range_method(ctx, w["class"].as_u64().ok_or("class")? as u8, w["method"].as_u64().ok_or("method")? as u16),
        Some("generate-after-pauses") => {
            let out = std::thread::spawn(generate_after_pauses).join().map_err(|_| "thread panicked".to_string())?;
            judge_generated_after_pauses(ctx, out);
        }
        Some("tid") => {
            let x = u128::from_str_radix(w["value"].as_str().ok_or("value")?, 16).map_err(|e| e.to_string())?;
            check_tid(ctx, x);
        }
        Some("generate") => {
            for _ in 0..100_000 {
                ctx.eval();
                if let Ok(v) = guard(|| u128::from(TransactionId::generate())) {
                    if v >> 96 != 0 {
                        ctx.violation(
                            "C19",
                            "tid-generate-96bit",
                            "TransactionId::generate",
                            "",
                            || json!({"kind": "generate"}),
                            "< 2^96".into(),
                            format!("{v:x}"),
                        );
                    }
                }
            }
        }
        k => return Err(format!("unknown witness kind {k:?}")),
    }
    Ok(())
}
