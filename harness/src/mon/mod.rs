//! One module per property: workload selection + tagged assertions.
use crate::ctx::Ctx;
use serde_json::Value;

pub mod agent;
pub mod agent_props;
pub mod builder;
pub mod c01;
pub mod c02;
pub mod c03;
pub mod c04;
pub mod c08;
pub mod c09;
pub mod c10;
pub mod c11;
pub mod c12;
pub mod c13;
pub mod c14;
pub mod c16;
pub mod c17;
pub mod c19;
pub mod codec;
pub mod miri;
pub mod streams;

/// Run the workload of property `prop` in `ctx`.
pub fn run(prop: &str, ctx: &mut Ctx) -> Result<(), String> {
    if cfg!(miri) {
        return miri::run(prop, ctx);
    }
    match prop {
        "C01" => c01::run(ctx),
        "C08" => c08::run(ctx),
        "C02" => c02::run(ctx),
        "C03" => c03::run(ctx),
        "C04" => c04::run(ctx),
        "C09" => c09::run(ctx),
        "C10" => c10::run(ctx),
        "C11" => c11::run(ctx),
        "C12" => c12::run(ctx),
        "C13" => c13::run(ctx),
        "C14" => c14::run(ctx),
        "C16" => c16::run(ctx),
        "C17" => c17::run(ctx),
        "C05" => agent_props::run_c05(ctx),
        "C06" => agent_props::run_c06(ctx),
        "C07" => agent_props::run_c07(ctx),
        "C15" => agent_props::run_c15(ctx),
        "C18" => agent_props::run_c18(ctx),
        "C20" => agent_props::run_c20(ctx),
        "C19" => c19::run(ctx),
        _ => return Err(format!("no monitor for {prop}")),
    }
    Ok(())
}

/// Re-execute one recorded witness.
pub fn replay(prop: &str, ctx: &mut Ctx, witness: &Value) -> Result<(), String> {
    match prop {
        "C01" => c01::replay(ctx, witness),
        "C08" => c08::replay(ctx, witness),
        "C02" => c02::replay(ctx, witness),
        "C03" => c03::replay(ctx, witness),
        "C04" => c04::replay(ctx, witness),
        "C09" => c09::replay(ctx, witness),
        "C10" => c10::replay(ctx, witness),
        "C11" => c11::replay(ctx, witness),
        "C12" => c12::replay(ctx, witness),
        "C13" => c13::replay(ctx, witness),
        "C14" => c14::replay(ctx, witness),
        "C16" => c16::replay(ctx, witness),
        "C17" => c17::replay(ctx, witness),
        "C05" => agent_props::replay(ctx, witness),
        "C06" => agent_props::replay(ctx, witness),
        "C07" => agent_props::replay(ctx, witness),
        "C15" => agent_props::replay(ctx, witness),
        "C18" => agent_props::replay(ctx, witness),
        "C20" => agent_props::replay(ctx, witness),
        "C19" => c19::replay(ctx, witness),
        _ => Err(format!("no monitor for {prop}")),
    }
}
