//! One module per property: workload selection + tagged assertions.
use crate::ctx::Ctx;
use serde_json::Value;

pub mod c19;

/// Run the workload of property `prop` in `ctx`.
pub fn run(prop: &str, ctx: &mut Ctx) -> Result<(), String> {
    match prop {
        "C19" => c19::run(ctx),
        _ => return Err(format!("no monitor for {prop}")),
    }
    Ok(())
}

/// Re-execute one recorded witness.
pub fn replay(prop: &str, ctx: &mut Ctx, witness: &Value) -> Result<(), String> {
    match prop {
        "C19" => c19::replay(ctx, witness),
        _ => Err(format!("no monitor for {prop}")),
    }
}
