//! C08 — each built-in attribute decodes exactly the RFC encodings and round-trips.
//! (`check_decode` also carries the C01 no-panic assertion for the typed decoders.)

use crate::ctx::{guard, hash64, hash_bytes, Ctx};
use crate::gen::vals::*;
use crate::imp::{self, DecErr};
use crate::refimpl::attrs::*;
use crate::refimpl::crypto::{hex, unhex};
use serde_json::{json, Value};
use stun_types::attribute::{Attribute, AttributeExt, AttributeType, AttributeWriteExt, RawAttribute};

fn wit_decode(kind: Kind, raw_ty: u16, value: &[u8], tid: &[u8; 12]) -> Value {
    json!({"kind": "typed-decode", "attr": kind.name(), "raw_type": raw_ty, "value": hex(value), "tid": hex(tid)})
}

/// Decode `value` tagged `raw_ty` with the decoder of `kind` and compare with the reference.
pub fn check_decode(ctx: &mut Ctx, kind: Kind, raw_ty: u16, value: &[u8], tid: &[u8; 12]) {
    ctx.eval();
    let raw = RawAttribute::new(AttributeType::new(raw_ty), value);
    let mut t8 = [0u8; 8];
    t8.copy_from_slice(&tid[..8]);
    ctx.wd.enter_aux("AttributeFromRaw::from_raw", value, [kind.code() as u64, raw_ty as u64, u64::from_be_bytes(t8), u32::from_be_bytes([tid[8], tid[9], tid[10], tid[11]]) as u64]);
    let r = guard(|| {
        imp::impl_decode(kind, &raw, tid).map(|d| {
            // a value that no wire encoding can carry (more than 65 535 bytes, only possible for an
            // in-memory raw attribute) is judged for acceptance and decoded fields only: re-encoding
            // it cannot be expressed in the 16-bit length field and is not specified
            if value.len() > 65_535 {
                return (d.val, kind.code(), value.to_vec(), value.len() as u16, d.obj.get_type().value(), d.display_len);
            }
            let re = d.obj.to_raw();
            (d.val, re.get_type().value(), re.value.to_vec(), d.obj.length(), d.obj.get_type().value(), d.display_len)
        })
    });
    ctx.wd.leave();
    let w = || wit_decode(kind, raw_ty, value, tid);
    let res = match r {
        Err(p) => {
            ctx.violation(
                "C01",
                "no-panic",
                "AttributeFromRaw::from_raw",
                kind.name(),
                w,
                "value or error".into(),
                format!("panic: {} at {}", p.msg, p.loc),
            );
            return;
        }
        Ok(r) => r,
    };
    if raw_ty != kind.code() {
        ctx.count("decode-wrong-type");
        if res.as_ref().err() != Some(&DecErr::WrongImpl) {
            ctx.violation(
                "C08",
                "wrong-type-refused",
                "AttributeFromRaw::from_raw",
                kind.name(),
                w,
                "Err(WrongAttributeImplementation)".into(),
                format!("{:?}", res.as_ref().map(|x| &x.0)),
            );
        }
        return;
    }
    let want = ref_decode(kind, value, tid);
    ctx.distinct(hash64(&[kind.code() as u64, value.len() as u64, want.is_some() as u64, hash_bytes(&value[..value.len().min(8)])]));
    match (&want, &res) {
        (None, Err(DecErr::WrongImpl)) => ctx.violation(
            "C08",
            "decode-accept-iff",
            "AttributeFromRaw::from_raw",
            &format!("{}:right-type-called-wrong", kind.name()),
            w,
            "an error other than WrongAttributeImplementation".into(),
            "Err(WrongAttributeImplementation)".into(),
        ),
        (None, Err(_)) => ctx.count(&format!("refuse:{}", kind.name())),
        (None, Ok(got)) => ctx.violation(
            "C08",
            "decode-accept-iff",
            "AttributeFromRaw::from_raw",
            &format!("{}:invalid-accepted", kind.name()),
            w,
            "Err (the RFC does not allow this encoding)".into(),
            format!("Ok({:?})", got.0),
        ),
        (Some(v), Err(e)) => ctx.violation(
            "C08",
            "decode-accept-iff",
            "AttributeFromRaw::from_raw",
            &format!("{}:valid-refused", kind.name()),
            w,
            format!("Ok({v:?})"),
            format!("Err({e:?})"),
        ),
        (Some(v), Ok((got, re_ty, re_val, len, ty, _))) => {
            ctx.count(&format!("accept:{}", kind.name()));
            if got != v {
                ctx.violation(
                    "C08",
                    "decode-fields",
                    "typed getters",
                    kind.name(),
                    w,
                    format!("{v:?}"),
                    format!("{got:?}"),
                );
            }
            // re-encoding a decoded value is stable: it yields the canonical RFC encoding of the
            // decoded fields, and decoding that again gives the same fields
            let canon = ref_encode(kind, v, tid).unwrap();
            if value.len() <= 65_535 && (*re_ty != kind.code() || *ty != kind.code() || *re_val != canon || *len as usize != canon.len()) {
                ctx.violation(
                    "C08",
                    "reencode-stable",
                    "AttributeWrite::to_raw",
                    kind.name(),
                    w,
                    format!("type {:#06x} len {} value {}", kind.code(), canon.len(), hex(&canon)),
                    format!("type {re_ty:#06x}/{ty:#06x} len {len} value {}", hex(re_val)),
                );
            }
        }
    }
    // UNKNOWN-ATTRIBUTES: has_attribute agrees with the decoded list
    if kind == Kind::UnknownAttributes {
        if let Some(RefVal::TypeList(l)) = &want {
            for probe in l.iter().take(3).copied().chain([0x0006u16, 0xfffe]) {
                let got = guard(|| imp::unknown_attrs_has(&raw, probe));
                if let Ok(Some(g)) = got {
                    if g != l.contains(&probe) {
                        ctx.violation(
                            "C08",
                            "decode-fields",
                            "UnknownAttributes::has_attribute",
                            kind.name(),
                            w,
                            format!("has({probe:#06x}) = {}", l.contains(&probe)),
                            format!("{g}"),
                        );
                    }
                }
            }
        }
    }
}

fn wit_encode(kind: Kind, val: &RefVal, tid: &[u8; 12]) -> Value {
    json!({"kind": "typed-encode", "attr": kind.name(), "value": val.to_json(), "tid": hex(tid)})
}

/// Construct `val` through the public constructor, encode, compare with the RFC layout, decode back.
pub fn check_encode(ctx: &mut Ctx, kind: Kind, val: &RefVal, tid: &[u8; 12]) {
    ctx.eval();
    let w = || wit_encode(kind, val, tid);
    let want = match ref_encode(kind, val, tid) {
        Some(v) => v,
        None => return,
    };
    ctx.distinct(hash64(&[0xE, kind.code() as u64, want.len() as u64, hash_bytes(&want[..want.len().min(8)])]));
    let r = guard(|| {
        imp::impl_construct(kind, val, tid).map(|obj| {
            let raw = obj.to_raw();
            let bytes = raw.to_bytes();
            let back = imp::impl_decode(kind, &raw, tid).map(|d| d.val);
            // the in-place writer, into a destination that is not zero-filled (a reused buffer)
            let mut dirty = vec![0xA5u8; obj.padded_len() + 4];
            let inplace = obj.write_into(&mut dirty).map(|n| dirty[..n].to_vec()).map_err(|e| format!("{e:?}"));
            (raw.get_type().value(), raw.length(), raw.value.to_vec(), obj.length(), obj.get_type().value(), obj.padded_len(), bytes, back, inplace)
        })
    });
    match r {
        Err(p) => ctx.violation(
            "C08",
            "encode-no-panic",
            "constructor/to_raw",
            kind.name(),
            w,
            "value".into(),
            format!("panic: {} at {}", p.msg, p.loc),
        ),
        Ok(Err(e)) => ctx.violation(
            "C08",
            "in-limit-constructible",
            "constructor",
            kind.name(),
            w,
            "Ok (the value is within the documented limits)".into(),
            format!("Err({e})"),
        ),
        Ok(Ok((rty, rlen, rval, len, ty, padded, bytes, back, inplace))) => {
            ctx.count(&format!("encode:{}", kind.name()));
            let mut wire = vec![(kind.code() >> 8) as u8, kind.code() as u8, (want.len() >> 8) as u8, want.len() as u8];
            wire.extend_from_slice(&want);
            while wire.len() % 4 != 0 {
                wire.push(0);
            }
            if rty != kind.code() || ty != kind.code() || rlen as usize != want.len() || len as usize != want.len() || rval != want || bytes != wire || padded != wire.len() {
                ctx.violation(
                    "C08",
                    "encode-layout",
                    "AttributeWrite::to_raw",
                    kind.name(),
                    w,
                    format!("wire {}", hex(&wire)),
                    format!("type {rty:#06x}/{ty:#06x} len {rlen}/{len} padded {padded} bytes {}", hex(&bytes)),
                );
            }
            if inplace.as_deref() != Ok(wire.as_slice()) {
                ctx.violation(
                    "C08",
                    "encode-layout",
                    "AttributeWrite::write_into",
                    kind.name(),
                    w,
                    format!("wire {}", hex(&wire)),
                    format!("written into a 0xA5-filled destination: {}", inplace.as_ref().map(|b| hex(b)).unwrap_or_else(|e| format!("Err({e})"))),
                );
            }
            match back {
                Ok(b) if &b == val => {}
                other => ctx.violation(
                    "C08",
                    "roundtrip",
                    "from_raw(to_raw(v))",
                    kind.name(),
                    w,
                    format!("{val:?}"),
                    format!("{other:?}"),
                ),
            }
        }
    }
}

/// Constructors must refuse out-of-limit values (documented limits) rather than encode something
/// their own decoder refuses.
fn check_out_of_limit(ctx: &mut Ctx, kind: Kind, val: &RefVal, tid: &[u8; 12]) {
    ctx.eval();
    let r = guard(|| imp::impl_construct(kind, val, tid).map(|o| o.to_raw().value.len()));
    match r {
        Err(p) => ctx.violation(
            "C08",
            "encode-no-panic",
            "constructor",
            kind.name(),
            || wit_encode(kind, val, tid),
            "Err".into(),
            format!("panic: {} at {}", p.msg, p.loc),
        ),
        Ok(Ok(n)) => ctx.violation(
            "C08",
            "out-of-limit-refused",
            "constructor",
            kind.name(),
            || wit_encode(kind, val, tid),
            "Err (beyond the type's limit)".into(),
            format!("Ok, encodes {n} bytes"),
        ),
        Ok(Err(_)) => ctx.count("constructor-refused-out-of-limit"),
    }
}

pub fn run(ctx: &mut Ctx) {
    let tids: [[u8; 12]; 3] = [[0; 12], [0xff; 12], [0x21, 0x12, 0xa4, 0x42, 1, 2, 3, 4, 5, 6, 7, 8]];
    let mut idx = 0u64;
    // ---- every value length 0..=800 x content classes, per type ----
    let reps = ctx.n(1, 24).max(1);
    for k in ALL_KINDS {
        for len in 0..=800usize {
            for class in 0..CONTENT_CLASSES {
                idx += 1;
                if !ctx.mine(idx) {
                    continue;
                }
                let mut rng = ctx.rng("len-sweep", idx);
                for _ in 0..reps.min(if class < 2 { 1 } else { reps }) {
                    let v = content_class(&mut rng, class, len);
                    check_decode(ctx, k, k.code(), &v, &tids[(idx % 3) as usize]);
                }
            }
        }
    }
    // ---- values of 64 KiB and more (a raw attribute made in memory, not parsed: its 16-bit length
    //      field cannot hold the size): the decoders judge the value they are given, not length mod 2^16 ----
    for k in ALL_KINDS {
        if k == Kind::AlternateDomain {
            // the crate documents that it enforces no limit here (FIXME in alternate.rs): what happens to a
            // value that no wire encoding can carry is left open, and is not judged
            continue;
        }
        for (j, len) in [65_536usize, 65_540, 65_544, 65_552, 65_556, 65_568, 65_541, 131_076, 196_640].into_iter().enumerate() {
            idx += 1;
            if !ctx.mine(idx) {
                continue;
            }
            let mut rng = ctx.rng("oversized", idx);
            let class = [0u32, 2, 4][j % 3];
            let v = content_class(&mut rng, class, len);
            check_decode(ctx, k, k.code(), &v, &tids[j % 3]);
            ctx.count("oversized-values-decoded");
        }
    }
    // ---- the two types without an upper limit at the very top of the 16-bit length (65 528 .. 65 535
    //      bytes, where the padded length needs 17 bits): encode, layout, decode(encode(v)) = v ----
    for len in 65_526usize..=65_535 {
        idx += 1;
        if !ctx.mine(idx) {
            continue;
        }
        let text: String = (0..len).map(|i| (b'a' + (i % 26) as u8) as char).collect();
        check_encode(ctx, Kind::AlternateDomain, &RefVal::Text(text), &tids[len % 3]);
        check_decode(ctx, Kind::AlternateDomain, Kind::AlternateDomain.code(), &vec![b'z'; len], &tids[len % 3]);
        let n = len / 2;
        check_encode(ctx, Kind::UnknownAttributes, &RefVal::TypeList((0..n).map(|i| i as u16).collect()), &tids[len % 3]);
        check_decode(ctx, Kind::UnknownAttributes, Kind::UnknownAttributes.code(), &vec![0x7f; n * 2], &tids[len % 3]);
        ctx.count("top-of-length-range-values");
    }
    ctx.require("top-of-length-range-values", 10);
    // ---- address decoders: every family byte x the lengths around both valid sizes (the family and
    //      the size must agree) ----
    for k in [Kind::XorMappedAddress, Kind::AlternateServer] {
        for fam in [0u8, 1, 2, 3, 0x11, 0xff] {
            for len in [0usize, 3, 4, 7, 8, 9, 12, 16, 19, 20, 21, 24] {
                idx += 1;
                if !ctx.mine(idx) {
                    continue;
                }
                let mut rng = ctx.rng("address-family-by-size", idx);
                for first in [0u8, 1] {
                    let mut v = rng.bytes(len);
                    if len >= 2 {
                        v[0] = first;
                        v[1] = fam;
                    }
                    check_decode(ctx, k, k.code(), &v, &tids[len % 3]);
                }
                ctx.count("address-family-by-size");
            }
        }
    }
    ctx.require("address-family-by-size", 100);
    // ---- every one of the 65 536 type codes against every decoder, with a value that is valid for
    //      that decoder: only its own code is accepted, every other one is the wrong implementation ----
    {
        let mut vr = crate::prng::Rng::new(0xC08);
        for k in ALL_KINDS {
            let rv = gen_refval(&mut vr, k);
            let value = ref_encode(k, &rv, &tids[2]).unwrap();
            for t in 0..=0xffffu32 {
                idx += 1;
                if !ctx.mine(idx) || t as u16 == k.code() {
                    continue;
                }
                check_decode(ctx, k, t as u16, &value, &tids[2]);
            }
            ctx.count_n("type-codes-swept", if ctx.shard == 0 { 65_535 } else { 0 });
        }
    }
    // ---- exhaustive small domains ----
    // all lengths 0..=40 for every type with every other type's tag (wrong implementation)
    for k in ALL_KINDS {
        for other in ALL_KINDS {
            for len in [0usize, 4, 8, 20, 32] {
                idx += 1;
                if ctx.mine(idx) && other != k {
                    check_decode(ctx, k, other.code(), &vec![0u8; len], &tids[0]);
                }
            }
        }
        for t in [0x0000u16, 0x0001, 0x7fff, 0x8000, 0xffff] {
            idx += 1;
            if ctx.mine(idx) {
                check_decode(ctx, k, t, &[0, 1, 0, 0, 0, 0, 0, 0], &tids[0]);
            }
        }
    }
    // ERROR-CODE: all 65536 (class byte, number byte) pairs, with 0 and 5 reason bytes
    for cb in 0..=255u16 {
        for nb in 0..=255u16 {
            idx += 1;
            if !ctx.mine(idx) {
                continue;
            }
            let v = [0u8, 0, cb as u8, nb as u8];
            check_decode(ctx, Kind::ErrorCode, Kind::ErrorCode.code(), &v, &tids[0]);
            if (cb + nb) % 7 == 0 {
                let v = [0xffu8, 0xff, cb as u8, nb as u8, b'h', b'e', b'l', b'l', b'o'];
                check_decode(ctx, Kind::ErrorCode, Kind::ErrorCode.code(), &v, &tids[0]);
            }
        }
    }
    // address families: all 256 family bytes x lengths 0..=24, both address kinds
    for k in [Kind::AlternateServer, Kind::XorMappedAddress] {
        for fam in 0..=255u8 {
            for len in 0..=24usize {
                idx += 1;
                if !ctx.mine(idx) {
                    continue;
                }
                let mut v = vec![0x5au8; len];
                if len > 1 {
                    v[1] = fam;
                }
                if len > 0 {
                    v[0] = (fam ^ 0x33) & 0xf0; // reserved byte: arbitrary
                }
                check_decode(ctx, k, k.code(), &v, &tids[(fam % 3) as usize]);
            }
        }
    }
    // password algorithms: all algorithm ids (strided in quick) x parameter lengths x value lengths
    let stride = if ctx.tier == crate::ctx::Tier::Quick { 17 } else { 1 };
    let mut alg = 0u32;
    while alg <= 0xffff {
        for plen in [0u16, 1, 3, 4, 8, 0xffff] {
            for total in [4usize, 8, 12] {
                idx += 1;
                if !ctx.mine(idx) {
                    continue;
                }
                let mut v = vec![0u8; total];
                v[0] = (alg >> 8) as u8;
                v[1] = alg as u8;
                v[2] = (plen >> 8) as u8;
                v[3] = plen as u8;
                if total >= 8 {
                    v[5] = 1; // a second, valid-looking entry
                }
                check_decode(ctx, Kind::PasswordAlgorithm, Kind::PasswordAlgorithm.code(), &v, &tids[0]);
                check_decode(ctx, Kind::PasswordAlgorithms, Kind::PasswordAlgorithms.code(), &v, &tids[0]);
            }
        }
        alg += if alg < 8 { 1 } else { stride };
    }
    for k in [Kind::PasswordAlgorithm, Kind::PasswordAlgorithms] {
        // well-formed lists of 1..=8 entries and the same with one defect
        for n in 1..=8usize {
            for defect in 0..4 {
                idx += 1;
                if !ctx.mine(idx) {
                    continue;
                }
                let mut v = vec![];
                for i in 0..n {
                    v.extend_from_slice(&[0, 1 + (i % 2) as u8, 0, 0]);
                }
                match defect {
                    1 => v[4 * (n - 1) + 1] = 3,
                    2 => v[4 * (n - 1) + 3] = 4,
                    3 => v.push(0),
                    _ => {}
                }
                check_decode(ctx, k, k.code(), &v, &tids[0]);
            }
        }
    }
    // fixed-size types: all lengths 0..=40
    for k in ALL_KINDS {
        for len in 0..=40usize {
            idx += 1;
            if !ctx.mine(idx) {
                continue;
            }
            let mut rng = ctx.rng("fixed", idx);
            let v = rng.bytes(len);
            check_decode(ctx, k, k.code(), &v, &tids[1]);
        }
    }
    // text limits: limit-1, limit, limit+1 valid UTF-8, and multibyte straddling
    for k in [Kind::Username, Kind::Realm, Kind::Nonce, Kind::Software] {
        let lim = k.text_limit().unwrap();
        for d in [-2i64, -1, 0, 1, 2, 37] {
            idx += 1;
            if !ctx.mine(idx) {
                continue;
            }
            let mut rng = ctx.rng("text-limit", idx);
            let n = (lim as i64 + d) as usize;
            let s = text_exact(&mut rng, n);
            check_decode(ctx, k, k.code(), s.as_bytes(), &tids[0]);
            if d <= 0 {
                check_encode(ctx, k, &RefVal::Text(s), &tids[0]);
            } else {
                check_out_of_limit(ctx, k, &RefVal::Text(s), &tids[0]);
            }
        }
    }
    for code in [0u16, 1, 99, 299, 700, 701, 999, 1000, 65535] {
        idx += 1;
        if ctx.mine(idx) {
            check_out_of_limit(ctx, Kind::ErrorCode, &RefVal::Error { code, reason: "x".into() }, &tids[0]);
        }
    }
    for n in [0usize, 1, 4, 12, 15, 17, 18, 19, 21, 31, 33, 36, 64] {
        idx += 1;
        if ctx.mine(idx) {
            check_out_of_limit(ctx, Kind::MessageIntegritySha256, &RefVal::Bytes(vec![7; n]), &tids[0]);
        }
    }
    // all error codes 300..=699 through the constructor
    for code in 300..=699u16 {
        idx += 1;
        if ctx.mine(idx) {
            check_encode(ctx, Kind::ErrorCode, &RefVal::Error { code, reason: "r".into() }, &tids[0]);
        }
    }
    // ---- random structured values (encode side) ----
    let n = ctx.n(3_000_000, 40_000_000);
    let mut rng = ctx.rng("encode-random", 0);
    for i in 0..n {
        let k = ALL_KINDS[(i % 19) as usize];
        let v = gen_refval(&mut rng, k);
        let tid = crate::gen::msg::gen_tid(&mut rng);
        check_encode(ctx, k, &v, &tid);
        if i < 38 {
            ctx.sample("encode", || json!({"attr": k.name(), "value": v.to_json(), "wire": hex(&ref_encode(k, &v, &tid).unwrap())}));
        }
    }
    // ---- random decode-side values: mutated valid encodings ----
    let n = ctx.n(3_000_000, 40_000_000);
    let mut rng = ctx.rng("decode-random", 0);
    for i in 0..n {
        let k = ALL_KINDS[(i % 19) as usize];
        let tid = crate::gen::msg::gen_tid(&mut rng);
        let v = gen_refval(&mut rng, k);
        let mut bytes = ref_encode(k, &v, &tid).unwrap();
        match rng.below(6) {
            0 if !bytes.is_empty() => {
                let j = rng.usize(bytes.len());
                bytes[j] ^= 1 << rng.usize(8);
            }
            1 => bytes.push(rng.byte()),
            2 => {
                bytes.pop();
            }
            3 => {
                let n = rng.usize(4) + 1;
                bytes.extend(rng.bytes(n));
            }
            _ => {}
        }
        check_decode(ctx, k, k.code(), &bytes, &tid);
        if i < 19 {
            ctx.sample("decode", || json!({"attr": k.name(), "value": hex(&bytes), "reference": format!("{:?}", ref_decode(k, &bytes, &tid))}));
        }
    }
    for k in ALL_KINDS {
        ctx.require("oversized-values-decoded", 100);
    ctx.require(&format!("accept:{}", k.name()), 20);
        if k != Kind::AlternateDomain && k != Kind::UnknownAttributes {
            ctx.require(&format!("refuse:{}", k.name()), 20);
        }
        ctx.require(&format!("encode:{}", k.name()), 20);
    }
    ctx.require("decode-wrong-type", 300);
}

pub fn replay(ctx: &mut Ctx, w: &Value) -> Result<(), String> {
    let kind = Kind::from_name(w.get("attr").and_then(|a| a.as_str()).ok_or("attr")?).ok_or("unknown attr")?;
    let tidv = unhex(w.get("tid").and_then(|a| a.as_str()).unwrap_or("000000000000000000000000")).ok_or("tid")?;
    let mut tid = [0u8; 12];
    tid.copy_from_slice(&tidv[..12]);
    match w.get("kind").and_then(|k| k.as_str()) {
        Some("typed-decode") => {
            let v = unhex(w["value"].as_str().ok_or("value")?).ok_or("hex")?;
            let rt = w["raw_type"].as_u64().ok_or("raw_type")? as u16;
            check_decode(ctx, kind, rt, &v, &tid);
        }
        Some("typed-encode") => {
            let v = RefVal::from_json(&w["value"]).ok_or("value")?;
            check_encode(ctx, kind, &v, &tid);
            check_out_of_limit_if_needed(ctx, kind, &v, &tid);
        }
        k => return Err(format!("unknown witness kind {k:?}")),
    }
    Ok(())
}

fn check_out_of_limit_if_needed(ctx: &mut Ctx, kind: Kind, v: &RefVal, tid: &[u8; 12]) {
    // a value the reference cannot decode back is out of limit
    if let Some(b) = ref_encode(kind, v, tid) {
        if ref_decode(kind, &b, tid).is_none() {
            check_out_of_limit(ctx, kind, v, tid);
        }
    }
}
