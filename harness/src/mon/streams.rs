//! Buffer streams shared by the byte-level monitors (C01, C02, C10, C16, C17).

use super::codec::{check_buffer, Opts, Outcome};
use crate::ctx::Ctx;
use crate::gen::msg::*;
use crate::gen::vals::*;
use crate::prng::Rng;
use crate::refimpl::crypto::hex;
use crate::refimpl::parse::*;
use serde_json::json;

/// Random policing sets drawn from the types present in `buf` plus a few absent ones.
pub fn gen_police(rng: &mut Rng, buf: &[u8], n: usize) -> Vec<(Vec<u16>, Vec<u16>)> {
    let rp = ref_parse(buf);
    let mut pool: Vec<u16> = rp.attrs.iter().map(|a| a.ty).collect();
    pool.extend_from_slice(&[0x0006, 0x8022, 0x7f05, MI, FP]);
    pool.sort();
    pool.dedup();
    (0..n)
        .map(|_| {
            let sup: Vec<u16> = pool.iter().copied().filter(|_| rng.chance(1, 2)).collect();
            let req: Vec<u16> = pool.iter().copied().filter(|_| rng.chance(1, 4)).collect();
            (sup, req)
        })
        .collect()
}

pub fn gen_opts(rng: &mut Rng, buf: &[u8], g: Option<&GenMsg>, deep: bool, typed: bool, npolice: usize) -> Opts {
    let mut creds = vec![];
    if let Some(g) = g {
        creds.push(g.creds.clone());
    }
    creds.push(gen_creds_small(rng));
    if rng.chance(1, 16) {
        creds.push(gen_creds(rng));
    }
    Opts { creds, police: gen_police(rng, buf, npolice), deep, typed }
}

fn note(ctx: &mut Ctx, stream: &str, buf: &[u8], out: &Outcome) {
    ctx.eval();
    ctx.count(&format!("stream:{stream}"));
    let label = format!("{stream}:{}", if out.impl_accepted { "accepted" } else { "rejected" });
    ctx.sample(&label, || {
        json!({"bytes": if buf.len() <= 160 { hex(buf) } else { format!("{}… ({} bytes)", hex(&buf[..96]), buf.len()) },
               "accepted": out.impl_accepted, "error": out.err, "exposed_types": out.exposed_types})
    });
}

pub struct StreamCfg {
    pub deep: bool,
    pub typed: bool,
    pub npolice: usize,
}

/// grammar-generated messages and their mutants
pub fn grammar_stream(ctx: &mut Ctx, cfg: &StreamCfg, n: u64, mutants_per: u64) {
    let mut rng = ctx.rng("grammar", 0);
    let mut prev: Vec<u8> = vec![];
    for _ in 0..n {
        let (buf, g) = gen_message(&mut rng, 6);
        if buf.len() > 70_000 {
            continue;
        }
        let o = gen_opts(&mut rng, &buf, Some(&g), cfg.deep, cfg.typed, cfg.npolice);
        let out = check_buffer(ctx, &buf, &o);
        note(ctx, "grammar", &buf, &out);
        for _ in 0..mutants_per {
            let mut m = mutate(&mut rng, &buf, Some(&prev));
            if rng.chance(1, 4) {
                m = mutate(&mut rng, &m, None);
            }
            if m.len() > 70_000 {
                continue;
            }
            let out = check_buffer(ctx, &m, &o);
            note(ctx, "mutant", &m, &out);
        }
        prev = buf;
    }
}

/// exhaustive attribute skeletons up to `max_len` x residues x declared-length perturbations
pub fn skeleton_stream(ctx: &mut Ctx, cfg: &StreamCfg, max_len: usize) {
    let creds = RefCreds::Short("skeleton".into());
    let key = creds.key();
    let police = vec![(vec![], vec![]), (vec![0x7e00, MI, MI256], vec![0x7e00])];
    let o = Opts { creds: vec![creds.clone()], police: if cfg.npolice > 0 { police } else { vec![] }, deep: cfg.deep, typed: cfg.typed };
    let mut todo: Vec<(Vec<Sk>, usize, LenPert)> = vec![];
    for_each_skeleton(max_len, |idx, seq| {
        for res in 0..5usize {
            for (pi, pert) in LEN_PERTS.iter().enumerate() {
                let gi = idx * 30 + (res * 6 + pi) as u64;
                if ctx.mine(gi) {
                    todo.push((seq.to_vec(), res, *pert));
                }
            }
        }
    });
    for (seq, res, pert) in todo {
        let buf = build_skeleton(&seq, res, pert, &key);
        let out = check_buffer(ctx, &buf, &o);
        note(ctx, "skeleton", &buf, &out);
    }
}

/// messages straddling the 16-bit length boundary
pub fn boundary_stream(ctx: &mut Ctx, cfg: &StreamCfg, n: u64) {
    let mut rng = ctx.rng("boundary", 0);
    let tails: [&[Seal]; 8] = [
        &[Seal::Sha1],
        &[Seal::Sha256(32)],
        &[Seal::Sha256(16)],
        &[Seal::Sha1, Seal::Fingerprint],
        &[Seal::Sha256(32), Seal::Fingerprint],
        &[Seal::Sha1, Seal::Sha256(32), Seal::Fingerprint],
        &[Seal::Fingerprint],
        &[],
    ];
    for i in 0..n {
        let creds = gen_creds_small(&mut rng);
        let tail = tails[(i % 8) as usize];
        // directed totals: integrity attribute ending just below / at / above 65 535, then random
        let total = match i / 8 {
            0 => 65_552,
            1 => 65_548,
            2 => 65_536,
            3 => 65_532,
            4 => 65_540,
            _ => 65_400 + 4 * rng.usize(40),
        };
        let mut buf = gen_boundary_message(&mut rng, total.min(65_552), tail, &creds);
        match rng.below(6) {
            0 => {
                // excess bytes pushing the buffer towards 70 000
                let k = rng.usize(4_400);
                buf.extend(rng.bytes(k));
            }
            1 => buf = mutate(&mut rng, &buf, None),
            _ => {}
        }
        let mut o = gen_opts(&mut rng, &buf[..buf.len().min(200)], None, cfg.deep, cfg.typed, cfg.npolice.min(1));
        o.creds = vec![creds];
        let out = check_buffer(ctx, &buf, &o);
        note(ctx, "boundary", &buf, &out);
    }
}

/// raw random bytes behind a valid header prefix, and pure noise, of all small lengths
/// Messages as real peers send them (see `gen_realistic_message`), each followed by mutants of it
/// (single bytes, cuts, attribute-level edits).
pub fn realistic_stream(ctx: &mut Ctx, cfg: &StreamCfg, n: u64, mutants_per: u64) {
    let mut rng = ctx.rng("realistic", 0);
    for i in 0..n {
        let (buf, creds) = gen_realistic_message(&mut rng, (i % REALISTIC_VARIANTS as u64) as u32);
        let mut o = gen_opts(&mut rng, &buf, None, cfg.deep, cfg.typed, cfg.npolice);
        o.creds = vec![creds.clone(), gen_creds_small(&mut rng)];
        let out = check_buffer(ctx, &buf, &o);
        note(ctx, "realistic", &buf, &out);
        for _ in 0..mutants_per {
            let m = mutate(&mut rng, &buf, None);
            let out = check_buffer(ctx, &m, &o);
            note(ctx, "realistic-mutant", &m, &out);
        }
    }
}

pub fn short_stream(ctx: &mut Ctx, cfg: &StreamCfg, reps: u64) {
    let mut rng = ctx.rng("short", 0);
    let o = Opts { creds: vec![RefCreds::Short("p".into())], police: vec![(vec![], vec![])], deep: cfg.deep, typed: cfg.typed };
    let hdr = [0x00u8, 0x01, 0x00, 0x00, 0x21, 0x12, 0xA4, 0x42, 1, 2, 3, 4, 5, 6, 7, 8, 9, 10, 11, 12];
    let mut idx = 0u64;
    for len in 0..=48usize {
        for pat in 0..8u32 {
            for rep in 0..reps {
                idx += 1;
                if !ctx.mine(idx) {
                    continue;
                }
                let mut b = vec![0u8; len];
                for (i, x) in b.iter_mut().enumerate() {
                    *x = if i < 20 { hdr[i] } else { 0 };
                }
                match pat {
                    0 => {}
                    1 => {
                        // declared length = exact body
                        if len >= 20 {
                            set_len(&mut b, len - 20);
                        }
                    }
                    2 => {
                        if len >= 20 {
                            set_len(&mut b, len - 20);
                            for x in b[20..].iter_mut() {
                                *x = rng.byte();
                            }
                        }
                    }
                    3 => {
                        for x in b.iter_mut() {
                            *x = rng.byte();
                        }
                    }
                    4 => {
                        if len > 0 {
                            b[0] |= *rng.pick(&[0x40u8, 0x80, 0xc0]);
                        }
                    }
                    5 => {
                        if len >= 8 {
                            b[4 + rng.usize(4)] ^= 1 << rng.usize(8);
                        }
                    }
                    6 => {
                        if len >= 20 {
                            set_len(&mut b, len - 20);
                            // one attribute header with a length from the boundary set
                            if len >= 24 {
                                let l = *rng.pick(&[0usize, 1, 2, 3, 4, 5, 8, 0xffff, len - 24, len - 23, len.saturating_sub(25)]);
                                b[20] = rng.byte();
                                b[21] = rng.byte();
                                b[22] = (l >> 8) as u8;
                                b[23] = l as u8;
                            }
                        }
                    }
                    _ => {
                        if len >= 20 {
                            let l = *rng.pick(&[0usize, len - 20, len - 19, len.saturating_sub(21), 0xffff, 4, 8]);
                            set_len(&mut b, l & 0xffff);
                        }
                    }
                }
                let _ = rep;
                let out = check_buffer(ctx, &b, &o);
                note(ctx, "short", &b, &out);
            }
        }
    }
}
