//! C09 — FINGERPRINT is the RFC CRC; corrupting a fingerprinted message gets it rejected.
//! Fault enumeration: every single-bit flip, every burst pattern up to 8 bits at every bit
//! position, random bursts up to 32 bits, byte substitutions; each mutant judged by the reference.

use super::builder::*;
use crate::ctx::{guard, hash64, hash_bytes, Ctx, Tier};
use crate::gen::msg::*;
use crate::refimpl::crypto::hex;
use crate::refimpl::parse::*;
use serde_json::{json, Value};
use stun_types::message::{Message, StunParseError};

fn wit(buf: &[u8]) -> Value {
    json!({"kind": "fp-mutant", "buf": hex(buf)})
}

/// Judge one (possibly corrupted) buffer.
pub fn check_mutant(ctx: &mut Ctx, m: &[u8]) {
    ctx.eval();
    let rp = ref_parse(m);
    let ref_has_fp = rp.attrs.iter().any(|a| a.ty == FP);
    let ref_fp_bad = rp.causes.iter().any(|c| matches!(c, Cause::FingerprintMismatch | Cause::MalformedFingerprint));
    // both decoding entry points: `Message::from_bytes` and the `TryFrom<&[u8]>` conversion
    for entry in ["Message::from_bytes", "TryFrom<&[u8]> for Message"] {
        ctx.wd.enter(entry, m);
        let r = guard(|| {
            if entry == "Message::from_bytes" {
                Message::from_bytes(m).map(|_| ())
            } else {
                <Message as std::convert::TryFrom<&[u8]>>::try_from(m).map(|_| ())
            }
        });
        ctx.wd.leave();
        match r {
            Err(p) => ctx.violation("C01", "no-panic", entry, "fp-mutant", || wit(m), "Ok or Err".into(), format!("panic: {} at {}", p.msg, p.loc)),
            Ok(Ok(())) => {
                ctx.count("mutant-accepted");
                if ref_fp_bad {
                    ctx.violation(
                        "C09",
                        "bad-fingerprint-rejected",
                        entry,
                        if rp.excess > 0 { "excess" } else { "" },
                        || wit(m),
                        "Err: the buffer carries a FINGERPRINT that does not match its bytes".into(),
                        "Ok".into(),
                    );
                } else if !rp.accepted() || rp.excess > 0 {
                    // a corrupted fingerprinted message may be accepted only if the corruption dissolved
                    // the FINGERPRINT into other well-formed attributes: this one is not well-formed at all
                    // (the independent decoder refuses it for another reason, e.g. a damaged length field)
                    ctx.violation(
                        "C09",
                        "corrupted-accepted-only-if-well-formed",
                        entry,
                        "fp-mutant",
                        || wit(m),
                        format!("Err: {:?}{}", rp.causes, if rp.excess > 0 { " (bytes beyond the advertised length)" } else { "" }),
                        "Ok".into(),
                    );
                } else if ref_has_fp {
                    ctx.count("mutant-accepted-with-valid-fingerprint");
                } else {
                    ctx.count("mutant-accepted-fingerprint-dissolved");
                }
            }
            Ok(Err(e)) => {
                ctx.count("mutant-rejected");
                if matches!(e, StunParseError::FingerprintMismatch) {
                    ctx.count("mutant-rejected-fingerprint-mismatch");
                    if !ref_fp_bad && rp.excess == 0 {
                        ctx.violation(
                            "C09",
                            "good-fingerprint-accepted",
                            entry,
                            "",
                            || wit(m),
                            format!("not FingerprintMismatch (reference causes: {:?})", rp.causes),
                            "Err(FingerprintMismatch)".into(),
                        );
                    }
                } else if rp.accepted() && rp.excess == 0 {
                    ctx.violation("C02", "accept-iff", entry, "fp-mutant", || wit(m), "Ok".into(), format!("Err({e:?})"));
                }
            }
        }
    }
}

/// The base message itself: accepted, and (if builder-made) equal to the reference CRC.
fn check_base(ctx: &mut Ctx, m: &[u8]) -> bool {
    let rp = ref_parse(m);
    if !rp.accepted() || !rp.attrs.iter().any(|a| a.ty == FP) {
        return false;
    }
    let ok = guard(|| Message::from_bytes(m).is_ok());
    if ok != Ok(true) {
        ctx.violation("C09", "valid-fingerprint-accepted", "Message::from_bytes", "", || wit(m), "Ok".into(), format!("{ok:?}"));
        return false;
    }
    true
}

pub fn enumerate_faults(ctx: &mut Ctx, base: &[u8], rng: &mut crate::prng::Rng, full: bool) {
    let n = base.len();
    let mut m = base.to_vec();
    // every single-bit flip over the whole buffer
    for bit in 0..n * 8 {
        m[bit / 8] ^= 1 << (bit % 8);
        check_mutant(ctx, &m);
        m[bit / 8] ^= 1 << (bit % 8);
    }
    ctx.count_n("single-bit-flips", (n * 8) as u64);
    // every burst pattern of length 2..=8 (first and last bit set) at every bit position
    let max_burst = if full { 8 } else { 5 };
    for len in 2..=max_burst {
        let inner = len - 2;
        for pat in 0..(1u32 << inner) {
            let mask: u32 = 1 | (pat << 1) | (1 << (len - 1));
            for start in 0..(n * 8).saturating_sub(len) {
                for k in 0..len {
                    if mask >> k & 1 == 1 {
                        let b = start + k;
                        m[b / 8] ^= 0x80 >> (b % 8);
                    }
                }
                check_mutant(ctx, &m);
                m.copy_from_slice(base);
                ctx.count("bursts-le-8");
            }
        }
    }
    // random bursts of 9..=32 bits
    let nr = if full { 4_000 } else { 400 };
    for _ in 0..nr {
        let len = 9 + rng.usize(24);
        if n * 8 <= len {
            break;
        }
        let start = rng.usize(n * 8 - len);
        let mut any = false;
        for k in 0..len {
            if k == 0 || k == len - 1 || rng.chance(1, 2) {
                let b = start + k;
                m[b / 8] ^= 0x80 >> (b % 8);
                any = true;
            }
        }
        if any {
            check_mutant(ctx, &m);
            ctx.count("bursts-9-32");
        }
        m.copy_from_slice(base);
    }
    // all 255 substitutions at every byte of the header, the TLV headers and the CRC; sampled elsewhere
    let rp = ref_parse(base);
    let mut hot: Vec<usize> = (0..20.min(n)).collect();
    for a in &rp.attrs {
        hot.extend(a.off..a.off + 4);
        if a.ty == FP {
            hot.extend(a.off + 4..a.off + 8);
        }
    }
    for i in 0..n {
        let is_hot = hot.contains(&i);
        let vals: Vec<u8> = if is_hot { (1..=255u8).collect() } else { (0..if full { 16 } else { 3 }).map(|_| 1 + rng.below(255) as u8).collect() };
        for d in vals {
            m[i] = base[i] ^ d;
            check_mutant(ctx, &m);
            ctx.count("byte-substitutions");
        }
        m[i] = base[i];
    }
}

fn crc32c(data: &[u8]) -> u32 {
    // Castagnoli, reflected 0x82F63B78 (a "wrong polynomial" near miss)
    let mut c = 0xffff_ffffu32;
    for b in data {
        c ^= *b as u32;
        for _ in 0..8 {
            c = if c & 1 == 1 { (c >> 1) ^ 0x82f6_3b78 } else { c >> 1 };
        }
    }
    !c
}

/// Near-miss FINGERPRINT relations: the value an almost-right implementation would compute (length
/// field not covering the attribute, covering too much, no XOR, another polynomial, other byte
/// order, other coverage).  A message carrying any of them instead of the RFC value must be refused.
pub fn near_miss_relations(ctx: &mut Ctx, base: &[u8]) {
    use crate::refimpl::crypto::crc32;
    let rp = ref_parse(base);
    let Some(fp) = rp.attrs.iter().find(|a| a.ty == FP) else { return };
    let off = fp.off;
    let with_len = |l: usize, upto: usize| {
        let mut v = base[..upto].to_vec();
        v[2] = (l >> 8) as u8;
        v[3] = l as u8;
        v
    };
    let right = with_len(off + 8 - 20, off);
    let x = 0x5354_554eu32;
    let mut alts: Vec<(&'static str, u32)> = vec![
        ("length-not-covering-fingerprint", crc32(&with_len(off - 20, off)) ^ x),
        ("length-as-total-size", crc32(&with_len(off + 8, off)) ^ x),
        ("length-zero", crc32(&with_len(0, off)) ^ x),
        ("no-xor", crc32(&right)),
        ("xor-byte-swapped", crc32(&right) ^ x.swap_bytes()),
        ("crc-byte-swapped", (crc32(&right) ^ x).swap_bytes()),
        ("crc32c", crc32c(&right) ^ x),
        ("body-only", crc32(&right[20.min(right.len())..]) ^ x),
        ("including-own-header", crc32(&with_len(off + 8 - 20, off + 4)) ^ x),
        ("complemented", !(crc32(&right) ^ x)),
    ];
    if off >= 24 {
        // the CRC of the message without its last attribute before the fingerprint
        if let Some(prev) = rp.attrs.iter().filter(|a| a.off < off).last() {
            alts.push(("without-previous-attribute", crc32(&with_len(prev.off + 8 - 20, prev.off)) ^ x));
        }
    }
    let genuine = u32::from_be_bytes(base[off + 4..off + 8].try_into().unwrap());
    for (name, v) in alts {
        if v == genuine {
            continue;
        }
        let mut m = base.to_vec();
        m[off + 4..off + 8].copy_from_slice(&v.to_be_bytes());
        check_mutant(ctx, &m);
        ctx.count("near-miss-fingerprint-relations");
        ctx.set_insert("near-miss-relations", name.to_string());
    }
}

/// The public primitive: `Fingerprint::compute` is CRC-32/ISO-HDLC of the data it is given (the
/// XOR with 0x5354554e is applied when the attribute is written / compared).
pub fn check_crc_primitive(ctx: &mut Ctx, data: &[u8]) {
    ctx.eval();
    let want = crate::refimpl::crypto::crc32(data).to_be_bytes();
    let r = guard(|| {
        let c = stun_types::attribute::Fingerprint::compute(data);
        // the attribute made from it carries the XORed value on the wire and gives the CRC back
        let f = stun_types::attribute::Fingerprint::new(c);
        let raw = stun_types::attribute::AttributeWrite::to_raw(&f);
        // and written in place through the typed attribute's own writer (an application sealing a
        // message in its own buffer)
        let mut dest = [0xEEu8; 10];
        let n = stun_types::attribute::AttributeWriteExt::write_into(&f, &mut dest).unwrap_or(0);
        let mut dest2 = [0xEEu8; 8];
        stun_types::attribute::AttributeWrite::write_into_unchecked(&f, &mut dest2);
        let inplace_ok = n == 8 && dest[..4] == [0x80, 0x28, 0x00, 0x04] && dest[4..8] == raw.value[..] && dest[8..] == [0xEE, 0xEE] && dest2 == dest[..8];
        (c, raw.value.to_vec(), *f.fingerprint(), inplace_ok, dest.to_vec())
    });
    let w = || json!({"kind": "crc-primitive", "data": hex(data)});
    match r {
        Err(p) => ctx.violation("C09", "no-panic", "Fingerprint::compute", "primitive", w, "value".into(), format!("panic: {} at {}", p.msg, p.loc)),
        Ok((c, wire, back, inplace_ok, dest)) => {
            let xored: Vec<u8> = want.iter().zip([0x53u8, 0x54, 0x55, 0x4e]).map(|(a, b)| a ^ b).collect();
            if c != want || wire != xored || back != want {
                ctx.violation("C09", "crc-is-iso-hdlc", "Fingerprint::{compute,new,to_raw}", "primitive", w, format!("crc {} wire {}", hex(&want), hex(&xored)), format!("crc {} wire {} getter {}", hex(&c), hex(&wire), hex(&back)));
            } else if !inplace_ok {
                ctx.violation("C09", "crc-is-iso-hdlc", "Fingerprint::write_into", "primitive,in-place", w, format!("8028 0004 {} written in place", hex(&xored)), hex(&dest));
            }
            ctx.count("crc-primitive-checks");
        }
    }
}

pub fn run(ctx: &mut Ctx) {
    let quick = ctx.tier == Tier::Quick;
    {
        let np = ctx.n(16_000, 400_000);
        let mut rng = ctx.rng("crc-primitive", 0);
        for i in 0..np {
            let dl = match i % 6 {
                0 => rng.usize(9),
                1 => *rng.pick(&[15usize, 16, 17, 31, 32, 33, 63, 64, 65, 255, 256, 257, 1023, 1024, 1025, 4095, 4096, 4097]),
                2 => rng.usize(70_000),
                _ => rng.usize(300),
            };
            let fill = rng.below(4);
            let data: Vec<u8> = (0..dl).map(|_| match fill { 0 => 0, 1 => 0xff, _ => rng.byte() }).collect();
            check_crc_primitive(ctx, &data);
        }
        ctx.require("crc-primitive-checks", 5_000);
    }
    // ---- builder-appended FINGERPRINT equals the reference value ----
    let nb = ctx.n(160_000, 2_000_000);
    let mut rng = ctx.rng("builder-fp", 0);
    for i in 0..nb {
        let mut p = gen_program(&mut rng, 6, false);
        if !p.seals.contains(&SealSpec::Fp) {
            p.seals.push(SealSpec::Fp);
        }
        ctx.eval();
        // one program in four on a builder that is measured / serialised / cloned between additions
        let built = if i % 4 == 3 {
            crate::ctx::guard(|| {
                let objs = make_objs(&p).ok()?;
                apply_program_observed(&p, &objs).ok().map(|b| b.build())
            })
            .ok()
            .flatten()
        } else {
            build_program(&p)
        };
        match built {
            Some(bytes) => {
                let want = p.reference_bytes();
                let n = bytes.len();
                ctx.count("builder-fingerprints");
                if n < 28 || bytes.len() != want.len() || bytes[n - 8..] != want[n - 8..] {
                    ctx.violation(
                        "C09",
                        "builder-fingerprint-is-rfc-crc",
                        "MessageBuilder::add_fingerprint",
                        "",
                        || p.to_json(),
                        format!("…{}", hex(&want[want.len().saturating_sub(8)..])),
                        format!("…{}", hex(&bytes[n.saturating_sub(8)..])),
                    );
                }
                ctx.distinct(hash64(&[1, hash_bytes(&bytes[..bytes.len().min(64)])]));
                if i < 1 {
                    ctx.sample("builder-fingerprint", || json!({"bytes": hex(&bytes)}));
                }
                // right afterwards, on the same thread, a builder of the same shape (type, id, attribute
                // types, lengths) with other contents: its FINGERPRINT is the CRC of its own bytes
                if i % 3 == 1 {
                    let q = super::c03::twin_of(&p, &mut rng);
                    if let Some(b2) = build_program(&q) {
                        let want2 = q.reference_bytes();
                        let n2 = b2.len();
                        ctx.count("builder-fingerprints-same-shape-right-after");
                        if n2 < 28 || n2 != want2.len() || b2[n2 - 8..] != want2[n2 - 8..] {
                            ctx.violation(
                                "C09",
                                "builder-fingerprint-is-rfc-crc",
                                "MessageBuilder::add_fingerprint",
                                "same-shape-builder-right-after",
                                || {
                                    let mut v = q.to_json();
                                    v["built_right_before"] = p.to_json();
                                    v
                                },
                                format!("…{}", hex(&want2[want2.len().saturating_sub(8)..])),
                                format!("…{}", hex(&b2[n2.saturating_sub(8)..])),
                            );
                        }
                    }
                }
                // the same program written into a reused (not zeroed) buffer: the appended value must be
                // the CRC of the bytes actually emitted before it
                if i % 4 == 0 {
                    if let Some(d) = build_program_dirty(&p, if i % 8 == 0 { 0xA5 } else { 0xFF }, i % 16 == 0) {
                        ctx.count("builder-fingerprints-dirty-destination");
                        let m = d.len();
                        let ok = m >= 28 && {
                            let mut pre = d[..m - 8].to_vec();
                            let l = m - 20;
                            pre[2] = (l >> 8) as u8;
                            pre[3] = l as u8;
                            (crate::refimpl::crypto::crc32(&pre) ^ 0x5354_554e).to_be_bytes() == d[m - 4..]
                        };
                        if !ok {
                            ctx.violation(
                                "C09",
                                "builder-fingerprint-is-rfc-crc",
                                "MessageBuilder::write_into",
                                "dirty-destination",
                                || p.to_json(),
                                "FINGERPRINT = CRC-32 of the emitted bytes before it, xor 0x5354554e".into(),
                                format!("…{}", hex(&d[m.saturating_sub(8)..])),
                            );
                        }
                    }
                }
            }
            None => ctx.violation("C03", "in-limit-accepted", "MessageBuilder", "", || p.to_json(), "builds".into(), "refused".into()),
        }
    }
    // ---- fault enumeration over fingerprinted messages ----
    let nm = ctx.n(480, 4_800);
    let mut rng = ctx.rng("faults", 0);
    let mut done = 0;
    let mut tries = 0;
    while done < nm && tries < nm * 50 {
        tries += 1;
        let base: Vec<u8> = if tries % 3 == 0 {
            let mut p = gen_program(&mut rng, 3, false);
            p.attrs.truncate(2);
            if !p.seals.contains(&SealSpec::Fp) {
                p.seals.push(SealSpec::Fp);
            }
            match build_program(&p) {
                Some(b) => b,
                None => continue,
            }
        } else {
            let (b, _g) = gen_valid_message(&mut rng, 3);
            b
        };
        if base.len() > if quick { 120 } else { 300 } || !check_base(ctx, &base) {
            continue;
        }
        done += 1;
        ctx.count("base-messages");
        ctx.distinct(hash64(&[2, hash_bytes(&base)]));
        if done <= 2 {
            ctx.sample("base-message", || json!({"bytes": hex(&base), "mutants": "every single-bit flip, every burst <= 8 bits, sampled bursts <= 32, byte substitutions"}));
        }
        near_miss_relations(ctx, &base);
        enumerate_faults(ctx, &base, &mut rng, !quick);
    }
    // ---- the same over messages as real peers send them (attributes that repeat each other's
    //      information, nested messages, the usual sealing): nothing in a message helps a corrupted
    //      one past the checksum ----
    {
        let mut r2 = ctx.rng("realistic", 0);
        let reps = ctx.n(16, 160).div_ceil(ctx.nshards).max(1);
        for variant in 0..REALISTIC_VARIANTS {
            for _ in 0..reps {
                let (base, _creds) = gen_realistic_message(&mut r2, variant);
                // (check_base reports a well-formed fingerprinted message that the parser refuses)
                if !check_base(ctx, &base) {
                    ctx.count("realistic-messages-not-usable");
                    continue;
                }
                ctx.count("realistic-base-messages");
                ctx.distinct(hash64(&[7, hash_bytes(&base)]));
                near_miss_relations(ctx, &base);
                enumerate_faults(ctx, &base, &mut r2, !quick);
            }
        }
        ctx.require("realistic-base-messages", 100);
    }
    // ---- every one of the 65 536 type codes as an attribute appended BEHIND the FINGERPRINT of a
    //      valid message, the length field raised to cover it: nothing may follow a FINGERPRINT,
    //      whatever its type (the CRC in place is not the CRC of this buffer with this length) ----
    {
        let mut r4 = ctx.rng("behind-fingerprint", 0);
        let (base, _c) = gen_realistic_message(&mut r4, 3);
        let mut k = 0u64;
        for t in 0..=0xffffu32 {
            k += 1;
            if !ctx.mine(k) {
                continue;
            }
            let mut m = base.clone();
            push_tlv(&mut m, &Tlv::new(t as u16, vec![0x42; (t as usize % 2) * 4]));
            let l = m.len() - 20;
            set_len(&mut m, l);
            check_mutant(ctx, &m);
            ctx.count("types-appended-behind-the-fingerprint");
        }
        ctx.require("types-appended-behind-the-fingerprint", 65_536);
    }
    // near-miss relations on many more messages than the (expensive) fault enumeration can take
    {
        let nn = ctx.n(48_000, 480_000);
        let mut r3 = ctx.rng("near-miss", 0);
        for _ in 0..nn {
            let (b, _g) = gen_valid_message(&mut r3, 4);
            if b.len() <= 2_000 && ref_parse(&b).attrs.iter().any(|a| a.ty == FP) {
                near_miss_relations(ctx, &b);
            }
        }
    }
    // a few near 64 KiB: single-bit flips sampled (each mutant costs a CRC over 64 KiB)
    let nbig = ctx.n(48, 480);
    for _ in 0..nbig {
        let total = 65_552 - 4 * rng.usize(20);
        let base = gen_boundary_message(&mut rng, total, &[Seal::Sha1, Seal::Fingerprint], &RefCreds::Short("big".into()));
        if !check_base(ctx, &base) {
            continue;
        }
        ctx.count("large-base-messages");
        let mut m = base.clone();
        let n = base.len();
        let mut bits: Vec<usize> = (0..160).collect(); // header
        bits.extend((n - 8) * 8..n * 8); // the fingerprint attribute
        for _ in 0..200 {
            bits.push(rng.usize(n * 8));
        }
        for b in bits {
            m[b / 8] ^= 1 << (b % 8);
            check_mutant(ctx, &m);
            m[b / 8] ^= 1 << (b % 8);
        }
    }
    // every total 65 500..=65 552 with the FINGERPRINT as the last attribute (its offset crosses
    // 65 536 at 65 544 / 65 548 / 65 552 bytes), builder-made and reference-made: value = reference
    // CRC, accepted, and header / FINGERPRINT / sampled single-bit flips rejected
    {
        let seal_sets: [&[SealSpec]; 4] = [&[SealSpec::Fp], &[SealSpec::Sha1, SealSpec::Fp], &[SealSpec::Sha256, SealSpec::Fp], &[SealSpec::Sha1, SealSpec::Sha256, SealSpec::Fp]];
        let mut gi = 0u64;
        for total in (65_500..=65_552usize).step_by(4) {
            for (si, seals) in seal_sets.iter().enumerate() {
                gi += 1;
                if !ctx.mine(gi) {
                    continue;
                }
                let mut r2 = ctx.rng("exact-64k", gi);
                let p = super::c03::big_program_exact(&mut r2, total, seals);
                ctx.eval();
                let base = match build_program(&p) {
                    Some(b) => b,
                    None => {
                        ctx.violation("C03", "in-limit-accepted", "MessageBuilder", "near-64k", || p.to_json(), "builds".into(), "refused".into());
                        continue;
                    }
                };
                let want = p.reference_bytes();
                let n = base.len();
                if n != total || n != want.len() || base[n - 8..] != want[n - 8..] {
                    ctx.violation(
                        "C09",
                        "builder-fingerprint-is-rfc-crc",
                        "MessageBuilder::add_fingerprint",
                        &format!("total={total}"),
                        || p.to_json(),
                        format!("{} bytes …{}", want.len(), hex(&want[want.len().saturating_sub(8)..])),
                        format!("{} bytes …{}", n, hex(&base[n.saturating_sub(8)..])),
                    );
                    continue;
                }
                ctx.count("exact-64k-boundary-fingerprints");
                // the reference-made twin (same size), and the fault sample on both
                let rseals: Vec<Seal> = seals.iter().map(|s| match s { SealSpec::Sha1 => Seal::Sha1, SealSpec::Sha256 => Seal::Sha256(32), SealSpec::Fp => Seal::Fingerprint }).collect();
                let twin = gen_boundary_message(&mut r2, total, &rseals, &RefCreds::Short("big".into()));
                for b in [&want, &twin] {
                    if b.len() != total || !check_base(ctx, b) {
                        continue;
                    }
                    ctx.count("large-base-messages");
                    let mut m = b.to_vec();
                    let mut bits: Vec<usize> = (0..160).collect();
                    bits.extend((total - 8) * 8..total * 8);
                    for _ in 0..(if si == 0 { 64 } else { 24 }) {
                        bits.push(r2.usize(total * 8));
                    }
                    for bit in bits {
                        m[bit / 8] ^= 1 << (bit % 8);
                        check_mutant(ctx, &m);
                        m[bit / 8] ^= 1 << (bit % 8);
                    }
                }
            }
        }
    }
    // many attributes in front of the FINGERPRINT (511 / 512 / 513 / 1000 / 5000 tiny ones): the CRC is
    // still checked: header, CRC and sampled bit flips rejected, near-miss relations rejected
    {
        let mut gi = 0u64;
        for count in [100usize, 511, 512, 513, 1000, 1024, 5000] {
            for rep in 0..2 {
                gi += 1;
                if !ctx.mine(gi) {
                    continue;
                }
                let mut r2 = ctx.rng("many-attrs-fp", gi);
                let tid = gen_tid(&mut r2);
                let tlvs: Vec<Tlv> = (0..count).map(|i| Tlv::new(0x4000 + (i as u16 % 0x3000), vec![i as u8; (i + rep) % 5])).collect();
                let mut b = encode(rep as u8, 1, &tid, &tlvs);
                if rep == 1 {
                    seal(&mut b, Seal::Sha1, b"many");
                }
                seal(&mut b, Seal::Fingerprint, &[]);
                if !check_base(ctx, &b) {
                    continue;
                }
                ctx.count("many-attribute-fingerprinted-messages");
                near_miss_relations(ctx, &b);
                let n = b.len();
                let mut m = b.clone();
                let mut bits: Vec<usize> = (0..160).collect();
                bits.extend((n - 8) * 8..n * 8);
                for _ in 0..64 {
                    bits.push(r2.usize(n * 8));
                }
                for bit in bits {
                    m[bit / 8] ^= 1 << (bit % 8);
                    check_mutant(ctx, &m);
                    m[bit / 8] ^= 1 << (bit % 8);
                }
            }
        }
    }
    // large typed attributes handed to the builder by reference (ALTERNATE-DOMAIN has no limit,
    // UNKNOWN-ATTRIBUTES lists can be long): sizes around 1 KiB, 2 KiB, 4 KiB, 64 KiB
    {
        use crate::refimpl::attrs::{Kind, RefVal};
        let mut gi = 0u64;
        for size in [1000usize, 1016, 1017, 1020, 1021, 1024, 1025, 2047, 2048, 2049, 4096, 4097, 8192, 30_000, 65_000] {
            for kind in 0..2 {
                gi += 1;
                if !ctx.mine(gi) {
                    continue;
                }
                let mut r2 = ctx.rng("big-typed", gi);
                let spec = if kind == 0 {
                    AttrSpec::Typed(Kind::AlternateDomain, RefVal::Text(crate::gen::vals::text_exact(&mut r2, size)))
                } else {
                    AttrSpec::Typed(Kind::UnknownAttributes, RefVal::TypeList((0..(size / 2).min(32_000)).map(|i| 0x0100 + i as u16).collect()))
                };
                for seals in [vec![SealSpec::Fp], vec![SealSpec::Sha1, SealSpec::Fp], vec![SealSpec::Sha256, SealSpec::Fp]] {
                    let p = Program { class: 0, method: 1, tid: gen_tid(&mut r2), attrs: vec![AttrSpec::Typed(Kind::Software, RefVal::Text("s".into())), spec.clone()], seals, creds: RefCreds::Short("big".into()) };
                    ctx.eval();
                    let Some(bytes) = build_program(&p) else { continue };
                    let want = p.reference_bytes();
                    let n = bytes.len();
                    if n < 28 || n != want.len() || bytes[n - 8..] != want[n - 8..] {
                        ctx.violation(
                            "C09",
                            "builder-fingerprint-is-rfc-crc",
                            "MessageBuilder::add_fingerprint",
                            &format!("large-typed-attribute,{}", if kind == 0 { "ALTERNATE-DOMAIN" } else { "UNKNOWN-ATTRIBUTES" }),
                            || p.to_json(),
                            format!("{} bytes …{}", want.len(), hex(&want[want.len().saturating_sub(8)..])),
                            format!("{} bytes …{}", n, hex(&bytes[n.saturating_sub(8)..])),
                        );
                    }
                    ctx.count("builder-fingerprints-large-typed");
                }
            }
        }
    }
    ctx.require("many-attribute-fingerprinted-messages", 8);
    ctx.require("builder-fingerprints-large-typed", 40);
    ctx.require("exact-64k-boundary-fingerprints", 40);
    ctx.require("near-miss-fingerprint-relations", 10_000);
    ctx.require("builder-fingerprints", 5_000);
    ctx.require("base-messages", 200);
    ctx.require("single-bit-flips", 50_000);
    ctx.require("bursts-le-8", 100_000);
    ctx.require("mutant-rejected-fingerprint-mismatch", 100_000);
    ctx.require("large-base-messages", 10);
}

pub fn replay(ctx: &mut Ctx, w: &Value) -> Result<(), String> {
    match w.get("kind").and_then(|k| k.as_str()) {
        Some("crc-primitive") => {
            let d = crate::refimpl::crypto::unhex(w["data"].as_str().ok_or("data")?).ok_or("hex")?;
            check_crc_primitive(ctx, &d);
            Ok(())
        }
        Some("fp-mutant") => {
            let m = crate::refimpl::crypto::unhex(w["buf"].as_str().ok_or("buf")?).ok_or("hex")?;
            check_mutant(ctx, &m);
            Ok(())
        }
        Some("program") => {
            let p = Program::from_json(w).ok_or("program")?;
            ctx.eval();
            // a witness of the "same shape right after" kind: build its predecessor first
            if let Some(before) = w.get("built_right_before").and_then(Program::from_json) {
                let _ = build_program(&before);
            }
            if let Some(bytes) = build_program(&p) {
                let want = p.reference_bytes();
                let n = bytes.len();
                if n < 28 || bytes.len() != want.len() || bytes[n - 8..] != want[n - 8..] {
                    ctx.violation("C09", "builder-fingerprint-is-rfc-crc", "MessageBuilder::add_fingerprint", "", || p.to_json(), hex(&want[want.len().saturating_sub(8)..]), hex(&bytes[n.saturating_sub(8)..]));
                }
            }
            Ok(())
        }
        k => Err(format!("unknown witness kind {k:?}")),
    }
}
