//! Agent engine (DESIGN.md 3.4, appendix B): a real `StunAgent` driven in lock-step with a
//! sequential reference model over virtual time.  Serves C05, C06, C07, C15, C18, C20.

use crate::clock;
use crate::ctx::{guard, Ctx};
use crate::imp;
use crate::prng::Rng;
use crate::refimpl::crypto::{hex, unhex};
use crate::refimpl::parse::*;
use serde_json::{json, Value};
use std::collections::BTreeMap;
use std::net::SocketAddr;
use std::time::{Duration, Instant};
use stun_proto::agent::{HandleStunReply, StunAgent, StunAgentPollRet, StunError};
use stun_types::attribute::{AttributeType, RawAttribute};
use stun_types::message::{IntegrityAlgorithm, Message, MessageType};
use stun_types::TransportType;

/// size of the address universe (indices are `u8` in the operations)
thread_local! {
    /// events and spans the formatting subscriber received during agent calls on this thread
    pub static TRACE_SEEN: std::cell::Cell<u64> = const { std::cell::Cell::new(0) };
}
pub const NADDR: usize = 8192;
/// the core addresses every generator draws from and every observation covers; the rest of the
/// universe (indices NCORE..NADDR) is only used by the many-peers shapes and observed once touched
pub const NCORE: usize = 8;
pub const NTID: usize = 8;

pub fn addr(i: usize) -> SocketAddr {
    let i = i % NADDR;
    match i {
        0 => "192.0.2.1:3478".parse().unwrap(),
        1 => "192.0.2.1:3479".parse().unwrap(), // same IP, another port
        2 => "198.51.100.7:40000".parse().unwrap(),
        3 => "[2001:db8::1]:3478".parse().unwrap(),
        4 => "[2001:db8::2]:3478".parse().unwrap(),
        // the IPv4-mapped IPv6 twins of #0 and #2 (what a dual-stack socket reports for an IPv4
        // peer): different socket addresses, never to be confused with the IPv4 ones
        5 => "[::ffff:192.0.2.1]:3478".parse().unwrap(),
        6 => "[::ffff:198.51.100.7]:40000".parse().unwrap(),
        7 => "[2001:db8::1]:3479".parse().unwrap(),
        // addresses with a special meaning or shape: whatever the transport hands over as the source
        // of an accepted message is a peer like any other
        8..=31 => {
            const SPECIAL: [&str; 24] = [
                "0.0.0.0:0",
                "0.0.0.0:3478",
                "192.0.2.1:0",
                "255.255.255.255:3478",
                "224.0.0.1:3478",
                "239.255.255.250:1900",
                "127.0.0.1:65535",
                "169.254.1.1:1",
                "[::]:0",
                "[::]:3478",
                "[::1]:3478",
                "[ff02::1]:3478",
                "[ff0e::fb]:5353",
                "[fe80::1]:3478",
                "[::ffff:0.0.0.0]:0",
                "[::ffff:255.255.255.255]:65535",
                "[2001:db8::1]:0",
                "[64:ff9b::c000:201]:3478",
                "[ffff:ffff:ffff:ffff:ffff:ffff:ffff:ffff]:65535",
                "33.18.164.66:8466",
                "10.1.2.3:5000",
                "[fc00::1]:3478",
                "192.0.2.255:3478",
                "100.64.0.1:3478",
            ];
            // #13 carries an IPv6 zone, #29 a zone and a flow label (part of the socket address: the
            // same link-local address behind two interfaces is two peers)
            match i {
                13 => "[fe80::1%3]:3478".parse().unwrap(),
                29 => SocketAddr::V6(std::net::SocketAddrV6::new("fe80::1".parse().unwrap(), 3478, 0x000a_bcde, 7)),
                _ => SPECIAL[i - 8].parse().unwrap(),
            }
        }
        _ if i % 3 == 0 => format!("[2001:db8:77::{:x}]:{}", i, 20000 + i).parse().unwrap(),
        _ => format!("100.{}.{}.{}:{}", 64 + i / 4096, (i / 16) % 256, i % 256, 20000 + i).parse().unwrap(),
    }
}
pub fn local_addr() -> SocketAddr {
    "10.1.2.3:5000".parse().unwrap()
}

/// The agent's local address varies with the history (a deterministic function of it, so that a
/// witness replays identically): IPv4, the IPv6 and IPv4 wildcards, loopback, an IPv4-mapped and a
/// global IPv6 address.  Transmissions leave from exactly this address whatever the destination is.
pub fn local_of(h: &History) -> SocketAddr {
    const LOCALS: [&str; 6] = ["10.1.2.3:5000", "[::]:5000", "0.0.0.0:3478", "[::1]:9", "[::ffff:10.1.2.3]:5000", "[2001:db8::99]:5000"];
    let k = h.remote_addr.unwrap_or(7) as usize + h.remote0.unwrap_or(5) as usize * 3 + h.tcp as usize + h.ops.len();
    // two thirds of the histories keep the plain IPv4 address
    if k % 3 != 0 {
        return local_addr();
    }
    LOCALS[(k / 3) % LOCALS.len()].parse().unwrap()
}

/// indices 0..NTID are the core ids every generator uses; larger indices (the many-transactions
/// shape) get ids of their own: b7 3c <index, 16 bit> 05 .. 0c
pub fn tid_bytes(i: usize) -> [u8; 12] {
    let mut t = [0u8; 12];
    if i >= NTID {
        t = [0xb7, 0x3c, (i >> 8) as u8, i as u8, 5, 6, 7, 8, 9, 10, 11, 12];
        return t;
    }
    match i {
        0 => t = [0x11; 12],
        1 => t = [0; 12],
        2 => t = [0xff; 12],
        3 => {
            t[11] = 1;
        }
        4 => {
            t[0] = 0x80;
        }
        n => {
            for (j, b) in t.iter_mut().enumerate() {
                *b = (n * 37 + j * 11) as u8;
            }
        }
    }
    t
}

/// inverse of `tid_bytes`
pub fn tid_index(t: &[u8; 12]) -> Option<usize> {
    if let Some(i) = (0..NTID).find(|i| &tid_bytes(*i) == t) {
        return Some(i);
    }
    if t[0] == 0xb7 && t[1] == 0x3c && t[4..] == [5, 6, 7, 8, 9, 10, 11, 12] {
        let i = ((t[2] as usize) << 8) | t[3] as usize;
        if i >= NTID {
            return Some(i);
        }
    }
    None
}

pub fn creds(i: usize) -> RefCreds {
    match i % 4 {
        // #0 and #2 are longer than the 64-byte HMAC block and share their first 64 bytes
        0 => RefCreds::Short("remote-key/0123456789abcdefghijklmnopqrstuvwxyzABCDEFGHIJKLMNOPQRS-one".into()),
        1 => RefCreds::Long("user".into(), "realm.example".into(), "p:ss".into()),
        2 => RefCreds::Short("remote-key/0123456789abcdefghijklmnopqrstuvwxyzABCDEFGHIJKLMNOPQRS-two".into()),
        _ => RefCreds::Short("local-key".into()),
    }
}

#[derive(Clone, Copy, Debug, PartialEq, Eq)]
pub enum MsgKind {
    Request,
    Indication,
    Success,
    Error,
}

#[derive(Clone, Copy, Debug, PartialEq, Eq)]
pub enum Sealing {
    None,
    Sha1,
    Sha256,
    Both,
}

#[derive(Clone, Copy, Debug, PartialEq, Eq)]
pub enum RespSeal {
    Unsigned,
    /// valid under creds(i): SHA-1, SHA-256 (truncated to n bytes), or both
    Sha1(u8),
    Sha256(u8, u8),
    Both(u8),
    /// HMAC with one bit flipped, computed under creds(i)
    CorruptSha1(u8),
    CorruptSha256(u8),
    /// MESSAGE-INTEGRITY good, MESSAGE-INTEGRITY-SHA256 bad (under creds(i)) and vice versa
    GoodBad(u8),
    BadGood(u8),
    /// one integrity attribute with an impossible value length (index into ODD_LENS), under creds(i)
    OddLen(u8, u8),
}

pub const ODD_LENS: [(u16, usize); 7] = [(MI, 16), (MI, 24), (MI, 0), (MI, 19), (MI256, 36), (MI256, 18), (MI256, 12)];

#[derive(Clone, Copy, Debug, PartialEq, Eq)]
pub enum PollAt {
    /// exactly at the last WaitUntil (or now when there is none)
    AtWait,
    /// `ms` before the last WaitUntil (clamped to now)
    Before(u64),
    /// `us` MICROseconds before the last WaitUntil (clamped to now): just inside the last millisecond
    BeforeUs(u64),
    /// half way between now and the last WaitUntil
    Half,
    /// `ms` after the last WaitUntil (or after now)
    After(u64),
    /// now, again
    Now,
}

#[derive(Clone, Debug, PartialEq)]
pub enum Op {
    Send { kind: MsgKind, tid: u8, dest: u8, seal: Sealing, payload: u16 },
    Poll(PollAt),
    Response { tid: u8, from: u8, error: bool, seal: RespSeal, fp: bool },
    Incoming { request: bool, tid: u8, from: u8 },
    /// `count` indications, one from each of the addresses first, first+1, ... (indices may exceed u8)
    /// a request / indication carrying MESSAGE-INTEGRITY computed under creds(cred) (correctly, or with
    /// one bit of the HMAC flipped): the agent hands every incoming request / indication back and
    /// validates its sender, whatever it carries
    IncomingSigned { request: bool, tid: u8, from: u8, cred: u8, good: bool },
    IncomingBurst { first: u16, count: u16 },
    /// `count` accepted requests / indications in a row from ONE source address
    IncomingFlood { from: u8, count: u32 },
    /// `count` requests with the ids of indices first, first+1, ... (>= NTID), all at the current instant
    SendBurst { first: u16, count: u16 },
    Cancel(u8),
    CancelRetrans(u8),
    /// configure_timeout(rto ms + rto_us µs, n, last ms + last_us µs)
    Configure { tid: u8, rto: u64, n: u32, last: u64, rto_us: u16, last_us: u16 },
    SetRemote(u8),
    /// set_local_credentials: has no effect on any reply
    SetLocal(u8),
    /// StunAgent::send_data of `len` arbitrary bytes: produces a Transmit, changes nothing
    SendData { dest: u8, len: u16 },
    Advance(u64),
    /// run the inner operation (a poll, a response, an incoming message) through
    /// `mut_request_transaction(holder).mut_agent()` instead of the agent itself, then ask the handle
    /// for its peer address: a handle names its transaction, whatever happens to the others meanwhile
    Via { holder: u8, inner: Box<Op> },
    /// like `Via`, and afterwards ON THE SAME HANDLE one of cancel / cancel_retransmissions /
    /// configure_timeout for the handle's transaction (`then` is an `Op::Cancel`, `Op::CancelRetrans` or
    /// `Op::Configure`; its tid is ignored): a handle that was used to reach the agent is still a
    /// handle on its transaction
    ViaThen { holder: u8, inner: Box<Op>, then: Box<Op> },
    /// advance the virtual clock by a number of MICROseconds (changes the sub-millisecond phase)
    AdvanceUs(u64),
    /// move the virtual clock BACK by a number of milliseconds (a caller handing in a stale instant);
    /// every schedule keeps counting from the instants its own transmissions were handed out at
    Rewind(u64),
}

#[derive(Clone, Debug)]
pub struct History {
    pub tcp: bool,
    /// remote credentials set before the first operation (None = unset)
    pub remote0: Option<u8>,
    /// `StunAgentBuilder::remote_addr` (None = not configured)
    pub remote_addr: Option<u8>,
    pub ops: Vec<Op>,
}

// ---------------------------------------------------------------------------------------------
// JSON (witness) form

fn seal_json(s: &RespSeal) -> Value {
    match s {
        RespSeal::Unsigned => json!("unsigned"),
        RespSeal::Sha1(c) => json!(["sha1", c]),
        RespSeal::Sha256(c, n) => json!(["sha256", c, n]),
        RespSeal::Both(c) => json!(["both", c]),
        RespSeal::CorruptSha1(c) => json!(["corrupt-sha1", c]),
        RespSeal::CorruptSha256(c) => json!(["corrupt-sha256", c]),
        RespSeal::GoodBad(c) => json!(["good-bad", c]),
        RespSeal::BadGood(c) => json!(["bad-good", c]),
        RespSeal::OddLen(c, k) => json!(["odd-len", c, k]),
    }
}
fn seal_from(v: &Value) -> Option<RespSeal> {
    if v.as_str() == Some("unsigned") {
        return Some(RespSeal::Unsigned);
    }
    let a = v.as_array()?;
    let c = a.get(1)?.as_u64()? as u8;
    Some(match a.first()?.as_str()? {
        "sha1" => RespSeal::Sha1(c),
        "sha256" => RespSeal::Sha256(c, a.get(2)?.as_u64()? as u8),
        "both" => RespSeal::Both(c),
        "corrupt-sha1" => RespSeal::CorruptSha1(c),
        "corrupt-sha256" => RespSeal::CorruptSha256(c),
        "good-bad" => RespSeal::GoodBad(c),
        "bad-good" => RespSeal::BadGood(c),
        "odd-len" => RespSeal::OddLen(c, a.get(2)?.as_u64()? as u8),
        _ => return None,
    })
}

impl Op {
    pub fn to_json(&self) -> Value {
        match self {
            Op::Send { kind, tid, dest, seal, payload } => json!({"op": "send", "kind": format!("{kind:?}"), "tid": tid, "dest": dest, "seal": format!("{seal:?}"), "payload": payload}),
            Op::Poll(at) => match at {
                PollAt::AtWait => json!({"op": "poll", "at": "wait"}),
                PollAt::Before(ms) => json!({"op": "poll", "at": "before", "ms": ms}),
                PollAt::BeforeUs(us) => json!({"op": "poll", "at": "before_us", "us": us}),
                PollAt::Half => json!({"op": "poll", "at": "half"}),
                PollAt::After(ms) => json!({"op": "poll", "at": "after", "ms": ms}),
                PollAt::Now => json!({"op": "poll", "at": "now"}),
            },
            Op::Response { tid, from, error, seal, fp } => json!({"op": "response", "tid": tid, "from": from, "error": error, "seal": seal_json(seal), "fp": fp}),
            Op::Incoming { request, tid, from } => json!({"op": "incoming", "request": request, "tid": tid, "from": from}),
            Op::IncomingSigned { request, tid, from, cred, good } => json!({"op": "incoming_signed", "request": request, "tid": tid, "from": from, "cred": cred, "good": good}),
            Op::IncomingBurst { first, count } => json!({"op": "incoming_burst", "first": first, "count": count}),
            Op::IncomingFlood { from, count } => json!({"op": "incoming_flood", "from": from, "count": count}),
            Op::SendBurst { first, count } => json!({"op": "send_burst", "first": first, "count": count}),
            Op::Cancel(t) => json!({"op": "cancel", "tid": t}),
            Op::CancelRetrans(t) => json!({"op": "cancel_retransmissions", "tid": t}),
            Op::Configure { tid, rto, n, last, rto_us, last_us } => json!({"op": "configure", "tid": tid, "rto": rto, "n": n, "last": last, "rto_us": rto_us, "last_us": last_us}),
            Op::SetRemote(c) => json!({"op": "set_remote", "creds": c}),
            Op::SetLocal(c) => json!({"op": "set_local", "creds": c}),
            Op::SendData { dest, len } => json!({"op": "send_data", "dest": dest, "len": len}),
            Op::Advance(ms) => json!({"op": "advance", "ms": ms}),
            Op::Via { holder, inner } => json!({"op": "via", "holder": holder, "inner": inner.to_json()}),
            Op::ViaThen { holder, inner, then } => json!({"op": "via_then", "holder": holder, "inner": inner.to_json(), "then": then.to_json()}),
            Op::AdvanceUs(us) => json!({"op": "advance_us", "us": us}),
            Op::Rewind(ms) => json!({"op": "rewind", "ms": ms}),
        }
    }
    pub fn from_json(v: &Value) -> Option<Op> {
        let u = |k: &str| v.get(k).and_then(|x| x.as_u64());
        Some(match v.get("op")?.as_str()? {
            "send" => Op::Send {
                kind: match v.get("kind")?.as_str()? {
                    "Request" => MsgKind::Request,
                    "Indication" => MsgKind::Indication,
                    "Success" => MsgKind::Success,
                    _ => MsgKind::Error,
                },
                tid: u("tid")? as u8,
                dest: u("dest")? as u8,
                seal: match v.get("seal")?.as_str()? {
                    "Sha1" => Sealing::Sha1,
                    "Sha256" => Sealing::Sha256,
                    "Both" => Sealing::Both,
                    _ => Sealing::None,
                },
                payload: u("payload")? as u16,
            },
            "poll" => Op::Poll(match v.get("at")?.as_str()? {
                "wait" => PollAt::AtWait,
                "before" => PollAt::Before(u("ms")?),
                "before_us" => PollAt::BeforeUs(u("us")?),
                "half" => PollAt::Half,
                "after" => PollAt::After(u("ms")?),
                _ => PollAt::Now,
            }),
            "response" => Op::Response { tid: u("tid")? as u8, from: u("from")? as u8, error: v.get("error")?.as_bool()?, seal: seal_from(v.get("seal")?)?, fp: v.get("fp")?.as_bool()? },
            "incoming" => Op::Incoming { request: v.get("request")?.as_bool()?, tid: u("tid")? as u8, from: u("from")? as u8 },
            "incoming_signed" => Op::IncomingSigned { request: v.get("request")?.as_bool()?, tid: u("tid")? as u8, from: u("from")? as u8, cred: u("cred")? as u8, good: v.get("good")?.as_bool()? },
            "incoming_burst" => Op::IncomingBurst { first: u("first")? as u16, count: u("count")? as u16 },
            "incoming_flood" => Op::IncomingFlood { from: u("from")? as u8, count: u("count")? as u32 },
            "send_burst" => Op::SendBurst { first: (u("first")? as u16).max(NTID as u16), count: u("count")? as u16 },
            "cancel" => Op::Cancel(u("tid")? as u8),
            "cancel_retransmissions" => Op::CancelRetrans(u("tid")? as u8),
            "configure" => Op::Configure { tid: u("tid")? as u8, rto: u("rto")?, n: u("n")? as u32, last: u("last")?, rto_us: u("rto_us").unwrap_or(0) as u16, last_us: u("last_us").unwrap_or(0) as u16 },
            "set_remote" => Op::SetRemote(u("creds")? as u8),
            "set_local" => Op::SetLocal(u("creds")? as u8),
            "send_data" => Op::SendData { dest: u("dest")? as u8, len: u("len")? as u16 },
            "advance" => Op::Advance(u("ms")?),
            "via" => Op::Via { holder: u("holder")? as u8, inner: Box::new(Op::from_json(v.get("inner")?)?) },
            "via_then" => Op::ViaThen { holder: u("holder")? as u8, inner: Box::new(Op::from_json(v.get("inner")?)?), then: Box::new(Op::from_json(v.get("then")?)?) },
            "advance_us" => Op::AdvanceUs(u("us")?),
            "rewind" => Op::Rewind(u("ms")?),
            _ => return None,
        })
    }
}

impl History {
    pub fn to_json(&self) -> Value {
        json!({"kind": "history", "tcp": self.tcp, "remote0": self.remote0, "remote_addr": self.remote_addr, "ops": self.ops.iter().map(|o| o.to_json()).collect::<Vec<_>>()})
    }
    pub fn from_json(v: &Value) -> Option<History> {
        Some(History {
            tcp: v.get("tcp")?.as_bool()?,
            remote0: v.get("remote0").and_then(|x| x.as_u64()).map(|x| x as u8),
            remote_addr: v.get("remote_addr").and_then(|x| x.as_u64()).map(|x| x as u8),
            ops: v.get("ops")?.as_array()?.iter().map(Op::from_json).collect::<Option<Vec<_>>>()?,
        })
    }
}

// ---------------------------------------------------------------------------------------------
// messages

/// An attribute implemented outside the crate whose serialisation is not pure: every time it is
/// written it carries the next value of a counter.  A request carrying it has no predictable bytes,
/// but whatever the agent serialised when the request was handed over is what *every* transmission
/// of that request carries (the message is serialised once).
#[derive(Debug)]
pub struct CountingAttr;
static COUNTING_ATTR: CountingAttr = CountingAttr;
thread_local! {
    static COUNTING_VALUE: std::cell::Cell<u32> = const { std::cell::Cell::new(0) };
}
impl stun_types::attribute::Attribute for CountingAttr {
    fn get_type(&self) -> AttributeType {
        AttributeType::new(0xff7c)
    }
    fn length(&self) -> u16 {
        4
    }
}
impl stun_types::attribute::AttributeWrite for CountingAttr {
    fn write_into_unchecked(&self, dest: &mut [u8]) {
        let v = COUNTING_VALUE.with(|c| {
            c.set(c.get().wrapping_add(1));
            c.get()
        });
        dest[0..4].copy_from_slice(&[0xff, 0x7c, 0, 4]);
        dest[4..8].copy_from_slice(&v.to_be_bytes());
    }
    fn to_raw(&self) -> RawAttribute<'_> {
        let v = COUNTING_VALUE.with(|c| {
            c.set(c.get().wrapping_add(1));
            c.get()
        });
        RawAttribute::new(AttributeType::new(0xff7c), &v.to_be_bytes()).into_owned()
    }
}
/// payload values for which the sent message carries the impure attribute
pub fn impure_payload(payload: u16) -> bool {
    // (not together with the FINGERPRINT the payload % 4 == 3 messages get: the attribute must be the last one)
    payload % 11 == 10 && payload % 4 != 3
}

/// Build the message for a Send op through the crate's builder (the thing under test hands the
/// agent a `MessageBuilder`).  Returns the builder's own serialisation and whether it is sealed.
pub fn build_send<'a>(kind: MsgKind, tid: usize, seal: Sealing, payload: u16) -> (stun_types::message::MessageBuilder<'a>, Vec<u8>, bool) {
    let class = match kind {
        MsgKind::Request => 0,
        MsgKind::Indication => 1,
        MsgKind::Success => 2,
        MsgKind::Error => 3,
    };
    let method = 1 + (payload % 5);
    let mut b = Message::builder(MessageType::from_class_method(super::builder::class_from(class), method), imp::tid_from_bytes(&tid_bytes(tid)));
    // payload: an unknown attribute whose content and length depend on `payload`
    let n = match payload % 7 {
        0 => 0,
        1 => 1,
        2 => 3,
        3 => 8,
        4 => 61,
        5 => 300,
        _ => 1400,
    };
    let mut pv = Vec::with_capacity(n);
    for i in 0..n {
        pv.push((payload as usize * 131 + i * 7) as u8);
    }
    let _ = b.add_raw_attribute(RawAttribute::new(AttributeType::new(0x7f40 + (payload % 3)), &pv).into_owned());
    if payload % 2 == 1 {
        let _ = b.add_raw_attribute(RawAttribute::new(AttributeType::new(0xff41), &[payload as u8, (payload >> 8) as u8]).into_owned());
    }
    // most messages also carry an attribute with a registered type code (STUN, TURN, ICE, NAT
    // behaviour discovery, RFC 7982 ...) of the size that type has on the wire: whatever the
    // application put into its message is what goes out, every time
    if payload % 5 >= 2 {
        const REGISTERED: [(u16, usize); 36] = [
            (0x8025, 4),
            (0x0024, 4),
            (0x0025, 0),
            (0x8029, 8),
            (0x802a, 8),
            (0x0006, 9),
            (0x0014, 13),
            (0x0015, 16),
            (0x8022, 7),
            (0x0019, 4),
            (0x000d, 4),
            (0x0012, 8),
            (0x0012, 20),
            (0x0013, 37),
            (0x000c, 4),
            (0x0017, 4),
            (0x001a, 0),
            (0x0022, 8),
            (0x8000, 4),
            (0xc057, 4),
            (0x0026, 11),
            (0x0027, 4),
            (0x802b, 8),
            (0x802c, 20),
            (0x001d, 4),
            (0x001e, 32),
            (0x8002, 8),
            (0x8003, 11),
            (0x0003, 4),
            (0x002a, 4),
            (0x8004, 8),
            (0x0020, 8),
            (0x0001, 8),
            (0x0009, 8),
            (0x000a, 4),
            (0x8023, 8),
        ];
        let (t, n) = REGISTERED[(payload as usize / 5) % REGISTERED.len()];
        let fill = match payload % 3 {
            0 => 0u8,
            1 => 1,
            _ => payload as u8,
        };
        let _ = b.add_raw_attribute(RawAttribute::new(AttributeType::new(t), &vec![fill; n]).into_owned());
    }
    // now and then twenty more small attributes (beyond any inline capacity of a builder's bookkeeping)
    if payload % 50 == 49 {
        for j in 0..20u16 {
            let _ = b.add_raw_attribute(RawAttribute::new(AttributeType::new(0x7e00 + j), &vec![j as u8; (j % 4) as usize]).into_owned());
        }
    }
    if impure_payload(payload) && seal == Sealing::None {
        let _ = b.add_attribute(&COUNTING_ATTR);
    }
    // rarely: far more attribute bytes than the 16-bit length field can express (the builder accepts
    // them; whatever it serialises is what the agent has to transmit, and a request that was given an
    // integrity attribute is an authenticated request)
    if payload % 200 == 199 {
        let _ = b.add_raw_attribute(RawAttribute::new(AttributeType::new(0x7f50), &vec![0x50u8; 40_000]).into_owned());
        let _ = b.add_raw_attribute(RawAttribute::new(AttributeType::new(0x7f51), &vec![0x51u8; 30_001]).into_owned());
    }
    let lc = imp::to_impl_creds(&creds(3));
    // "the request carried an integrity attribute" is what the calls that add one answered, not what
    // the builder's own bookkeeping (`has_attribute`) says afterwards: the agent may well consult that
    // bookkeeping, the model must not
    let mut sealed = false;
    match seal {
        Sealing::None => {}
        Sealing::Sha1 => {
            sealed |= b.add_message_integrity(&lc, IntegrityAlgorithm::Sha1).is_ok();
        }
        Sealing::Sha256 => {
            sealed |= b.add_message_integrity(&lc, IntegrityAlgorithm::Sha256).is_ok();
        }
        Sealing::Both => {
            sealed |= b.add_message_integrity(&lc, IntegrityAlgorithm::Sha1).is_ok();
            sealed |= b.add_message_integrity(&lc, IntegrityAlgorithm::Sha256).is_ok();
        }
    }
    if payload % 4 == 3 {
        let _ = b.add_fingerprint();
    }
    let bytes = b.build();
    (b, bytes, sealed)
}

/// Response / incoming bytes made with the reference encoder (independent of the builder).
pub fn build_response(tid: u8, error: bool, seal: RespSeal, fp: bool, salt: u16) -> Vec<u8> {
    let t = tid_bytes(tid as usize % NTID);
    let mut tlvs = vec![];
    // messages name addresses of the universe in their attributes (a redirect to an alternate server,
    // the reflexive address, where the response came from): naming an address is not hearing from it
    use crate::refimpl::attrs::{ref_encode, Kind, RefAddr, RefVal};
    let named = |k: usize| RefAddr::from_std(&addr(k % NCORE));
    if error {
        if salt % 5 == 1 {
            // the challenge of the long-term credential mechanism as servers send it: 401 / 438 with REALM
            // and NONCE (and PASSWORD-ALGORITHMS), no USERNAME — signed or not as the operation says; an
            // unsigned one answers a signed request no better than any other unsigned response
            let code: u16 = if (salt / 5) % 2 == 0 { 401 } else { 438 };
            let reason: &[u8] = if code == 401 { b"Unauthorized" } else { b"Stale Nonce" };
            tlvs.push(Tlv::new(0x0009, [&[0u8, 0, (code / 100) as u8, (code % 100) as u8][..], reason].concat()));
            tlvs.push(Tlv::new(0x0014, b"realm.example".to_vec()));
            tlvs.push(Tlv::new(0x0015, format!("obMatJos2AAAB{salt:04x}").into_bytes()));
            if salt % 3 == 0 {
                tlvs.push(Tlv::new(0x8002, vec![0, 1, 0, 0, 0, 2, 0, 0]));
            }
        } else if salt % 3 == 0 {
            // every error code the library names, and RFC 8489's 300, next to an ALTERNATE-SERVER
            const CODES: [u16; 17] = [300, 301, 400, 401, 403, 420, 437, 438, 440, 441, 442, 443, 486, 487, 500, 508, 699];
            let code = CODES[(salt as usize / 3) % CODES.len()];
            tlvs.push(Tlv::new(0x0009, vec![0, 0, (code / 100) as u8, (code % 100) as u8, b't', b'r', b'y']));
            tlvs.push(Tlv::new(0x8023, ref_encode(Kind::AlternateServer, &RefVal::Addr(named(salt as usize / 3 + salt as usize / 51)), &t).unwrap()));
            if salt % 2 == 0 {
                tlvs.push(Tlv::new(0x8003, b"alt.example.org".to_vec()));
            }
        } else {
            tlvs.push(Tlv::new(0x0009, vec![0, 0, 4, (salt % 100) as u8, b'n', b'o']));
        }
    } else {
        if salt % 2 == 1 {
            tlvs.push(Tlv::new(0x0020, ref_encode(Kind::XorMappedAddress, &RefVal::Addr(named(salt as usize / 2)), &t).unwrap()));
            // RESPONSE-ORIGIN / OTHER-ADDRESS (RFC 5780): plain address attributes
            tlvs.push(Tlv::new(0x802b, ref_encode(Kind::AlternateServer, &RefVal::Addr(named(salt as usize / 2 + 1)), &t).unwrap()));
            tlvs.push(Tlv::new(0x802c, ref_encode(Kind::AlternateServer, &RefVal::Addr(named(salt as usize / 2 + 3)), &t).unwrap()));
        } else {
            tlvs.push(Tlv::new(0x0020, vec![0, 1, 0x21 ^ 0x12, 0x12 ^ 0x34, 0x21 ^ 192, 0x12, 0xa4 ^ 2, 0x42 ^ (salt as u8)]));
        }
    }
    let mut b = encode(if error { 3 } else { 2 }, 1, &t, &tlvs);
    match seal {
        RespSeal::Unsigned => {}
        RespSeal::Sha1(c) => crate::refimpl::parse::seal(&mut b, Seal::Sha1, &creds(c as usize).key()),
        RespSeal::Sha256(c, n) => crate::refimpl::parse::seal(&mut b, Seal::Sha256(n as usize), &creds(c as usize).key()),
        RespSeal::Both(c) => {
            crate::refimpl::parse::seal(&mut b, Seal::Sha1, &creds(c as usize).key());
            crate::refimpl::parse::seal(&mut b, Seal::Sha256(32), &creds(c as usize).key());
        }
        RespSeal::CorruptSha1(c) => crate::refimpl::parse::seal(&mut b, Seal::BadSha1, &creds(c as usize).key()),
        RespSeal::CorruptSha256(c) => crate::refimpl::parse::seal(&mut b, Seal::BadSha256(32), &creds(c as usize).key()),
        RespSeal::GoodBad(c) => {
            crate::refimpl::parse::seal(&mut b, Seal::Sha1, &creds(c as usize).key());
            crate::refimpl::parse::seal(&mut b, Seal::BadSha256(32), &creds(c as usize).key());
        }
        RespSeal::BadGood(c) => {
            crate::refimpl::parse::seal(&mut b, Seal::BadSha1, &creds(c as usize).key());
            crate::refimpl::parse::seal(&mut b, Seal::Sha256(32), &creds(c as usize).key());
        }
        RespSeal::OddLen(c, k) => {
            let (ty, n) = ODD_LENS[k as usize % ODD_LENS.len()];
            crate::refimpl::parse::seal(&mut b, Seal::OddLen(ty, n), &creds(c as usize).key());
        }
    }
    if fp {
        crate::refimpl::parse::seal(&mut b, Seal::Fingerprint, &[]);
    }
    b
}

pub fn build_incoming(request: bool, tid: u8, salt: u16) -> Vec<u8> {
    let t = tid_bytes(tid as usize % NTID);
    let mut tlvs = vec![Tlv::new(0x8022, format!("peer{salt}").into_bytes())];
    if salt % 4 == 1 {
        use crate::refimpl::attrs::{ref_encode, Kind, RefAddr, RefVal};
        let a = RefAddr::from_std(&addr(salt as usize / 4 % NCORE));
        tlvs.push(Tlv::new(0x8023, ref_encode(Kind::AlternateServer, &RefVal::Addr(a.clone()), &t).unwrap()));
        tlvs.push(Tlv::new(0x0012, ref_encode(Kind::XorMappedAddress, &RefVal::Addr(a), &t).unwrap()));
    }
    encode(if request { 0 } else { 1 }, 1, &t, &tlvs)
}

// ---------------------------------------------------------------------------------------------
// the reference model (DESIGN.md appendix B)

#[derive(Clone, Debug)]
pub struct Tx {
    pub bytes: Vec<u8>,
    pub to: usize,
    pub had_integrity: bool,
    pub k: usize,
    /// virtual instant of the last hand-out, in MICROseconds from the run's base (iv / fin are ms)
    pub last: u64,
    pub iv: Vec<u64>,
    pub fin: u64,
    pub send_cancelled: bool,
    pub recv_cancelled: bool,
    pub transmissions: u32,
    pub incarnation: u64,
    /// a response with this id was dropped for lack of valid integrity while it was outstanding
    /// (C07: the transaction must go on exactly as if that response had never arrived)
    pub forged_dropped: bool,
}

#[derive(Clone, Copy, Debug, PartialEq, Eq)]
pub enum Action {
    Retransmit,
    TimedOut,
    Cancelled,
    /// retransmissions cancelled: completes (Cancelled or TimedOut), never transmits
    Quiet,
}

impl Tx {
    /// (earliest instant at which it needs service, latest instant by which it must have been
    /// served, what happens)
    pub fn due(&self) -> (u64, u64, Action) {
        if self.recv_cancelled {
            return (0, 0, Action::Cancelled);
        }
        if self.k < self.iv.len() {
            let e = self.last + self.iv[self.k] * 1000;
            if self.send_cancelled {
                // may be reported at its next interval (what the implementation does) or as late
                // as the final timeout had the schedule run on silently
                let l = self.last + (self.iv[self.k..].iter().sum::<u64>() + self.fin) * 1000;
                (e, l, Action::Quiet)
            } else {
                (e, e, Action::Retransmit)
            }
        } else {
            let e = self.last + self.fin * 1000;
            (e, e, Action::TimedOut)
        }
    }
}

#[derive(Clone, Debug, Default)]
pub struct Model {
    pub tcp: bool,
    pub txs: BTreeMap<usize, Tx>,
    pub validated: std::collections::BTreeSet<usize>,
    pub remote: Option<usize>,
    pub next_incarnation: u64,
    pub completions: BTreeMap<u64, String>,
}

pub fn default_schedule(tcp: bool) -> (Vec<u64>, u64) {
    if tcp {
        (vec![], 39_500)
    } else {
        (vec![500, 1000, 2000, 4000, 8000, 16000], 8000)
    }
}

/// the same from microsecond durations: every interval is (rto * 2^i) truncated to whole
/// milliseconds; the TCP total is the exact sum truncated once
pub fn configured_schedule_us(tcp: bool, rto_us: u64, n: u32, last_us: u64) -> (Vec<u64>, u64) {
    let iv_us: Vec<u64> = (0..n).map(|i| rto_us << i).collect();
    if tcp {
        (vec![], (last_us + iv_us.iter().sum::<u64>()) / 1000)
    } else {
        (iv_us.iter().map(|x| x / 1000).collect(), last_us / 1000)
    }
}

pub fn configured_schedule(tcp: bool, rto: u64, n: u32, last: u64) -> (Vec<u64>, u64) {
    let iv: Vec<u64> = (0..n).map(|i| rto << i).collect();
    if tcp {
        (vec![], last + iv.iter().sum::<u64>())
    } else {
        (iv, last)
    }
}

// ---------------------------------------------------------------------------------------------
// execution

#[derive(Clone, Debug, Default)]
pub struct RunCfg {
    /// shift of the base instant in ms
    pub shift_ms: u64,
    /// every Poll op drains: repeat at the same instant until WaitUntil (C20 comparisons)
    pub drain_polls: bool,
    /// create and drive unrelated agents between steps
    pub noise_agents: bool,
    /// arm the clock trap around agent calls
    pub trap_clock: bool,
    /// skip the end-of-history drain
    pub no_final_drain: bool,
    /// record the calls and replies of this run for the offline checker (if an event log is open)
    pub record: bool,
    /// append the observed outstanding / validated sets to the reply log whenever they change
    /// (C20 compares them between runs: they are replies of the agent too)
    pub log_observations: bool,
    /// run every agent call under the harness's tracing subscriber (everything enabled at TRACE, all
    /// fields formatted); replies must not depend on whether anybody listens
    pub with_subscriber: bool,
}

#[derive(Clone, Debug, Default)]
pub struct RunResult {
    /// normalised reply log (instants as offsets from the base)
    pub log: Vec<String>,
    pub clock_reads: u64,
    /// order in which simultaneously-due transactions were served, per drain
    pub orders: Vec<String>,
    pub steps: u64,
    /// property tag of the first failed assertion of this run, if any (whatever the property being checked)
    pub failed_tag: Option<String>,
}

pub fn base_instant() -> Instant {
    use std::sync::OnceLock;
    static B: OnceLock<Instant> = OnceLock::new();
    *B.get_or_init(Instant::now)
}

struct Eng<'c> {
    ctx: &'c mut Ctx,
    h: History,
    cfg: RunCfg,
    agent: StunAgent,
    model: Model,
    base: Instant,
    now: u64,
    last_wait: Option<u64>,
    /// whether the monitor also looks through `mut_request_transaction` after every call
    observe_mut: bool,
    /// ids of responses that were dropped while no transaction with that id was outstanding
    strays: std::collections::BTreeSet<usize>,
    res: RunResult,
    transport: TransportType,
    failed: bool,
    noise: Vec<StunAgent>,
    step: usize,
    /// recorded call/reply events for the offline checker (tools/agentcheck.py)
    rec: Option<Vec<String>>,
    /// address indices >= NCORE that were handed to the agent (observed from then on)
    touched: std::collections::BTreeSet<usize>,
    /// the agent's local address in this run
    local: SocketAddr,
    /// route the next agent calls through the request handle of this transaction index
    via: Option<usize>,
    /// what the handle said about its peer address after the routed call (None = handle's transaction gone)
    via_peer: Option<Option<SocketAddr>>,
    /// what to do on the same handle after the routed call (ViaThen), and whether it was done
    via_then: Option<Op>,
    via_then_done: bool,
    /// transaction-id indices >= NTID in use (observed periodically and at the end)
    touched_tids: std::collections::BTreeSet<usize>,
    observe_count: u64,
    last_obs: String,
    pending_obs: Option<String>,
}

/// offset of `t` from `base` in microseconds
fn us_of(base: Instant, t: Instant) -> i128 {
    if t >= base {
        (t - base).as_micros() as i128
    } else {
        -((base - t).as_micros() as i128)
    }
}

/// a virtual instant (µs) printed in milliseconds, with a fraction only when it has one
pub fn ft(us: i128) -> String {
    if us % 1000 == 0 {
        format!("{}", us / 1000)
    } else {
        format!("{}.{:03}", us.div_euclid(1000), us.rem_euclid(1000))
    }
}

impl<'c> Eng<'c> {
    fn wit(&self) -> Value {
        let mut v = self.h.to_json();
        v["failed_at_step"] = json!(self.step);
        v["shift_ms"] = json!(self.cfg.shift_ms);
        v
    }

    fn fail(&mut self, tag: &str, assertion: &str, entry: &str, feature: &str, expected: String, observed: String) {
        self.failed = true;
        if self.res.failed_tag.is_none() {
            self.res.failed_tag = Some(format!("{tag}|{assertion}|{feature}"));
        }
        let w = self.wit();
        // C07: "it is dropped, the transaction stays outstanding with its retransmission timing
        // unchanged".  While a transaction that had a response dropped for lack of valid integrity
        // is still outstanding in the model, any lifecycle / timing / payload disagreement is
        // (also) a C07 matter: the C07 check reports it under its own id.
        if self.ctx.prop == "C07" && matches!(tag, "C05" | "C06" | "C18") && self.model.txs.values().any(|t| t.forged_dropped) {
            let a = format!("dropped-response-leaves-no-trace/{assertion}");
            self.ctx.violation("C07", &a, entry, feature, || w, expected, observed);
            return;
        }
        // C06: "the transaction times out exactly ... after the final transmission", "polling at t
        // yields an event".  A lifecycle disagreement (the transaction is gone, or its id is free)
        // while the model holds a transaction that is due and has not been served means an event
        // the schedule owes at this instant will never be produced: the C06 check reports it.
        if self.ctx.prop == "C06" && tag == "C05" {
            let now = self.now;
            if let Some((i, tx)) = self.model.txs.iter().find(|(_, t)| t.due().0 <= now) {
                let a = format!("due-event-produced/{assertion}");
                let exp = format!("tid#{i} is due ({:?}) since {} (now {}): {expected}", tx.due().2, ft(tx.due().0 as i128), ft(now as i128));
                self.ctx.violation("C06", &a, entry, feature, || w, exp, observed);
                return;
            }
        }
        // C05: "each request handed to the agent ends in exactly one of ...".  When the agent's
        // timing disagrees with the schedule, the C05 check asks the only question it owns: driven
        // far beyond every deadline, does each outstanding request still complete, exactly once?
        if self.ctx.prop == "C05" && tag == "C06" {
            if let Some((exp, obs)) = self.completion_probe() {
                self.ctx.violation("C05", "completes-exactly-once", "StunAgent::poll", "driven-past-every-deadline", || w, exp, obs);
                return;
            }
        }
        self.ctx.violation(tag, assertion, entry, feature, || w, expected, observed);
    }

    /// Poll the agent far beyond every deadline until it reports nothing more: every transaction
    /// that is outstanding in the model must be reported timed out or cancelled exactly once and be
    /// gone afterwards.  Returns (expected, observed) on a disagreement.
    fn completion_probe(&mut self) -> Option<(String, String)> {
        let want: Vec<usize> = self.model.txs.keys().copied().collect();
        if want.is_empty() {
            return None;
        }
        let mut far = self.at(self.now) + Duration::from_secs(400_000);
        let mut done: BTreeMap<usize, u32> = BTreeMap::new();
        let agent = &mut self.agent;
        let r = guard(|| {
            let mut evs: Vec<[u8; 12]> = vec![];
            for _ in 0..(want.len() * 24 + 128) {
                match agent.poll(far) {
                    // a retransmission handed out at `far` restarts that transaction's interval: follow
                    // the instants the agent itself announces until nothing is outstanding any more
                    StunAgentPollRet::WaitUntil(w) => {
                        if want.iter().all(|i| agent.request_transaction(imp::tid_from_bytes(&tid_bytes(*i))).is_none()) {
                            break;
                        }
                        far = if w > far { w } else { far + Duration::from_secs(3600) };
                    }
                    StunAgentPollRet::SendData(_) => {}
                    StunAgentPollRet::TransactionTimedOut(id) | StunAgentPollRet::TransactionCancelled(id) => evs.push(imp::tid_to_bytes(id)),
                }
            }
            let still: Vec<bool> = want.iter().map(|i| agent.request_transaction(imp::tid_from_bytes(&tid_bytes(*i))).is_some()).collect();
            (evs, still)
        });
        let Ok((evs, still)) = r else { return None };
        for t in evs {
            if let Some(i) = tid_index(&t) {
                *done.entry(i).or_default() += 1;
            }
        }
        let bad: Vec<String> = want
            .iter()
            .zip(still.iter())
            .filter(|(i, st)| **st || done.get(*i).copied().unwrap_or(0) != 1)
            .map(|(i, st)| format!("tid#{i}: {} completion events, still outstanding = {st}", done.get(i).copied().unwrap_or(0)))
            .collect();
        if bad.is_empty() {
            None
        } else {
            self.ctx.count("completion-probes-failed");
            Some((format!("each of the {} outstanding requests reported timed out / cancelled exactly once when polled 400000 s later, and gone afterwards", want.len()), bad.join("; ")))
        }
    }

    /// log the latest observation if it differs from the last one logged (called where the state
    /// does not depend on the order in which simultaneously due transactions were served)
    fn flush_obs(&mut self) {
        if let Some(o) = self.pending_obs.take() {
            if o != self.last_obs {
                self.res.log.push(o.clone());
                self.last_obs = o;
            }
        }
    }

    /// an address outside the core universe was handed to the agent: observe it from now on
    fn touch(&mut self, i: usize) {
        let i = i % NADDR;
        if i >= NCORE {
            self.touched.insert(i);
        }
    }

    #[inline]
    fn rec(&mut self, f: impl FnOnce() -> Value) {
        if let Some(r) = &mut self.rec {
            let mut v = f();
            v["k"] = json!("agent");
            r.push(v.to_string());
        }
    }

    fn at(&self, us: u64) -> Instant {
        self.base + Duration::from_micros(us)
    }

    fn call<T>(&mut self, f: impl FnOnce(&mut StunAgent) -> T) -> Option<T> {
        // one agent call (and the bookkeeping up to the next one) is what the watchdog measures
        self.ctx.wd.tick();
        let trap = self.cfg.trap_clock;
        let sub = self.cfg.with_subscriber;
        let agent = &mut self.agent;
        let via = self.via;
        let mut via_peer: Option<Option<SocketAddr>> = None;
        let via_peer_ref = &mut via_peer;
        let then = self.via_then.take();
        let mut then_done = false;
        let then_done_ref = &mut then_done;
        let f = move |a: &mut StunAgent| {
            // optionally through a request handle's mut_agent()
            if let Some(h) = via {
                let id = imp::tid_from_bytes(&tid_bytes(h));
                if a.request_transaction(id).is_some() {
                    let mut handle = a.mut_request_transaction(id).expect("outstanding");
                    let r = f(handle.mut_agent());
                    let alive = handle.agent().request_transaction(id).is_some();
                    *via_peer_ref = Some(if alive { Some(handle.peer_address()) } else { None });
                    if alive {
                        match &then {
                            Some(Op::Cancel(_)) => {
                                handle.cancel();
                                *then_done_ref = true;
                            }
                            Some(Op::CancelRetrans(_)) => {
                                handle.cancel_retransmissions();
                                *then_done_ref = true;
                            }
                            Some(Op::Configure { rto, n, last, rto_us, last_us, .. }) => {
                                handle.configure_timeout(Duration::from_micros(rto * 1000 + (*rto_us % 1000) as u64), *n, Duration::from_micros(last * 1000 + (*last_us % 1000) as u64));
                                *then_done_ref = true;
                            }
                            _ => {}
                        }
                    }
                    return r;
                }
            }
            f(a)
        };
        let r = guard(|| {
            let run = || if trap { clock::trapped(|| f(agent)) } else { (f(agent), 0) };
            if sub {
                let e0 = crate::trace_sub::events() + crate::trace_sub::spans();
                let r = crate::trace_sub::with_subscriber(run);
                TRACE_SEEN.with(|c| c.set(c.get() + crate::trace_sub::events() + crate::trace_sub::spans() - e0));
                r
            } else {
                run()
            }
        });
        if via_peer.is_some() {
            self.via_peer = via_peer;
        }
        if then_done {
            self.via_then_done = true;
        }
        match r {
            Ok((v, reads)) => {
                self.res.clock_reads += reads;
                if reads > 0 {
                    self.fail("C20", "no-clock-read", "StunAgent", "", "0 clock / environment reads during an agent call".into(), format!("{reads} reads at step {}", self.step));
                }
                Some(v)
            }
            Err(p) => {
                self.fail(&self.ctx.prop.clone(), "no-panic", "StunAgent", "", "a reply".into(), format!("panic: {} at {}", p.msg, p.loc));
                None
            }
        }
    }

    fn noise_step(&mut self) {
        if !self.cfg.noise_agents {
            return;
        }
        // unrelated agents: bump the global counter, occupy other (and the same) transaction ids
        let mut a = StunAgent::builder(self.transport, "10.9.9.9:1".parse().unwrap()).build();
        let (b, _, _) = build_send(MsgKind::Request, self.step % NTID, Sealing::None, (self.step % 10) as u16);
        let t = Instant::now();
        let _ = a.send(b, addr(self.step), t);
        let _ = a.poll(t + Duration::from_millis(700));
        if self.noise.len() < 4 {
            self.noise.push(a);
        } else {
            let i = self.step % 4;
            let _ = self.noise[i].poll(t + Duration::from_secs(50));
            self.noise[i] = a;
        }
    }

    /// observation after every call: outstanding-ness, peer address, validated peers
    fn observe(&mut self) {
        self.observe_count += 1;
        // the ids of the many-transactions shape are observed every 32nd time (and at the end): a
        // thousand lookups after each of ten thousand polls would dominate the run
        let all_tids = self.touched_tids.len() <= 64 || self.observe_count % 32 == 0 || self.step >= self.h.ops.len();
        let tid_watch: Vec<usize> = if all_tids { (0..NTID).chain(self.touched_tids.iter().copied()).collect() } else { (0..NTID).collect() };
        if self.rec.is_some() {
            let mut out = vec![];
            for i in (0..NTID).chain(self.touched_tids.iter().copied()) {
                let tid = imp::tid_from_bytes(&tid_bytes(i));
                if let Some(r) = self.agent.request_transaction(tid) {
                    out.push(json!([hex(&tid_bytes(i)), r.peer_address().to_string()]));
                }
            }
            let mut val = vec![];
            let universe: Vec<SocketAddr> = (0..NCORE).chain(self.touched.iter().copied()).map(addr).chain(["203.0.113.9:9".parse().unwrap(), self.local]).collect();
            for a in universe {
                if self.agent.is_validated_peer(a) {
                    val.push(a.to_string());
                }
            }
            self.rec(|| json!({"op": "observe", "outstanding": out, "validated": val}));
        }
        for i in tid_watch {
            let tid = imp::tid_from_bytes(&tid_bytes(i));
            let got = self.agent.request_transaction(tid).map(|r| r.peer_address());
            let want = self.model.txs.get(&i).map(|t| addr(t.to));
            if got.is_some() != want.is_some() {
                self.fail(
                    "C05",
                    "outstanding-agrees",
                    "StunAgent::request_transaction",
                    if want.is_some() { "model-outstanding" } else { "model-finished" },
                    format!("tid#{i} outstanding = {}", want.is_some()),
                    format!("request_transaction(..).is_some() = {}", got.is_some()),
                );
                return;
            }
            if got != want {
                self.fail("C18", "peer-address", "StunRequest::peer_address", "", format!("{want:?}"), format!("{got:?}"));
                return;
            }
            // (asking for a mutable handle is itself a call an implementation may react to, e.g. by
            // dropping cached state: the monitor only does so in every other history, so that what it
            // observes between two calls of the workload does not depend on the monitor having looked)
            if !self.observe_mut {
                continue;
            }
            let gotm = self.agent.mut_request_transaction(tid).map(|r| r.peer_address());
            if gotm != want {
                self.fail("C18", "peer-address", "StunRequestMut::peer_address", "", format!("{want:?}"), format!("{gotm:?}"));
                return;
            }
        }
        let watch: Vec<usize> = (0..NCORE).chain(self.touched.iter().copied()).collect();
        if self.cfg.log_observations {
            let mut o = String::from("obs outstanding=");
            for i in 0..NTID {
                if self.agent.request_transaction(imp::tid_from_bytes(&tid_bytes(i))).is_some() {
                    o.push_str(&format!("{i},"));
                }
            }
            o.push_str(" validated=");
            for a in &watch {
                if self.agent.is_validated_peer(addr(*a)) {
                    o.push_str(&format!("{a},"));
                }
            }
            // not logged here: between two events of one instant the sets depend on the (free)
            // service order; flush_obs() logs the latest observation at order-independent points
            self.pending_obs = Some(o);
        }
        for a in watch {
            let got = self.agent.is_validated_peer(addr(a));
            if got != self.model.validated.contains(&a) {
                self.fail(
                    "C15",
                    "validated-peers",
                    "StunAgent::is_validated_peer",
                    if got { "validated-without-accepted-message" } else { "validation-lost-or-missing" },
                    format!("{} = {}", addr(a), self.model.validated.contains(&a)),
                    format!("{got}"),
                );
                return;
            }
        }
        // an address never handed to the agent is never validated
        // (the agent's own address counts as such unless a message was accepted from that very address)
        let local_heard = self.model.validated.iter().any(|i| addr(*i) == self.local);
        if self.agent.is_validated_peer("203.0.113.9:9".parse().unwrap()) || (!local_heard && self.agent.is_validated_peer(self.local)) {
            self.fail("C15", "validated-peers", "StunAgent::is_validated_peer", "unrelated-address", "false".into(), "true".into());
        }
    }

    fn check_transmit(&mut self, what: &str, data: &[u8], from: SocketAddr, to: SocketAddr, transport: TransportType, want_bytes: &[u8], want_to: usize) {
        if data != want_bytes {
            let first = data.iter().zip(want_bytes.iter()).position(|(a, b)| a != b);
            self.fail(
                "C18",
                "transmit-bytes",
                what,
                "",
                format!("{} bytes {}", want_bytes.len(), hex(&want_bytes[..want_bytes.len().min(48)])),
                format!("{} bytes {} (first difference at {first:?})", data.len(), hex(&data[..data.len().min(48)])),
            );
        } else if from != self.local || to != addr(want_to) || transport != self.transport {
            self.fail(
                "C18",
                "transmit-addressing",
                what,
                "",
                format!("{} -> {} over {}", self.local, addr(want_to), self.transport),
                format!("{from} -> {to} over {transport}"),
            );
        }
    }

    /// one poll at `self.now`; returns true if an event (not WaitUntil) was produced
    fn poll_once(&mut self) -> Option<bool> {
        let now = self.now;
        let t = self.at(now);
        let base = self.base;
        enum R {
            Wait(i128),
            Send(Vec<u8>, SocketAddr, SocketAddr, TransportType),
            TimedOut([u8; 12]),
            Cancelled([u8; 12]),
        }
        let r = self.call(|a| match a.poll(t) {
            StunAgentPollRet::WaitUntil(w) => R::Wait(us_of(base, w)),
            StunAgentPollRet::SendData(tr) => R::Send(tr.data().to_vec(), tr.from, tr.to, tr.transport),
            StunAgentPollRet::TransactionTimedOut(id) => R::TimedOut(imp::tid_to_bytes(id)),
            StunAgentPollRet::TransactionCancelled(id) => R::Cancelled(imp::tid_to_bytes(id)),
        })?;
        self.res.steps += 1;
        if self.rec.is_some() {
            let ev = match &r {
                R::Wait(w) => json!({"op": "poll", "t": now, "res": "wait", "until": w}),
                R::Send(d, f, t2, tr) => json!({"op": "poll", "t": now, "res": "send", "tx": {"data": hex(d), "from": f.to_string(), "to": t2.to_string(), "transport": tr.to_string()}}),
                R::TimedOut(t) => json!({"op": "poll", "t": now, "res": "timeout", "tid": hex(t)}),
                R::Cancelled(t) => json!({"op": "poll", "t": now, "res": "cancelled", "tid": hex(t)}),
            };
            self.rec(|| ev);
        }
        // what the model admits
        let mut must: Vec<(usize, Action)> = vec![];
        let mut may: Vec<usize> = vec![];
        let mut min_early: Option<u64> = None;
        let mut min_late: Option<u64> = None;
        for (i, tx) in &self.model.txs {
            let (e, l, act) = tx.due();
            if l <= now {
                must.push((*i, act));
            } else if e <= now {
                may.push(*i);
            }
            min_early = Some(min_early.map_or(e, |m: u64| m.min(e)));
            min_late = Some(min_late.map_or(l, |m: u64| m.min(l)));
        }
        let find_tid = |t: &[u8; 12]| tid_index(t);
        match r {
            R::Wait(w) => {
                self.res.log.push(format!("poll@{} -> WaitUntil({})", ft(now as i128), ft(w)));
                if !must.is_empty() {
                    let (i, act) = must[0];
                    let tx = &self.model.txs[&i];
                    self.fail(
                        "C06",
                        "due-event-produced",
                        "StunAgent::poll",
                        &format!("{act:?}-missed"),
                        format!("an event: tid#{i} is due ({act:?}) at {} <= now {} (k={}, last={}, iv={:?}, fin={})", ft(tx.due().1 as i128), ft(now as i128), tx.k, ft(tx.last as i128), tx.iv, tx.fin),
                        format!("WaitUntil({w})"),
                    );
                    return None;
                }
                if !self.model.txs.is_empty() {
                    let (lo, hi) = (min_early.unwrap(), min_late.unwrap());
                    // with no cancelled-retransmission transaction lo == hi == the earliest due instant
                    let lo = lo.max(now + 1).min(hi);
                    if w < lo as i128 || w > hi as i128 {
                        let feature = if hi > now + 3_600_000_000 && w == (now + 3_600_000_000) as i128 {
                            "min-due>now+3600s".to_string()
                        } else if w > hi as i128 {
                            "later-than-earliest-due".to_string()
                        } else {
                            "earlier-than-earliest-due".to_string()
                        };
                        self.fail(
                            "C06",
                            "waituntil-min",
                            "StunAgent::poll",
                            &feature,
                            if lo == hi { format!("WaitUntil({}) = the earliest due instant over {} outstanding", ft(hi as i128), self.model.txs.len()) } else { format!("WaitUntil(t) with {} <= t <= {}", ft(lo as i128), ft(hi as i128)) },
                            format!("WaitUntil({}) at now = {}", ft(w), ft(now as i128)),
                        );
                        return None;
                    }
                    // model-free self-consistency
                    if let Some(prev) = self.last_wait {
                        if now < prev && w != prev as i128 {
                            self.fail("C06", "waituntil-stable", "StunAgent::poll", "", format!("WaitUntil({}) again (polled early at {})", ft(prev as i128), ft(now as i128)), format!("WaitUntil({})", ft(w)));
                            return None;
                        }
                        if now >= prev {
                            self.fail("C06", "waituntil-then-event", "StunAgent::poll", "", format!("an event when polled at/after the announced instant {}", ft(prev as i128)), format!("WaitUntil({}) at {}", ft(w), ft(now as i128)));
                            return None;
                        }
                    }
                    self.last_wait = Some(w as u64);
                } else {
                    self.last_wait = None;
                }
                Some(false)
            }
            R::Send(data, from, to, transport) => {
                self.res.log.push(format!("poll@{} -> SendData({} bytes {:08x} to {to})", ft(now as i128), data.len(), crate::refimpl::crypto::crc32_fast(&data)));
                self.last_wait = None;
                // which transaction?  identify by transaction id inside the bytes
                let tidb: Option<[u8; 12]> = if data.len() >= 20 { Some(data[8..20].try_into().unwrap()) } else { None };
                let idx = tidb.and_then(|t| find_tid(&t));
                let Some(i) = idx.filter(|i| self.model.txs.contains_key(i)) else {
                    // The bytes do not name an outstanding transaction.  If a retransmission is due
                    // right now this is that retransmission with a damaged payload (C18: "carries
                    // byte-for-byte the serialisation of the message handed to send"); otherwise it
                    // is a transmission nobody asked for (C05).
                    let due: Vec<usize> = self
                        .model
                        .txs
                        .iter()
                        .filter(|(_, t)| {
                            let (e, _l, a) = t.due();
                            a == Action::Retransmit && e <= now
                        })
                        .map(|(i, _)| *i)
                        .collect();
                    if !due.is_empty() {
                        self.fail(
                            "C18",
                            "transmit-payload",
                            "StunAgent::poll",
                            "retransmission-not-the-request",
                            format!("the unmodified request of one of the transactions due for retransmission ({due:?})"),
                            format!("SendData({} bytes {} to {to})", data.len(), hex(&data[..data.len().min(24)])),
                        );
                        return None;
                    }
                    self.fail("C05", "no-ghost-transmission", "StunAgent::poll", "", "no transmission for a transaction that is not outstanding".into(), format!("SendData({} bytes, tid {:?})", data.len(), tidb.map(|t| hex(&t))));
                    return None;
                };
                let tx = self.model.txs[&i].clone();
                let (e, _l, act) = tx.due();
                if act != Action::Retransmit {
                    let feature = match act {
                        Action::Quiet => "after-cancel_retransmissions",
                        Action::Cancelled => "after-cancel",
                        _ => "beyond-configured-retransmits",
                    };
                    self.fail(
                        if act == Action::Cancelled { "C05" } else { "C06" },
                        "no-transmission-when-not-scheduled",
                        "StunAgent::poll",
                        feature,
                        format!("no transmission for tid#{i} (k={} of {} retransmissions, send_cancelled={}, recv_cancelled={})", tx.k, tx.iv.len(), tx.send_cancelled, tx.recv_cancelled),
                        format!("SendData at {now}"),
                    );
                    return None;
                }
                if e > now {
                    self.fail(
                        "C06",
                        "retransmit-not-early",
                        "StunAgent::poll",
                        "",
                        format!("retransmission #{} of tid#{i} due at {} = {} + {}", tx.k + 1, ft(e as i128), ft(tx.last as i128), tx.iv[tx.k]),
                        format!("SendData at {now}"),
                    );
                    return None;
                }
                self.check_transmit("StunAgent::poll", &data, from, to, transport, &tx.bytes, tx.to);
                let m = self.model.txs.get_mut(&i).unwrap();
                m.k += 1;
                m.last = now;
                m.transmissions += 1;
                self.ctx.count("retransmissions-checked");
                self.res.orders.push(format!("S{i}"));
                Some(true)
            }
            R::TimedOut(t) => self.completion(&t, false, &must, &may, now),
            R::Cancelled(t) => self.completion(&t, true, &must, &may, now),
        }
    }

    fn completion(&mut self, t: &[u8; 12], cancelled: bool, must: &[(usize, Action)], may: &[usize], now: u64) -> Option<bool> {
        let name = if cancelled { "TransactionCancelled" } else { "TransactionTimedOut" };
        let idx = tid_index(t);
        self.res.log.push(format!("poll@{} -> {name}({})", ft(now as i128), hex(t)));
        self.last_wait = None;
        let Some(i) = idx.filter(|i| self.model.txs.contains_key(i)) else {
            self.fail(
                "C05",
                "completes-exactly-once",
                "StunAgent::poll",
                "completion-for-finished-or-unknown-transaction",
                "no completion event for a transaction that is not outstanding".into(),
                format!("{name}({})", hex(t)),
            );
            return None;
        };
        let tx = self.model.txs[&i].clone();
        let (e, _l, act) = tx.due();
        let admitted = match act {
            Action::Cancelled => cancelled,
            Action::TimedOut => !cancelled && e <= now,
            Action::Quiet => e <= now, // either kind
            Action::Retransmit => false,
        };
        let _ = (must, may);
        if !admitted {
            let (tag, assertion, feature) = match act {
                Action::Retransmit if !cancelled => ("C06", "timeout-not-early", if e > now { "before-any-interval" } else { "retransmissions-remaining" }),
                Action::TimedOut if !cancelled => ("C06", "timeout-not-early", "before-final-timeout"),
                Action::Quiet => ("C06", "timeout-not-early", "cancelled-retransmissions-before-next-interval"),
                _ if cancelled => ("C05", "cancelled-only-when-cancelled", "never-cancelled"),
                _ => ("C05", "completion-kind", "cancelled-reported-as-timeout"),
            };
            self.fail(
                tag,
                assertion,
                "StunAgent::poll",
                feature,
                format!("tid#{i}: {act:?} due at {} (k={} of {}, last={}, fin={}, send_cancelled={}, recv_cancelled={})", ft(e as i128), tx.k, tx.iv.len(), ft(tx.last as i128), tx.fin, tx.send_cancelled, tx.recv_cancelled),
                format!("{name} at {}", ft(now as i128)),
            );
            return None;
        }
        if !cancelled && act == Action::TimedOut {
            // the number of retransmissions that happened is the configured one
            self.ctx.count("timeouts-checked");
            if tx.k > tx.iv.len().max(tx.k.min(tx.iv.len())) {
                // (k can exceed a schedule that was reconfigured to fewer retransmissions: fine)
            }
        }
        self.model.txs.remove(&i);
        self.model.completions.insert(tx.incarnation, name.to_string());
        self.ctx.count(if cancelled { "completed-cancelled" } else { "completed-timed-out" });
        self.res.orders.push(format!("{}{i}", if cancelled { "C" } else { "T" }));
        Some(true)
    }

    fn do_send(&mut self, kind: MsgKind, tid: usize, dest: u8, seal: Sealing, payload: u16) {
        self.touch(dest as usize);
        let (b, bytes, sealed) = build_send(kind, tid, seal, payload);
        let now = self.now;
        let t = self.at(now);
        let to = addr(dest as usize);
        enum R {
            Ok(Vec<u8>, SocketAddr, SocketAddr, TransportType),
            InProgress,
            Err(String),
        }
        let Some(r) = self.call(|a| match a.send(b, to, t) {
            Ok(tr) => R::Ok(tr.data().to_vec(), tr.from, tr.to, tr.transport),
            Err(StunError::AlreadyInProgress) => R::InProgress,
            Err(e) => R::Err(format!("{e:?}")),
        }) else {
            return;
        };
        self.last_wait = None;
        // a message with the impure attribute: the serialisation the agent made is the reference from
        // here on (it must still be this message: same length, same header, same other attributes)
        let impure = impure_payload(payload) && seal == Sealing::None;
        let bytes = match (&r, impure) {
            (R::Ok(d, ..), true) => {
                let same_shape = d.len() == bytes.len() && d.len() >= 8 && d[..d.len() - 4] == bytes[..bytes.len() - 4];
                if !same_shape {
                    self.fail("C18", "transmit-bytes", "StunAgent::send", "impure-attribute", format!("{} bytes equal to the message except the counter value", bytes.len()), format!("{} bytes {}", d.len(), hex(&d[..d.len().min(48)])));
                    return;
                }
                self.ctx.count("requests-with-an-impure-attribute");
                d.clone()
            }
            _ => bytes,
        };
        let i = tid;
        if i >= NTID {
            self.touched_tids.insert(i);
        }
        let is_req = kind == MsgKind::Request;
        let outstanding = self.model.txs.contains_key(&i);
        if self.rec.is_some() {
            let ev = match &r {
                R::Ok(d, f, t2, tr) => json!({"op": "send", "t": now, "bytes": hex(&bytes), "to": to.to_string(), "res": "ok", "tx": {"data": hex(d), "from": f.to_string(), "to": t2.to_string(), "transport": tr.to_string()}}),
                R::InProgress => json!({"op": "send", "t": now, "bytes": hex(&bytes), "to": to.to_string(), "res": "inprogress"}),
                R::Err(e) => json!({"op": "send", "t": now, "bytes": hex(&bytes), "to": to.to_string(), "res": e}),
            };
            self.rec(|| ev);
        }
        match r {
            R::Ok(data, from, to2, transport) => {
                self.res.log.push(format!("send@{} {kind:?} tid#{i} -> Transmit({} bytes {:08x} to {to2})", ft(now as i128), data.len(), crate::refimpl::crypto::crc32_fast(&data)));
                if is_req && outstanding {
                    // the transmission that came back instead of the refusal: if it does not even carry
                    // this message to this destination it is (also) a C18 matter
                    if self.ctx.prop == "C18" && (to2 != addr(dest as usize) || data != bytes || from != self.local) {
                        self.fail(
                            "C18",
                            "transmit-addressing",
                            "StunAgent::send",
                            "id-of-an-outstanding-request",
                            format!("Err(AlreadyInProgress), or at the very least this message to {}", addr(dest as usize)),
                            format!("Transmit({} bytes, {from} -> {to2})", data.len()),
                        );
                        return;
                    }
                    self.fail("C05", "duplicate-id-refused", "StunAgent::send", "", "Err(AlreadyInProgress)".into(), "Ok(Transmit)".into());
                    return;
                }
                self.check_transmit("StunAgent::send", &data, from, to2, transport, &bytes, dest as usize);
                if is_req {
                    let (iv, fin) = default_schedule(self.model.tcp);
                    let inc = self.model.next_incarnation;
                    self.model.next_incarnation += 1;
                    self.model.txs.insert(
                        i,
                        Tx { bytes, to: dest as usize, had_integrity: sealed, k: 0, last: now, iv, fin, send_cancelled: false, recv_cancelled: false, transmissions: 1, incarnation: inc, forged_dropped: false },
                    );
                    self.ctx.count("requests-started");
                } else {
                    self.ctx.count("non-requests-sent");
                }
            }
            R::InProgress => {
                self.res.log.push(format!("send@{} {kind:?} tid#{i} -> AlreadyInProgress", ft(now as i128)));
                if !(is_req && outstanding) {
                    // a refused request with a free id is a C05 matter (ids are reusable); a refused
                    // indication / response is a C18 one ("transmitted once, unmodified")
                    self.fail(
                        if is_req { "C05" } else { "C18" },
                        if is_req { "finished-id-reusable" } else { "non-request-transmitted" },
                        "StunAgent::send",
                        if is_req { "" } else if outstanding { "id-of-an-outstanding-request" } else { "free-id" },
                        "Ok(Transmit)".into(),
                        "Err(AlreadyInProgress)".into(),
                    );
                    return;
                }
                self.ctx.count("duplicate-id-refused");
            }
            R::Err(e) => {
                self.res.log.push(format!("send@{} {kind:?} tid#{i} -> Err({e})", ft(now as i128)));
                self.fail("C05", "send-result", "StunAgent::send", "", if is_req && outstanding { "Err(AlreadyInProgress)".into() } else { "Ok(Transmit)".into() }, format!("Err({e})"));
            }
        }
    }

    fn do_handle(&mut self, bytes: Vec<u8>, from: usize, is_response: bool, tid: u8) {
        self.touch(from);
        let now = self.now;
        let from_a = addr(from);
        let rp = ref_parse(&bytes);
        enum R {
            Drop,
            Response([u8; 12], u8),
            Incoming([u8; 12], u8),
            ParseFailed(String),
        }
        let class_num = |m: &Message| match m.class() {
            stun_types::message::MessageClass::Request => 0u8,
            stun_types::message::MessageClass::Indication => 1,
            stun_types::message::MessageClass::Success => 2,
            stun_types::message::MessageClass::Error => 3,
        };
        let Some(r) = self.call(|a| match Message::from_bytes(&bytes) {
            Err(e) => R::ParseFailed(format!("{e:?}")),
            Ok(m) => match a.handle_stun(m, from_a) {
                HandleStunReply::Drop => R::Drop,
                HandleStunReply::StunResponse(m) => R::Response(imp::tid_to_bytes(m.transaction_id()), class_num(&m)),
                HandleStunReply::IncomingStun(m) => R::Incoming(imp::tid_to_bytes(m.transaction_id()), class_num(&m)),
            },
        }) else {
            return;
        };
        if self.rec.is_some() {
            let ev = match &r {
                R::Drop => json!({"op": "handle", "t": now, "buf": hex(&bytes), "from": from_a.to_string(), "res": "drop"}),
                R::Response(t, c) => json!({"op": "handle", "t": now, "buf": hex(&bytes), "from": from_a.to_string(), "res": "response", "rtid": hex(t), "rclass": c}),
                R::Incoming(t, c) => json!({"op": "handle", "t": now, "buf": hex(&bytes), "from": from_a.to_string(), "res": "incoming", "rtid": hex(t), "rclass": c}),
                R::ParseFailed(_) => Value::Null,
            };
            if !ev.is_null() {
                self.rec(|| ev);
            }
        }
        let i = tid as usize % NTID;
        let rname = match &r {
            R::Drop => "Drop".to_string(),
            R::Response(..) => "StunResponse".to_string(),
            R::Incoming(..) => "IncomingStun".to_string(),
            R::ParseFailed(e) => format!("parse failed: {e}"),
        };
        self.res.log.push(format!("handle@{} {} tid#{i} from#{from} -> {rname}", ft(now as i128), if is_response { "response" } else { "request/indication" }));
        if let R::ParseFailed(e) = &r {
            // the harness only hands well-formed messages to the agent
            if rp.accepted() {
                self.fail("C02", "accept-iff", "Message::from_bytes", "agent-input", "Ok".into(), format!("Err({e})"));
            }
            return;
        }
        if !is_response {
            match r {
                R::Incoming(t, c) if t == tid_bytes(i) && c == rp.class => {
                    self.model.validated.insert(from % NADDR);
                    self.ctx.count("incoming-accepted");
                }
                // a request / indication answered as if it were a response: if a transaction with its
                // id is outstanding, that transaction has just been consumed by something that is not
                // its response (C05: it ends only by its response, a time-out or a cancellation)
                R::Response(..) if self.model.txs.contains_key(&i) => self.fail(
                    "C05",
                    "response-only-for-responses",
                    "StunAgent::handle_stun",
                    "request-or-indication-with-an-outstanding-id",
                    "IncomingStun(the same message); the outstanding transaction with this id untouched".into(),
                    rname,
                ),
                _ => self.fail("C15", "incoming-handed-back", "StunAgent::handle_stun", "", "IncomingStun(the same message)".into(), rname),
            }
            return;
        }
        self.last_wait = None;
        let Some(tx) = self.model.txs.get(&i).cloned() else {
            if !matches!(r, R::Drop) {
                self.fail(
                    "C05",
                    "response-only-for-outstanding",
                    "StunAgent::handle_stun",
                    "unknown-or-finished-transaction",
                    "Drop (no outstanding transaction with this id)".into(),
                    rname,
                );
            } else {
                self.ctx.count("response-dropped-unknown-tid");
                self.strays.insert(i);
            }
            return;
        };
        // delivery decision by the independent validator
        let (must_deliver, must_drop, why) = if !tx.had_integrity {
            (true, false, "request carried no integrity attribute".to_string())
        } else {
            match self.model.remote {
                None => (false, true, "request was sealed and no remote credentials are configured".to_string()),
                Some(c) => {
                    let ri = ref_integrity(&bytes, &rp.attrs, &creds(c));
                    let last_ok = last_exposed_integrity(&rp.attrs).and_then(|li| ri.correct_at(li));
                    if ri.all_correct() {
                        (true, false, format!("every integrity attribute validates under remote credentials #{c}"))
                    } else if ri.none_correct() {
                        (false, true, format!("no integrity attribute validates under remote credentials #{c} ({:?})", ri.attrs))
                    } else if last_ok != Some(true) {
                        // the authoritative (last exposed) integrity attribute is wrong: same as a tampered HMAC
                        (false, true, format!("the last exposed integrity attribute does not validate under remote credentials #{c} ({:?})", ri.attrs))
                    } else {
                        (false, false, "integrity attributes partly valid".to_string())
                    }
                }
            }
        };
        let delivered = matches!(r, R::Response(..));
        if tx.recv_cancelled {
            // between cancel() and the poll that reports it: either reply is admitted
        } else if delivered && must_drop {
            self.fail(
                "C07",
                "unauthenticated-response-dropped",
                "StunAgent::handle_stun",
                if self.model.remote.is_none() { "no-remote-credentials" } else { "integrity-invalid" },
                format!("Drop: {why}"),
                "StunResponse".into(),
            );
            return;
        } else if !delivered && must_deliver {
            // C05: "messages for unknown transaction ids change nothing ... an id becomes reusable": a
            // response with this id was dropped earlier, while no such transaction was outstanding;
            // that must not be why the response of the transaction that now uses the id is dropped
            if self.ctx.prop == "C05" && self.strays.contains(&i) {
                self.fail("C05", "unknown-id-message-changes-nothing", "StunAgent::handle_stun", "response-dropped-after-a-stray-one-with-its-id", format!("StunResponse: {why}"), rname);
                return;
            }
            // C15: "dropped messages ... never validate": whatever made the agent drop this response,
            // its sender must not have become a validated peer by it
            if self.ctx.prop == "C15" && !self.model.validated.contains(&(from % NADDR)) && self.agent.is_validated_peer(from_a) {
                self.fail("C15", "validated-peers", "StunAgent::handle_stun", "dropped-response-validated-its-sender", format!("is_validated_peer({from_a}) = false after a Drop"), "true".into());
                return;
            }
            self.fail(
                "C07",
                "authentic-response-delivered",
                "StunAgent::handle_stun",
                if tx.had_integrity { "sealed-request" } else { "unsealed-request" },
                format!("StunResponse: {why}"),
                rname,
            );
            return;
        }
        match r {
            R::Response(t, c) => {
                if t != tid_bytes(i) || c != rp.class {
                    self.fail("C05", "response-is-the-message", "StunAgent::handle_stun", "", format!("tid#{i} class {}", rp.class), format!("tid {} class {c}", hex(&t)));
                    return;
                }
                self.model.txs.remove(&i);
                self.model.completions.insert(tx.incarnation, "Delivered".into());
                self.model.validated.insert(from % NADDR);
                self.ctx.count("completed-delivered");
                self.ctx.count(if tx.had_integrity { "delivered-authenticated" } else { "delivered-unauthenticated" });
            }
            R::Drop => {
                self.ctx.count("response-dropped-outstanding");
                if must_drop && !tx.recv_cancelled {
                    if let Some(m) = self.model.txs.get_mut(&i) {
                        m.forged_dropped = true;
                    }
                    self.ctx.count("forged-response-dropped-then-monitored");
                }
            }
            _ => self.fail("C05", "response-reply-kind", "StunAgent::handle_stun", "", "StunResponse or Drop".into(), rname),
        }
    }

    fn step_op(&mut self, op: &Op) {
        self.flush_obs();
        match op {
            Op::Send { kind, tid, dest, seal, payload } => self.do_send(*kind, *tid as usize % NTID, *dest, *seal, *payload),
            Op::SendBurst { first, count } => {
                for j in 0..*count as usize {
                    if self.failed {
                        break;
                    }
                    self.do_send(MsgKind::Request, *first as usize + j, (j % NCORE) as u8, Sealing::None, (j % 5) as u16 * 7);
                }
                self.ctx.count_n("burst-transactions", *count as u64);
            }
            Op::Poll(at) => {
                let target = match (at, self.last_wait) {
                    (PollAt::AtWait, Some(w)) => w,
                    (PollAt::Before(ms), Some(w)) => w.saturating_sub(*ms * 1000),
                    (PollAt::BeforeUs(us), Some(w)) => w.saturating_sub(*us),
                    (PollAt::Half, Some(w)) => self.now + (w.saturating_sub(self.now)) / 2,
                    (PollAt::After(ms), Some(w)) => w + ms * 1000,
                    (PollAt::After(ms), None) => self.now + ms * 1000,
                    _ => self.now,
                };
                self.now = self.now.max(target);
                if self.cfg.drain_polls {
                    self.res.orders.push("|".into());
                    let mut evs: Vec<String> = vec![];
                    // a drain serves every transaction that is due at this instant (one event per poll)
                    for _ in 0..(self.model.txs.len() + 64) {
                        let l0 = self.res.log.len();
                        match self.poll_once() {
                            Some(true) => evs.extend(self.res.log.drain(l0..)),
                            Some(false) => {
                                let w = self.res.log.drain(l0..).collect::<Vec<_>>();
                                evs.sort();
                                self.res.log.extend(evs.drain(..));
                                self.res.log.extend(w);
                                break;
                            }
                            None => break,
                        }
                    }
                } else {
                    self.poll_once();
                }
            }
            Op::Response { tid, from, error, seal, fp } => {
                let b = build_response(*tid, *error, *seal, *fp, self.step as u16);
                self.do_handle(b, *from as usize, true, *tid);
            }
            Op::Incoming { request, tid, from } => {
                let b = build_incoming(*request, *tid, self.step as u16);
                self.do_handle(b, *from as usize, false, *tid);
            }
            Op::IncomingSigned { request, tid, from, cred, good } => {
                let mut b = build_incoming(*request, *tid, self.step as u16);
                crate::refimpl::parse::seal(&mut b, if *good { Seal::Sha1 } else { Seal::BadSha1 }, &creds(*cred as usize).key());
                self.do_handle(b, *from as usize, false, *tid);
                self.ctx.count("signed-incoming-messages");
            }
            Op::IncomingBurst { first, count } => {
                for j in 0..*count as usize {
                    if self.failed {
                        break;
                    }
                    let tid = (j % NTID) as u8;
                    let b = build_incoming(false, tid, j as u16);
                    self.do_handle(b, *first as usize + j, false, tid);
                }
                self.ctx.count_n("burst-peers", *count as u64);
            }
            Op::IncomingFlood { from, count } => {
                for j in 0..*count as usize {
                    if self.failed {
                        break;
                    }
                    let tid = (j % NTID) as u8;
                    let b = build_incoming(j % 3 == 0, tid, (j % 4096) as u16);
                    self.do_handle(b, *from as usize, false, tid);
                }
                self.ctx.count_n("flood-messages-from-one-peer", *count as u64);
            }
            Op::Cancel(tid) | Op::CancelRetrans(tid) => {
                let i = *tid as usize % NTID;
                let id = imp::tid_from_bytes(&tid_bytes(i));
                let full = matches!(op, Op::Cancel(_));
                let found = self.call(|a| match a.mut_request_transaction(id) {
                    Some(mut r) => {
                        if full {
                            r.cancel()
                        } else {
                            r.cancel_retransmissions()
                        }
                        true
                    }
                    None => false,
                });
                self.last_wait = None;
                self.rec(|| json!({"op": if full { "cancel" } else { "cancel_retrans" }, "tid": hex(&tid_bytes(i)), "found": found}));
                self.res.log.push(format!("{}@{} tid#{i} -> {found:?}", if full { "cancel" } else { "cancel_retransmissions" }, ft(self.now as i128)));
                if let Some(tx) = self.model.txs.get_mut(&i) {
                    tx.send_cancelled = true;
                    if full {
                        tx.recv_cancelled = true;
                    }
                    self.ctx.count(if full { "cancel-calls" } else { "cancel-retransmissions-calls" });
                }
            }
            Op::Configure { tid, rto, n, last, rto_us, last_us } => {
                let i = *tid as usize % NTID;
                let id = imp::tid_from_bytes(&tid_bytes(i));
                let (rto, n, last) = (*rto, *n, *last);
                // durations with a sub-millisecond part: the agent works in whole milliseconds, each
                // interval is initial_rto * 2^i truncated to ms (not the truncated rto doubled)
                let (rto_total_us, last_total_us) = (rto * 1000 + (*rto_us % 1000) as u64, last * 1000 + (*last_us % 1000) as u64);
                let found = self.call(|a| match a.mut_request_transaction(id) {
                    Some(mut r) => {
                        r.configure_timeout(Duration::from_micros(rto_total_us), n, Duration::from_micros(last_total_us));
                        true
                    }
                    None => false,
                });
                self.last_wait = None;
                self.rec(|| json!({"op": "configure", "tid": hex(&tid_bytes(i)), "rto_us": rto_total_us, "n": n, "last_us": last_total_us, "found": found}));
                self.res.log.push(format!("configure@{} tid#{i} ({rto_total_us}us,{n},{last_total_us}us) -> {found:?}", ft(self.now as i128)));
                let tcp = self.model.tcp;
                if let Some(tx) = self.model.txs.get_mut(&i) {
                    let (iv, fin) = configured_schedule_us(tcp, rto_total_us, n, last_total_us);
                    if rto_total_us % 1000 != 0 || last_total_us % 1000 != 0 {
                        self.ctx.count("configure-calls-with-sub-millisecond-durations");
                    }
                    tx.iv = iv;
                    tx.fin = fin;
                    self.ctx.count("configure-calls");
                }
            }
            Op::SetRemote(c) => {
                let c = *c as usize % 3;
                let ic = imp::to_impl_creds(&creds(c));
                self.call(|a| a.set_remote_credentials(ic));
                self.model.remote = Some(c);
                self.rec(|| json!({"op": "set_remote", "cred": creds(c).to_json()}));
                self.res.log.push(format!("set_remote#{c}"));
            }
            Op::SetLocal(c) => {
                // local credentials are stored for the caller's use only: no reply may depend on them
                let ic = imp::to_impl_creds(&creds(*c as usize));
                self.call(|a| a.set_local_credentials(ic));
                self.res.log.push("set_local".to_string());
            }
            Op::SendData { dest, len } => {
                // raw data through the agent: a Transmit with the agent's addressing, no state change
                let data: Vec<u8> = (0..*len as usize).map(|j| (j * 13 + *len as usize) as u8).collect();
                let to = addr(*dest as usize);
                let r = self.call(|a| {
                    let t = a.send_data(&data, to);
                    (t.data().to_vec(), t.from, t.to, t.transport)
                });
                if let Some((d, f, t2, tr)) = r {
                    self.res.log.push(format!("send_data {} bytes to {t2}", d.len()));
                    self.check_transmit("StunAgent::send_data", &d, f, t2, tr, &data, *dest as usize);
                }
            }
            Op::Advance(ms) => {
                self.now += ms * 1000;
            }
            Op::Via { holder, inner } => {
                let h = *holder as usize % NTID;
                if matches!(**inner, Op::Poll(_) | Op::Response { .. } | Op::Incoming { .. } | Op::IncomingSigned { .. }) {
                    self.via = Some(h);
                    self.via_peer = None;
                    self.step_op(inner);
                    self.via = None;
                    if let Some(Some(got)) = self.via_peer.take() {
                        // the handle's transaction is still outstanding: it still names the same peer
                        if let Some(tx) = self.model.txs.get(&h) {
                            if got != addr(tx.to) && !self.failed {
                                self.fail(
                                    "C18",
                                    "peer-address",
                                    "StunRequestMut::peer_address",
                                    "handle-held-across-calls",
                                    format!("{} (the destination of tid#{h})", addr(tx.to)),
                                    format!("{got}"),
                                );
                            }
                        }
                        self.ctx.count("calls-through-request-handle");
                    }
                }
            }
            Op::ViaThen { holder, inner, then } => {
                let h = *holder as usize % NTID;
                if matches!(**inner, Op::Poll(_) | Op::Response { .. } | Op::Incoming { .. }) && matches!(**then, Op::Cancel(_) | Op::CancelRetrans(_) | Op::Configure { .. }) {
                    // the routed operation first; then two more polls at the same instant through the
                    // handle, and after the second the follow-up on that same handle.  (The follow-up
                    // is made after a poll whose answer cannot depend on the order in which
                    // simultaneously due transactions are served: where polls drain an instant the
                    // first of the two drains it and the second answers WaitUntil at once.)
                    self.via = Some(h);
                    self.via_peer = None;
                    self.step_op(inner);
                    self.step_op(&Op::Poll(PollAt::Now));
                    self.via_peer = None;
                    self.via_then = Some((**then).clone());
                    self.via_then_done = false;
                    self.step_op(&Op::Poll(PollAt::Now));
                    self.via = None;
                    self.via_then = None;
                    self.via_peer = None;
                    if std::mem::take(&mut self.via_then_done) {
                        // the call was made on the handle (its transaction was still outstanding after
                        // the routed call): the model follows, exactly as for the plain operations
                        self.last_wait = None;
                        let tcp = self.model.tcp;
                        match &**then {
                            Op::Cancel(_) | Op::CancelRetrans(_) => {
                                let full = matches!(**then, Op::Cancel(_));
                                self.rec(|| json!({"op": if full { "cancel" } else { "cancel_retrans" }, "tid": hex(&tid_bytes(h)), "found": true}));
                                self.res.log.push(format!("{}@{} tid#{h} (same handle) -> true", if full { "cancel" } else { "cancel_retransmissions" }, ft(self.now as i128)));
                                if let Some(tx) = self.model.txs.get_mut(&h) {
                                    tx.send_cancelled = true;
                                    if full {
                                        tx.recv_cancelled = true;
                                    }
                                }
                            }
                            Op::Configure { rto, n, last, rto_us, last_us, .. } => {
                                let (rto_total_us, last_total_us) = (rto * 1000 + (*rto_us % 1000) as u64, last * 1000 + (*last_us % 1000) as u64);
                                let n = *n;
                                self.rec(|| json!({"op": "configure", "tid": hex(&tid_bytes(h)), "rto_us": rto_total_us, "n": n, "last_us": last_total_us, "found": true}));
                                self.res.log.push(format!("configure@{} tid#{h} ({rto_total_us}us,{n},{last_total_us}us) (same handle) -> true", ft(self.now as i128)));
                                if let Some(tx) = self.model.txs.get_mut(&h) {
                                    let (iv, fin) = configured_schedule_us(tcp, rto_total_us, n, last_total_us);
                                    tx.iv = iv;
                                    tx.fin = fin;
                                }
                            }
                            _ => {}
                        }
                        self.ctx.count("handle-used-after-routing-a-call-through-it");
                    }
                }
            }
            Op::Rewind(ms) => {
                self.now = self.now.saturating_sub(ms * 1000);
                self.last_wait = None;
                self.ctx.count("clock-rewinds");
            }
            Op::AdvanceUs(us) => {
                // moves the sub-millisecond phase of every later instant
                self.now += us;
                self.ctx.count("sub-millisecond-advances");
            }
        }
    }

    /// bounded-progress drain: poll, jump to each WaitUntil, until the model holds nothing
    fn final_drain(&mut self) {
        let bound: usize = self.model.txs.values().map(|t| t.iv.len() + 3).sum::<usize>() + 8;
        let mut steps = 0;
        while !self.model.txs.is_empty() && !self.failed {
            steps += 1;
            if steps > bound * 2 {
                let left: Vec<usize> = self.model.txs.keys().copied().collect();
                self.fail(
                    "C05",
                    "completes-within-bound",
                    "StunAgent::poll",
                    "",
                    format!("every started transaction completes within {bound} wake-ups after the last operation"),
                    format!("still outstanding after {steps} steps: {left:?}"),
                );
                return;
            }
            match self.poll_once() {
                Some(true) => self.observe(),
                Some(false) => {
                    self.flush_obs();
                    if let Some(w) = self.last_wait {
                        self.now = self.now.max(w);
                    } else {
                        self.now += 1000;
                    }
                }
                None => return,
            }
        }
        if self.failed {
            return;
        }
        // long after everything completed nothing may happen any more
        self.now += 20_000_000_000;
        let t = self.at(self.now);
        let r = self.call(|a| match a.poll(t) {
            StunAgentPollRet::WaitUntil(_) => None,
            other => Some(format!("{other:?}")),
        });
        let quiet = matches!(r, Some(None));
        self.rec(|| json!({"op": "quiescent", "late_poll": if quiet { "wait" } else { "event" }}));
        if let Some(Some(ev)) = r {
            self.fail("C05", "no-ghost-event", "StunAgent::poll", "", "WaitUntil (nothing outstanding)".into(), ev[..ev.len().min(200)].to_string());
        }
        self.observe();
        self.flush_obs();
    }
}

/// Execute `h` on a fresh agent in lock-step with the model.
impl crate::ctx::WitnessSrc for History {
    fn witness(&self) -> Value {
        self.to_json()
    }
}

/// One history against a fresh agent, in lock-step with the model.  The whole run is a watchdog
/// region: an agent call that does not return is attributed to the history.
pub fn run_history(ctx: &mut Ctx, h: &History, cfg: &RunCfg) -> RunResult {
    let opened = ctx.wd.enter_case_src("agent-history", h);
    let r = run_history_inner(ctx, h, cfg);
    ctx.wd.leave_case(opened);
    r
}

fn run_history_inner(ctx: &mut Ctx, h: &History, cfg: &RunCfg) -> RunResult {
    // the impure attribute counts from zero in every run (replays of one history see the same values)
    COUNTING_VALUE.with(|c| c.set(0));
    let transport = if h.tcp { TransportType::Tcp } else { TransportType::Udp };
    let ra = h.remote_addr.map(|i| addr(i as usize));
    let agent = match guard(|| {
        let b = StunAgent::builder(transport, local_of(h));
        match ra {
            Some(a) => b.remote_addr(a).build(),
            None => b.build(),
        }
    }) {
        Ok(a) => a,
        Err(p) => {
            let prop = ctx.prop.clone();
            ctx.violation(&prop, "no-panic", "StunAgent::builder", "", || h.to_json(), "agent".into(), format!("panic: {}", p.msg));
            return RunResult::default();
        }
    };
    let mut e = Eng {
        ctx,
        h: h.clone(),
        cfg: cfg.clone(),
        agent,
        model: Model { tcp: h.tcp, ..Default::default() },
        base: base_instant() + Duration::from_millis(cfg.shift_ms),
        now: 0,
        last_wait: None,
        observe_mut: (h.ops.len() + h.remote0.unwrap_or(0) as usize) % 2 == 0,
        strays: Default::default(),
        res: RunResult::default(),
        transport,
        failed: false,
        noise: vec![],
        step: 0,
        rec: None,
        touched: Default::default(),
        local: local_of(h),
        via: None,
        via_peer: None,
        via_then: None,
        via_then_done: false,
        touched_tids: Default::default(),
        observe_count: 0,
        last_obs: String::new(),
        pending_obs: None,
    };
    if cfg.record && e.ctx.eventlog.is_some() && e.ctx.eventlog_left > 64 {
        e.rec = Some(Vec::with_capacity(64));
        let r0 = h.remote0.map(|c| creds(c as usize % 3).to_json());
        let local_s = e.local.to_string();
        e.rec(|| json!({"op": "begin", "tcp": h.tcp, "local": local_s, "remote0": r0, "remote_addr": ra.map(|a| a.to_string())}));
    }
    if e.agent.transport() != transport || e.agent.local_addr() != e.local || e.agent.remote_addr() != ra {
        e.fail("C18", "agent-identity", "StunAgent::{transport,local_addr,remote_addr}", "", format!("{transport} {} {ra:?}", e.local), format!("{} {} {:?}", e.agent.transport(), e.agent.local_addr(), e.agent.remote_addr()));
    }
    if let Some(c) = h.remote0 {
        let ic = imp::to_impl_creds(&creds(c as usize % 3));
        e.agent.set_remote_credentials(ic);
        e.model.remote = Some(c as usize % 3);
    }
    e.observe();
    let ops = h.ops.clone();
    for (si, op) in ops.iter().enumerate() {
        if e.failed {
            break;
        }
        e.step = si;
        e.noise_step();
        e.step_op(op);
        if !e.failed {
            e.observe();
        }
    }
    e.step = ops.len();
    // the last observation is part of the reply log even when the model check stopped the run
    e.flush_obs();
    if !e.failed && !cfg.no_final_drain {
        e.final_drain();
    }
    e.ctx.count_n("agent-calls", e.res.steps + ops.len() as u64);
    if let Some(mut lines) = e.rec.take() {
        let failed = e.failed;
        lines.push(json!({"k": "agent", "op": "end", "rust_failed": failed, "drained": !cfg.no_final_drain}).to_string());
        let n = lines.len() as u64;
        if let Some(w) = &mut e.ctx.eventlog {
            use std::io::Write;
            for l in &lines {
                let _ = writeln!(w, "{l}");
            }
        }
        e.ctx.eventlog_left = e.ctx.eventlog_left.saturating_sub(n);
        e.ctx.count("histories-recorded-for-offline-check");
    }
    e.res
}

// ---------------------------------------------------------------------------------------------
// history generators

pub fn gen_resp_seal(rng: &mut Rng) -> RespSeal {
    let c = rng.below(3) as u8;
    match rng.below(13) {
        12 => RespSeal::OddLen(c, rng.below(ODD_LENS.len() as u64) as u8),
        0 | 1 => RespSeal::Unsigned,
        2 | 3 => RespSeal::Sha1(c),
        4 => RespSeal::Sha256(c, 32),
        5 => RespSeal::Sha256(c, 16 + 4 * rng.below(5) as u8),
        6 => RespSeal::Both(c),
        7 => RespSeal::CorruptSha1(c),
        8 => RespSeal::CorruptSha256(c),
        9 => RespSeal::GoodBad(c),
        10 => RespSeal::BadGood(c),
        _ => RespSeal::Sha1(0),
    }
}

pub fn gen_configure(rng: &mut Rng, tid: u8) -> Op {
    let rto = match rng.below(10) {
        // the edges of the duration range: no interval at all (every retransmission is due at once),
        // an hour, a day
        0 if rng.chance(1, 3) => *rng.pick(&[0u64, 0, 3_600_000, 86_400_000]),
        0 => 1,
        1 => 2,
        2 => 499,
        3 => 500,
        4 => 501,
        5 => 1000,
        6 => 59_999,
        7 => 60_000,
        _ => 1 + rng.below(60_000),
    };
    let last = match rng.below(6) {
        0 => 0,
        1 => 1,
        2 => 8000,
        3 => 60_000,
        _ => rng.below(60_001),
    };
    let (rto_us, last_us) = if rng.chance(1, 4) { (*rng.pick(&[1u16, 499, 500, 501, 999, 250, 750]), *rng.pick(&[0u16, 1, 500, 999])) } else { (0, 0) };
    // one configuration in twelve has more retransmissions than the property's 0..=8 (the statement
    // itself has no such bound): 9..=24 of them, with a small initial interval so that the last ones
    // stay within days
    if rng.chance(1, 12) {
        let n = *rng.pick(&[9u32, 12, 15, 16, 17, 18, 20, 24]);
        return Op::Configure { tid, rto: 1 + rng.below(8), n, last, rto_us: 0, last_us };
    }
    Op::Configure { tid, rto, n: rng.below(9) as u32, last, rto_us, last_us }
}

pub fn gen_poll(rng: &mut Rng) -> Op {
    Op::Poll(match rng.below(14) {
        0..=4 => PollAt::AtWait,
        5 => {
            if rng.chance(1, 2) {
                PollAt::Before(1)
            } else {
                PollAt::BeforeUs(*rng.pick(&[1u64, 2, 500, 998, 999]))
            }
        }
        6 => PollAt::Half,
        7 => PollAt::Before(1 + rng.below(400)),
        8 => PollAt::After(1),
        9 => PollAt::After(1 + rng.below(3_000)),
        10 => PollAt::After(60_000 + rng.below(7_200_000)),
        11 => PollAt::Now,
        _ => PollAt::AtWait,
    })
}

/// long random history over `ntid` transaction ids
/// a destination: mostly one of the core addresses, one time in six a special one (wildcards, port 0,
/// multicast, IPv4-mapped, zoned / flow-labelled link-local ...): "the destination given at send time"
/// is the whole socket address
pub fn gen_dest(rng: &mut Rng) -> u8 {
    if rng.chance(1, 6) {
        8 + rng.below(24) as u8
    } else {
        rng.below(NCORE as u64) as u8
    }
}

pub fn gen_history(rng: &mut Rng, len: usize, ntid: u8, emphasis: &str) -> History {
    let mut ops = vec![];
    let tcp = rng.chance(1, 3);
    for _ in 0..len {
        let tid = rng.below(ntid as u64) as u8;
        let w = rng.below(100);
        let op = match emphasis {
            "timing" => match w {
                0..=14 => Op::Send { kind: MsgKind::Request, tid, dest: gen_dest(rng), seal: *rng.pick(&[Sealing::None, Sealing::None, Sealing::None, Sealing::Sha1, Sealing::Both]), payload: rng.below(600) as u16 },
                15..=29 => gen_configure(rng, tid),
                // calls that have nothing to do with timing
                30..=33 => match rng.below(6) {
                    0 => Op::SetLocal(rng.below(4) as u8),
                    1 => Op::SetRemote(rng.below(3) as u8),
                    2 => Op::Incoming { request: rng.chance(1, 2), tid, from: rng.below(NCORE as u64) as u8 },
                    3 => Op::SendData { dest: rng.below(NCORE as u64) as u8, len: rng.below(600) as u16 },
                    4 => Op::Send { kind: *rng.pick(&[MsgKind::Indication, MsgKind::Success, MsgKind::Error]), tid, dest: gen_dest(rng), seal: Sealing::None, payload: rng.below(300) as u16 },
                    _ => Op::Response { tid, from: rng.below(NCORE as u64) as u8, error: rng.chance(1, 2), seal: *rng.pick(&[RespSeal::CorruptSha1(0), RespSeal::Sha1(2), RespSeal::OddLen(0, 2)]), fp: false },
                },
                // a poll routed through a request handle, then the same handle reconfigures / cancels
                34 => {
                    let then = match rng.below(3) {
                        0 => Op::Cancel(tid),
                        1 => Op::CancelRetrans(tid),
                        _ => gen_configure(rng, tid),
                    };
                    Op::ViaThen { holder: tid, inner: Box::new(gen_poll(rng)), then: Box::new(then) }
                }
                34..=84 => gen_poll(rng),
                85..=88 => Op::CancelRetrans(tid),
                89..=90 => Op::Cancel(tid),
                91..=94 => Op::Response { tid, from: rng.below(NCORE as u64) as u8, error: false, seal: RespSeal::Unsigned, fp: false },
                _ => {
                    if rng.chance(1, 3) {
                        Op::AdvanceUs(*rng.pick(&[1u64, 250, 499, 500, 600, 999, 1001, 1500]))
                    } else if rng.chance(1, 6) {
                        // a stale instant: the clock handed in goes back
                        Op::Rewind(*rng.pick(&[1u64, 499, 500, 501, 10_000, 39_500, 60_000]))
                    } else {
                        Op::Advance(rng.below(3_000))
                    }
                }
            },
            "auth" => match w {
                0..=17 => Op::Send { kind: MsgKind::Request, tid, dest: gen_dest(rng), seal: *rng.pick(&[Sealing::None, Sealing::Sha1, Sealing::Sha256, Sealing::Both, Sealing::Sha1]), payload: rng.below(600) as u16 },
                18..=57 => Op::Response { tid, from: rng.below(NCORE as u64) as u8, error: rng.chance(1, 4), seal: gen_resp_seal(rng), fp: rng.chance(1, 3) },
                58..=63 => Op::SetRemote(rng.below(3) as u8),
                64..=65 => Op::SetLocal(rng.below(3) as u8),
                66..=89 => gen_poll(rng),
                90..=91 => Op::Incoming { request: rng.chance(1, 2), tid, from: rng.below(NCORE as u64) as u8 },
                92 => Op::IncomingSigned { request: rng.chance(1, 2), tid, from: rng.below(NCORE as u64) as u8, cred: rng.below(4) as u8, good: rng.chance(1, 2) },
                93..=94 => Op::Cancel(tid),
                95..=96 => Op::CancelRetrans(tid),
                _ => gen_configure(rng, tid),
            },
            _ => match w {
                0..=17 => Op::Send {
                    kind: *rng.pick(&[MsgKind::Request, MsgKind::Request, MsgKind::Request, MsgKind::Request, MsgKind::Indication, MsgKind::Success, MsgKind::Error]),
                    tid,
                    dest: gen_dest(rng),
                    seal: *rng.pick(&[Sealing::None, Sealing::None, Sealing::Sha1, Sealing::Sha256, Sealing::Both]),
                    payload: rng.below(2000) as u16,
                },
                18..=49 => gen_poll(rng),
                50..=69 => Op::Response { tid, from: rng.below(NCORE as u64) as u8, error: rng.chance(1, 4), seal: gen_resp_seal(rng), fp: rng.chance(1, 3) },
                70..=75 => Op::Incoming { request: rng.chance(1, 2), tid, from: rng.below(NCORE as u64) as u8 },
                76..=77 => Op::IncomingSigned { request: rng.chance(1, 2), tid, from: rng.below(NCORE as u64) as u8, cred: rng.below(4) as u8, good: rng.chance(1, 2) },
                78..=82 => Op::Cancel(tid),
                83..=86 => Op::CancelRetrans(tid),
                87..=92 => gen_configure(rng, tid),
                93..=95 => Op::SetRemote(rng.below(3) as u8),
                96 => Op::SetLocal(rng.below(4) as u8),
                98 => {
                    let inner = match rng.below(3) {
                        0 => gen_poll(rng),
                        1 => Op::Response { tid: rng.below(ntid as u64) as u8, from: rng.below(NCORE as u64) as u8, error: false, seal: RespSeal::Unsigned, fp: false },
                        _ => Op::Incoming { request: true, tid, from: rng.below(NCORE as u64) as u8 },
                    };
                    let holder = rng.below(ntid as u64) as u8;
                    if rng.chance(1, 2) {
                        let then = match rng.below(3) {
                            0 => Op::Cancel(holder),
                            1 => Op::CancelRetrans(holder),
                            _ => gen_configure(rng, holder),
                        };
                        Op::ViaThen { holder, inner: Box::new(inner), then: Box::new(then) }
                    } else {
                        Op::Via { holder, inner: Box::new(inner) }
                    }
                }
                97 => Op::SendData { dest: rng.below(NCORE as u64) as u8, len: rng.below(1500) as u16 },
                _ => {
                    if rng.chance(1, 3) {
                        Op::AdvanceUs(*rng.pick(&[1u64, 250, 499, 500, 600, 999, 1001, 1500]))
                    } else if rng.chance(1, 6) {
                        // a stale instant: the clock handed in goes back
                        Op::Rewind(*rng.pick(&[1u64, 499, 500, 501, 10_000, 39_500, 60_000]))
                    } else {
                        Op::Advance(rng.below(5_000))
                    }
                }
            },
        };
        ops.push(op);
    }
    History { tcp, remote0: if rng.chance(2, 3) { Some(rng.below(3) as u8) } else { None }, remote_addr: if rng.chance(1, 3) { Some(rng.below(NCORE as u64) as u8) } else { None }, ops }
}

/// the reduced alphabet of the systematic small-scope enumeration
pub fn small_alphabet() -> Vec<Op> {
    vec![
        Op::Send { kind: MsgKind::Request, tid: 0, dest: 0, seal: Sealing::None, payload: 2 },
        Op::Send { kind: MsgKind::Request, tid: 1, dest: 2, seal: Sealing::Sha1, payload: 5 },
        Op::Send { kind: MsgKind::Request, tid: 0, dest: 1, seal: Sealing::None, payload: 9 },
        Op::Poll(PollAt::AtWait),
        Op::Poll(PollAt::Before(1)),
        Op::Poll(PollAt::After(40_000)),
        Op::Response { tid: 0, from: 0, error: false, seal: RespSeal::Unsigned, fp: false },
        Op::Response { tid: 1, from: 2, error: false, seal: RespSeal::Sha1(0), fp: true },
        Op::Response { tid: 1, from: 3, error: true, seal: RespSeal::Unsigned, fp: false },
        Op::Response { tid: 2, from: 4, error: false, seal: RespSeal::Unsigned, fp: false },
        Op::Incoming { request: true, tid: 3, from: 3 },
        Op::Cancel(0),
        Op::CancelRetrans(1),
        Op::Configure { tid: 0, rto: 100, n: 2, last: 300, rto_us: 0, last_us: 0 },
        Op::SetRemote(2),
    ]
}

/// enumerate all histories of exactly `depth` ops over `alphabet`; calls f(index, history)
pub fn for_each_small(depth: usize, alphabet: &[Op], tcp: bool, mut f: impl FnMut(u64, History)) {
    let n = alphabet.len() as u64;
    let total = n.pow(depth as u32);
    for code in 0..total {
        let mut c = code;
        let mut ops = Vec::with_capacity(depth);
        for _ in 0..depth {
            ops.push(alphabet[(c % n) as usize].clone());
            c /= n;
        }
        f(code, History { tcp, remote0: Some(0), remote_addr: None, ops });
    }
}

pub fn replay(ctx: &mut Ctx, w: &Value) -> Result<(), String> {
    let h = History::from_json(w).ok_or("bad history")?;
    let shift = w.get("shift_ms").and_then(|s| s.as_u64()).unwrap_or(0);
    // hash order is nondeterministic: replay on several fresh agents
    for i in 0..16 {
        let r = run_history(ctx, &h, &RunCfg { shift_ms: shift, trap_clock: true, noise_agents: i % 4 == 3, ..Default::default() });
        if i == 0 && std::env::var_os("STUNMON_VERBOSE").is_some() {
            for l in &r.log {
                eprintln!("{l}");
            }
        }
        ctx.eval();
        if ctx.has_violations() {
            break;
        }
    }
    let _ = unhex("");
    Ok(())
}
