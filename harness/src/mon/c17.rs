//! C17 — a prefix of a message is reported as truncated with the length still needed.

use super::codec::{self, check_small_decoders, Opts};
use crate::ctx::{guard, hash64, Ctx, Tier};
use crate::gen::msg::*;
use crate::refimpl::crypto::hex;
use crate::refimpl::parse::*;
use serde_json::{json, Value};
use stun_types::message::{Message, MessageHeader, StunParseError};

fn wit(buf: &[u8], cut: usize) -> Value {
    json!({"kind": "prefix", "buf": hex(buf), "cut": cut})
}

pub fn check_prefix(ctx: &mut Ctx, m: &[u8], cut: usize) {
    ctx.eval();
    let p = &m[..cut];
    ctx.wd.enter("Message::from_bytes", p);
    let r = guard(|| Message::from_bytes(p).map(|_| ()));
    ctx.wd.leave();
    let want_expected = if cut < 20 { 20 } else { m.len() };
    match r {
        Err(pn) => ctx.violation(
            "C01",
            "no-panic",
            "Message::from_bytes",
            "prefix",
            || wit(m, cut),
            "Err(Truncated)".into(),
            format!("panic: {} at {}", pn.msg, pn.loc),
        ),
        Ok(Err(StunParseError::Truncated { expected, actual })) if expected == want_expected && actual == cut => {
            ctx.count("prefix-truncated-ok");
        }
        Ok(other) => ctx.violation(
            "C17",
            "prefix-truncated",
            "Message::from_bytes",
            if cut < 20 { "cut<20" } else { "cut>=20" },
            || wit(m, cut),
            format!("Err(Truncated{{expected: {want_expected}, actual: {cut}}})"),
            format!("{other:?}"),
        ),
    }
    // under a tracing subscriber that enables everything: the same report (arguments of log macros are
    // only evaluated then), for the short cuts around the header and a sample of the others
    if cut <= 24 || cut % 7 == 0 || cut + 4 >= m.len() {
        let ev0 = crate::trace_sub::events();
        let sub = guard(|| crate::trace_sub::with_subscriber(|| Message::from_bytes(p).map(|_| ())));
        ctx.count_n("tracing-events-seen-during-prefix-parses", crate::trace_sub::events() - ev0);
        match sub {
            Ok(Err(StunParseError::Truncated { expected, actual })) if expected == want_expected && actual == cut => {}
            Ok(other) => ctx.violation("C17", "prefix-truncated", "Message::from_bytes", "under-tracing-subscriber", || wit(m, cut), format!("Err(Truncated{{expected: {want_expected}, actual: {cut}}})"), format!("{other:?}")),
            Err(pn) => ctx.violation("C17", "prefix-truncated", "Message::from_bytes", "panic-under-tracing-subscriber", || wit(m, cut), format!("Err(Truncated{{expected: {want_expected}, actual: {cut}}})"), format!("panic: {} at {}", pn.msg, pn.loc)),
        }
        ctx.count("prefixes-under-a-tracing-subscriber");
    }
    // the TryFrom entry point reports the same
    let alt = guard(|| <Message as TryFrom<&[u8]>>::try_from(p).map(|_| ()));
    match alt {
        Ok(Err(StunParseError::Truncated { expected, actual })) if expected == want_expected && actual == cut => {}
        Ok(other) => ctx.violation(
            "C17",
            "prefix-truncated",
            "Message::try_from",
            if cut < 20 { "cut<20" } else { "cut>=20" },
            || wit(m, cut),
            format!("Err(Truncated{{expected: {want_expected}, actual: {cut}}})"),
            format!("{other:?}"),
        ),
        Err(pn) => ctx.violation("C01", "no-panic", "Message::try_from", "prefix", || wit(m, cut), "Err(Truncated)".into(), format!("panic: {} at {}", pn.msg, pn.loc)),
    }
    // the header decoder against the full parser on the same bytes
    header_vs_parser(ctx, m, cut);
}

/// "The stand-alone header decoder accepts exactly the 20-byte prefixes the full parser would not
/// call non-STUN": compared directly between the two entry points, on `m[..cut]`.
pub fn header_vs_parser(ctx: &mut Ctx, m: &[u8], cut: usize) {
    let p = &m[..cut];
    if cut >= 20 {
        ctx.count("header-vs-parser-compared");
        let h = guard(|| MessageHeader::from_bytes(p).is_ok());
        let full_notstun = guard(|| matches!(Message::from_bytes(p), Err(StunParseError::NotStun)));
        if let (Ok(h), Ok(ns)) = (h, full_notstun) {
            if h == ns {
                ctx.violation(
                    "C17",
                    "header-vs-full-parser",
                    "MessageHeader::from_bytes",
                    "",
                    || wit(m, cut),
                    "header accepted iff the full parser does not answer NotStun".into(),
                    format!("header ok = {h}, full parser NotStun = {ns}"),
                );
            }
        }
    }
}

/// Whatever the full parser accepts is a message of exactly the size the header declares (the
/// header decoder "reports the same ... declared length as the full parse"), and none of its strict
/// prefixes is accepted: they are reported as truncated with the accepted size as the expected one.
pub fn accepted_is_what_the_header_declares(ctx: &mut Ctx, b: &[u8]) {
    if b.len() < 20 || b.len() > 70_000 {
        return;
    }
    let r = guard(|| {
        let Ok(m) = Message::from_bytes(b) else { return None };
        let h = MessageHeader::from_bytes(&b[..20]).ok().map(|h| {
            let same_type = h.get_type() == m.get_type() && h.get_type().method() == m.method() && h.get_type().class() == m.class() && m.has_method(h.get_type().method()) && m.has_class(h.get_type().class());
            (h.data_length() as usize + 20, same_type, h.transaction_id() == m.transaction_id())
        });
        let mut prefixes = vec![];
        for cut in [b.len() - 1, b.len().saturating_sub(4), b.len().saturating_sub(8), b.len().saturating_sub(12), b.len().saturating_sub(24), 20] {
            if cut >= 20 && cut < b.len() {
                let e = match Message::from_bytes(&b[..cut]) {
                    Ok(_) => "Ok".to_string(),
                    Err(StunParseError::Truncated { expected, actual }) if expected == b.len() && actual == cut => String::new(),
                    Err(e) => format!("{e:?}"),
                };
                if !e.is_empty() {
                    prefixes.push((cut, e));
                }
            }
        }
        Some((h, prefixes))
    });
    if let Ok(Some((h, prefixes))) = r {
        ctx.count("accepted-buffers-compared-with-their-header");
        if h != Some((b.len(), true, true)) {
            ctx.violation(
                "C17",
                "header-vs-full-parser",
                "MessageHeader::from_bytes",
                "declared-length-of-an-accepted-buffer",
                || wit(b, b.len()),
                format!("header ok, declared length + 20 = {} (the size the full parser accepted), same type and transaction id", b.len()),
                format!("{h:?}"),
            );
        } else if let Some((cut, e)) = prefixes.first() {
            ctx.violation(
                "C17",
                "truncated-fields",
                "Message::from_bytes",
                "prefix-of-an-accepted-buffer",
                || wit(b, *cut),
                format!("Truncated {{ expected: {}, actual: {cut} }}", b.len()),
                e.clone(),
            );
        }
    }
}

pub fn run(ctx: &mut Ctx) {
    let quick = ctx.tier == Tier::Quick;
    // ---- well-formed messages (reference-made and builder-made) x every cut ----
    let n = ctx.n(24_000, 240_000);
    let mut rng = ctx.rng("prefix", 0);
    let o = Opts::default();
    let mut rx = vec![0u8; 4_096];
    let mut prev_msg: Vec<u8> = vec![];
    for i in 0..n {
        let (m, _g) = if i % 3 == 2 {
            // builder-made
            let prog = super::builder::gen_program(&mut rng, 5, false);
            match super::builder::build_program(&prog) {
                Some(b) => (b, None),
                None => continue,
            }
        } else {
            let (b, g) = gen_valid_message(&mut rng, 5);
            (b, Some(g))
        };
        if m.len() > 2_000 {
            continue;
        }
        ctx.distinct(hash64(&[m.len() as u64, crate::ctx::hash_bytes(&m[..m.len().min(48)])]));
        ctx.count("messages");
        // a receive buffer that is reused: a prefix of the previous message was parsed at this very
        // address a moment ago, now (at least as many) bytes of this one sit there
        if prev_msg.len() > 20 && m.len() >= 24 {
            let n1 = 20 + rng.usize(prev_msg.len() - 20);
            rx[..n1].copy_from_slice(&prev_msg[..n1]);
            let _ = guard(|| Message::from_bytes(&rx[..n1]).is_ok());
            for n2 in [n1, n1 + 1, n1 + 4, m.len() - 1, m.len()] {
                if n2 >= 20 && n2 <= m.len() && n2 >= n1 {
                    rx[..n2].copy_from_slice(&m[..n2]);
                    let r = guard(|| Message::from_bytes(&rx[..n2]).map(|_| ()));
                    let ok = match &r {
                        Ok(Ok(())) => n2 == m.len(),
                        Ok(Err(StunParseError::Truncated { expected, actual })) => n2 < m.len() && *expected == m.len() && *actual == n2,
                        _ => false,
                    };
                    if !ok {
                        ctx.violation(
                            "C17",
                            "truncated-fields",
                            "Message::from_bytes",
                            "reused-receive-buffer",
                            || wit(&m, n2),
                            if n2 == m.len() { "Ok".to_string() } else { format!("Truncated {{ expected: {}, actual: {n2} }}", m.len()) },
                            format!("{r:?} (after {n1} bytes of a {}-byte message were parsed at the same address)", prev_msg.len()),
                        );
                        break;
                    }
                    ctx.count("prefixes-in-a-reused-receive-buffer");
                }
            }
        }
        prev_msg = m.clone();
        for cut in 0..m.len() {
            check_prefix(ctx, &m, cut);
        }
        // the whole message parses
        let whole = guard(|| Message::from_bytes(&m).is_ok());
        if whole != Ok(true) {
            ctx.violation(
                "C02",
                "accept-iff",
                "Message::from_bytes",
                "wellformed-refused",
                || wit(&m, m.len()),
                "Ok".into(),
                format!("{whole:?}"),
            );
        }
        let rp = ref_parse(&m[..m.len().min(20)]);
        check_small_decoders(ctx, &m[..20], &rp, &o);
        if i < 4 {
            ctx.sample("message", || json!({"bytes": hex(&m), "cuts": m.len()}));
        }
    }
    // ---- every one of the 16 384 message types: a header-only message and one with an attribute,
    //      every cut (which prefix is reported how must not depend on the type value) ----
    {
        let mut k = 0u64;
        for ty in 0..0x4000u16 {
            k += 1;
            if !ctx.mine(k) {
                continue;
            }
            let tid = [(ty >> 8) as u8, ty as u8, 3, 4, 5, 6, 7, 8, 9, 10, 11, 12];
            let mut m = vec![(ty >> 8) as u8, ty as u8, 0, 0, 0x21, 0x12, 0xa4, 0x42];
            m.extend_from_slice(&tid);
            for cut in 0..m.len() {
                check_prefix(ctx, &m, cut);
            }
            let mut m2 = m.clone();
            m2[3] = 8;
            m2.extend_from_slice(&[0x80, 0x22, 0x00, 0x03, b'a', b'b', b'c', 0]);
            for cut in [0usize, 1, 2, 3, 4, 19, 20, 21, 24, 27] {
                check_prefix(ctx, &m2, cut);
            }
            // the header decoder and the full parse report the same type, id and declared length
            accepted_is_what_the_header_declares(ctx, &m);
            accepted_is_what_the_header_declares(ctx, &m2);
            ctx.count("message-types-cut");
        }
        ctx.require("message-types-cut", 16_384);
    ctx.require("accepted-buffers-compared-with-their-header", 10_000);
    }
    // ---- buffers larger than any STUN message that do not start with a STUN header: not STUN for
    //      the parser as for the header decoder, whatever their size ----
    {
        let mut r5 = ctx.rng("oversized-non-stun", 0);
        for k in 0..ctx.n(16, 160) {
            let len = *r5.pick(&[65_556usize, 65_557, 65_560, 70_000, 131_072]);
            let mut b = r5.bytes(len);
            match k % 4 {
                0 => b[0] |= 0x80,
                1 => b[0] = (b[0] & 0x3f) | 0x40,
                2 => {
                    b[0] &= 0x3f;
                    b[4..8].copy_from_slice(&[0x21, 0x12, 0xa4, 0x43]);
                }
                _ => {
                    b[0] &= 0x3f;
                    b[4..8].copy_from_slice(&[0, 0, 0, 0]);
                }
            }
            header_vs_parser(ctx, &b, b.len());
            header_vs_parser(ctx, &b, 20);
            ctx.count("oversized-non-stun-buffers");
        }
    }
    // ---- large messages, sampled cuts ----
    let nl = ctx.n(120, 1_200);
    for i in 0..nl {
        let total = if i % 2 == 0 { 65_552 - 4 * rng.usize(30) } else { 3_000 + 4 * rng.usize(15_000) };
        let m = gen_boundary_message(&mut rng, total, &[Seal::Sha1, Seal::Fingerprint], &RefCreds::Short("k".into()));
        ctx.count("large-messages");
        for cut in (0..40).chain((0..200).map(|_| rng.usize(m.len()))).chain(m.len() - 9..m.len()) {
            check_prefix(ctx, &m, cut);
        }
    }
    // ---- header sweeps: top-bit combinations x cookie single-bit errors x random ----
    let mut idx = 0u64;
    let nh = if quick { 40 } else { 2_000 };
    for top in 0..4u8 {
        for cookie_bit in 0..33usize {
            for rep in 0..nh {
                idx += 1;
                if !ctx.mine(idx) {
                    continue;
                }
                let mut r2 = ctx.rng("hdr", idx);
                let extra = if rep % 3 == 0 { r2.usize(30) } else { 0 };
                let mut b = r2.bytes(20 + extra);
                b[0] = (b[0] & 0x3f) | (top << 6);
                b[4..8].copy_from_slice(&COOKIE);
                if cookie_bit < 32 {
                    b[4 + cookie_bit / 8] ^= 1 << (cookie_bit % 8);
                }
                let rp = ref_parse(&b);
                check_small_decoders(ctx, &b, &rp, &o);
                // arbitrary headers (any length field, aligned or not): the two decoders agree on "STUN or not",
                // on the 20-byte header alone, on the buffer as it is, and padded to its declared length
                header_vs_parser(ctx, &b, 20);
                header_vs_parser(ctx, &b, b.len());
                {
                    let decl = u16::from_be_bytes([b[2], b[3]]) as usize;
                    let mut full = b[..20].to_vec();
                    full.resize(20 + decl, 0);
                    header_vs_parser(ctx, &full, full.len());
                }
                ctx.eval();
                ctx.count("header-sweep");
                // short headers
                let cut = r2.usize(20);
                let rp = ref_parse(&b[..cut]);
                check_small_decoders(ctx, &b[..cut], &rp, &o);
            }
        }
    }
    // ---- arbitrary generated and mutated messages (malformed attributes, odd-sized sealing
    //      attributes, wrong CRCs, ...): whatever is wrong *inside*, a buffer with a STUN header is not
    //      "non-STUN" for the parser while the header decoder accepts it ----
    {
        let ng = ctx.n(160_000, 1_600_000);
        let mut r3 = ctx.rng("hdr-vs-parser", 0);
        let mut prev: Vec<u8> = vec![];
        for i in 0..ng {
            let (b, _g) = gen_message(&mut r3, 5);
            let m = if i % 3 == 0 { b.clone() } else { mutate(&mut r3, &b, if prev.is_empty() { None } else { Some(&prev) }) };
            if m.len() >= 20 && m.len() <= 4_000 {
                header_vs_parser(ctx, &m, m.len());
                accepted_is_what_the_header_declares(ctx, &m);
                // a sealing attribute appended behind the advertised size, computed the way a sender
                // that left the length field where the integrity computation put it would
                if i % 8 == 1 {
                    let mut x = b.clone();
                    let mut with_len = x.clone();
                    let l = (x.len() - 20 + 8) & 0xffff;
                    set_len(&mut with_len, l);
                    let crc = crate::refimpl::crypto::crc32_fast(&with_len) ^ 0x5354_554e;
                    x.extend_from_slice(&[0x80, 0x28, 0x00, 0x04]);
                    x.extend_from_slice(&crc.to_be_bytes());
                    header_vs_parser(ctx, &x, x.len());
                    accepted_is_what_the_header_declares(ctx, &x);
                    ctx.count("sealing-attribute-behind-the-advertised-size");
                }
                // and with the FINGERPRINT (if any) given an impossible length
                if i % 16 == 0 {
                    let rp = ref_parse(&b);
                    if let Some(fp) = rp.attrs.iter().find(|a| a.ty == FP) {
                        for l in [0u8, 1, 3, 5, 8] {
                            let mut x = b[..fp.off].to_vec();
                            x.extend_from_slice(&[0x80, 0x28, 0, l]);
                            x.extend(std::iter::repeat(0x77).take((l as usize + 3) / 4 * 4));
                            let bl = x.len() - 20;
                            set_len(&mut x, bl);
                            header_vs_parser(ctx, &x, x.len());
                        }
                    }
                }
            }
            prev = b;
            ctx.eval();
        }
    }
    ctx.require("tracing-events-seen-during-prefix-parses", 1_000);
    ctx.require("prefix-truncated-ok", 50_000);
    ctx.require("messages", 500);
    ctx.require("header-sweep", 1_000);
    ctx.require("header-vs-parser-compared", 10_000);
}

pub fn replay(ctx: &mut Ctx, w: &Value) -> Result<(), String> {
    match w.get("kind").and_then(|k| k.as_str()) {
        Some("prefix") => {
            let m = crate::refimpl::crypto::unhex(w["buf"].as_str().ok_or("buf")?).ok_or("hex")?;
            let cut = w["cut"].as_u64().ok_or("cut")? as usize;
            if cut <= m.len() {
                if cut < m.len() {
                    check_prefix(ctx, &m, cut);
                }
                Ok(())
            } else {
                Err("cut beyond buffer".into())
            }
        }
        Some("bytes") => codec::replay(ctx, w),
        k => Err(format!("unknown witness kind {k:?}")),
    }
}
