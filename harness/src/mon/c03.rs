//! C03 — whatever the builder serialises, the parser reads back identically.

use super::builder::*;
use crate::ctx::{guard, hash64, hash_bytes, Ctx, Tier};
use crate::imp;
use crate::refimpl::crypto::hex;
use crate::refimpl::parse::*;
use serde_json::Value;
use stun_types::attribute::{Attribute, AttributeType, RawAttribute};
use stun_types::message::{Message, MessageClass};

fn class_num(c: MessageClass) -> u8 {
    match c {
        MessageClass::Request => 0,
        MessageClass::Indication => 1,
        MessageClass::Success => 2,
        MessageClass::Error => 3,
    }
}

pub fn check_program(ctx: &mut Ctx, p: &Program) {
    let opened = ctx.wd.enter_case_src("builder-program", p);
    check_program_inner(ctx, p);
    ctx.wd.leave_case(opened);
}

fn check_program_inner(ctx: &mut Ctx, p: &Program) {
    ctx.eval();
    let w = || p.to_json();
    let r = guard(|| {
        let objs = make_objs(p)?;
        let b = apply_program(p, &objs)?;
        let bytes = b.build();
        let bl = b.byte_len();
        let has: Vec<bool> = p.attrs.iter().map(|a| b.has_attribute(AttributeType::new(a.ty()))).collect();
        // the other serialisation paths, into destinations that are not zero-filled (a reused buffer)
        let mut alt: Vec<(&'static str, Result<Vec<u8>, String>)> = vec![];
        let mut d = vec![0xA5u8; bl];
        alt.push(("write_into(dirty)", b.write_into(&mut d).map(|n| d[..n].to_vec()).map_err(|e| format!("{e:?}"))));
        let owned = b.clone().into_owned();
        let mut d = vec![0x5Au8; bl + 8];
        alt.push(("into_owned().write_into(dirty)", owned.write_into(&mut d).map(|n| d[..n].to_vec()).map_err(|e| format!("{e:?}"))));
        // additions that are refused leave no trace in what is serialised afterwards: a raw and a typed
        // attribute of a type already present, anything after a seal, a seal out of order
        {
            const V9: [u8; 9] = [0xEE; 9];
            const V5: [u8; 5] = [0x11; 5];
            let mut rb = apply_program(p, &objs)?;
            let mut refused_ok = 0u32;
            let mut accepted: Option<String> = None;
            if let Some(a0) = p.attrs.first() {
                if rb.add_raw_attribute(RawAttribute::new(AttributeType::new(a0.ty()), &V9)).is_err() { refused_ok += 1 } else { accepted = Some(format!("raw attribute of type {:#06x}, already present", a0.ty())) }
            }
            if let Some((i, _)) = p.attrs.iter().enumerate().find(|(_, a)| matches!(a, AttrSpec::Typed(..))) {
                if let Obj::Typed(o) = &objs[i] {
                    if rb.add_attribute(o.as_ref()).is_err() { refused_ok += 1 } else { accepted = Some("typed attribute already present".into()) }
                }
            }
            if !p.seals.is_empty() {
                if rb.add_raw_attribute(RawAttribute::new(AttributeType::new(0x7e7e), &V5)).is_err() { refused_ok += 1 } else { accepted = Some("raw attribute after a seal".into()) }
                if p.seals.contains(&SealSpec::Fp) && rb.add_fingerprint().is_ok() {
                    accepted = Some("second fingerprint".into());
                }
            }
            if let Some(what) = accepted {
                return Err(format!("an operation that must be refused was accepted: {what}"));
            }
            if refused_ok > 0 {
                let mut d = vec![0x77u8; bl + 64];
                let after = (rb.build(), rb.byte_len(), rb.write_into(&mut d).map(|n| d[..n].to_vec()).map_err(|e| format!("{e:?}")));
                alt.push(("after-refused-additions.build", Ok(after.0)));
                alt.push(("after-refused-additions.write_into", if after.1 == bl { after.2 } else { Err(format!("byte_len() {} after refused additions, {bl} before", after.1)) }));
            }
        }
        // the same additions with the builder measured / serialised / cloned between them
        let ob = apply_program_observed(p, &objs)?;
        let obl = ob.byte_len();
        let mut d = vec![0xC3u8; obl + 4];
        alt.push(("observed-between-additions.write_into", ob.write_into(&mut d).and_then(|n| if n == obl { Ok(d[..n].to_vec()) } else { Ok(vec![]) }).map_err(|e| format!("{e:?}"))));
        alt.push(("observed-between-additions.build", Ok(ob.build())));
        Ok::<_, String>((bytes, bl, has, alt))
    });
    let (bytes, bl, has, alt) = match r {
        Err(pn) => {
            ctx.violation("C03", "build-no-panic", "MessageBuilder", "", w, "bytes".into(), format!("panic: {} at {}", pn.msg, pn.loc));
            return;
        }
        Ok(Err(e)) => {
            ctx.violation("C03", "in-limit-accepted", "MessageBuilder::add_*", "", w, "every operation of an in-limit program succeeds".into(), e);
            return;
        }
        Ok(Ok(x)) => x,
    };
    let nseal = p.seals.len();
    ctx.distinct(hash64(&[p.attrs.len() as u64, nseal as u64, bytes.len() as u64, hash_bytes(&bytes[..bytes.len().min(40)])]));
    ctx.count(&format!("seals:{}", p.seals.iter().map(|s| s.name()).collect::<Vec<_>>().join("+")));
    if p.attrs.len() > 16 {
        ctx.count("programs-over-16-attributes");
    }
    // ---- shape of the serialisation ----
    let hl = if bytes.len() >= 4 { ((bytes[2] as usize) << 8) | bytes[3] as usize } else { usize::MAX };
    if bytes.len() % 4 != 0 || bytes.len() != bl || bytes.len() < 20 || hl != bytes.len() - 20 || has.iter().any(|h| !h) {
        ctx.violation(
            "C03",
            "serialisation-shape",
            "MessageBuilder::{build,byte_len}",
            "",
            w,
            "len % 4 == 0, len == byte_len(), header length == len - 20, has_attribute for every added type".into(),
            format!("len {} byte_len {bl} header length {hl} has {has:?}", bytes.len()),
        );
        return;
    }
    // ---- byte-for-byte against the reference encoder (pins layout, HMAC input/keys, CRC) ----
    let want = p.reference_bytes();
    if bytes != want {
        let first = bytes.iter().zip(want.iter()).position(|(a, b)| a != b).unwrap_or(bytes.len().min(want.len()));
        let rp = ref_parse(&want);
        let region = rp.attrs.iter().find(|a| first >= a.off && first < a.padded_end()).map(|a| format!("{:#06x}", a.ty)).unwrap_or("header".into());
        // differences confined to sealing attributes are C04 / C09 matters as well
        let tag = "C03";
        ctx.violation(
            tag,
            "matches-reference-encoding",
            "MessageBuilder::build",
            &format!("first-difference-in={region}"),
            w,
            format!("{} bytes: {}", want.len(), hex(&want[..want.len().min(120)])),
            format!("{} bytes: {} (first difference at offset {first})", bytes.len(), hex(&bytes[..bytes.len().min(120)])),
        );
    }
    // ---- read back through the parser ----
    let expected: Vec<(u16, Vec<u8>)> = {
        let rp = ref_parse(&want);
        rp.attrs.iter().map(|a| (a.ty, a.value(&want).to_vec())).collect()
    };
    let mut sers: Vec<(&'static str, Vec<u8>)> = vec![("MessageBuilder::build", bytes.clone())];
    for (label, r) in alt {
        match r {
            Ok(b2) => sers.push((label, b2)),
            Err(e) => ctx.violation("C03", "serialises", label, "", w, format!("{} bytes written", bytes.len()), format!("Err({e})")),
        }
    }
    for (si, (ser_label, bytes)) in sers.iter().enumerate() {
        let ser_label: &'static str = ser_label;
        if si > 0 {
            ctx.count("alternative-serialisations-read-back");
        }
        readback(ctx, p, ser_label, bytes, &expected);
    }
}

fn readback(ctx: &mut Ctx, p: &Program, ser_label: &'static str, bytes: &[u8], expected: &[(u16, Vec<u8>)]) {
    ctx.wd.tick();
    let w = || {
        let mut v = p.to_json();
        v["serialised_by"] = serde_json::json!(ser_label);
        v
    };
    let via = if ser_label == "MessageBuilder::build" { String::new() } else { format!(",via={ser_label}") };
    let rb = guard(|| {
        Message::from_bytes(bytes).map(|m| {
            let attrs: Vec<(u16, Vec<u8>)> = m.iter_attributes().map(|a| (a.get_type().value(), a.value.to_vec())).collect();
            // reading by position (nth / skip / last / count) reads the same attributes back
            let n = attrs.len();
            let mut by_position_ok = m.iter_attributes().count() == n && m.iter_attributes().last().map(|a| a.get_type().value()) == attrs.last().map(|a| a.0);
            if n <= 48 {
                for k in 0..=n {
                    let got = m.iter_attributes().nth(k).map(|a| (a.get_type().value(), a.value.to_vec()));
                    let rest: Vec<u16> = m.iter_attributes().skip(k).map(|a| a.get_type().value()).collect();
                    if got.as_ref() != attrs.get(k) || rest != attrs[k.min(n)..].iter().map(|a| a.0).collect::<Vec<_>>() {
                        by_position_ok = false;
                    }
                }
            }
            let mut attrs = if by_position_ok { attrs } else { vec![(0xdead, b"nth/skip/last/count disagree with sequential iteration".to_vec())] };
            // reading by TYPE: the builder refuses repeated types, so a lookup by type names exactly one
            // attribute of the message, wherever it sits (all of them up to 300 attributes, a spread and
            // the last twenty beyond)
            if by_position_ok {
                let stride = (n / 300).max(1);
                for (i, (t, v)) in attrs.iter().enumerate() {
                    if i % stride != 0 && i + 20 < n {
                        continue;
                    }
                    let ty = AttributeType::new(*t);
                    let raw = m.raw_attribute(ty).map(|r| (r.get_type().value(), r.value.to_vec()));
                    if !m.has_attribute(ty) || raw.as_ref() != Some(&(*t, v.clone())) {
                        attrs = vec![(0xdeae, format!("lookup by type {t:#06x} (attribute #{i} of {n}): has_attribute {} raw_attribute {:?}", m.has_attribute(ty), raw.map(|r| (r.0, r.1.len()))).into_bytes())];
                        break;
                    }
                }
            }
            // typed lookups: `attribute::<T>()` finds each typed attribute and hands back its value
            let mut typed: Vec<(&'static str, Result<Option<Vec<u8>>, String>)> = vec![];
            for a in &p.attrs {
                if let AttrSpec::Typed(k, _) = a {
                    typed.push((k.name(), imp::impl_msg_attribute(*k, &m).map(|o| o.map(|o| o.to_raw().value.to_vec()))));
                }
            }
            for s in &p.seals {
                let k = match s { SealSpec::Sha1 => crate::refimpl::attrs::Kind::MessageIntegrity, SealSpec::Sha256 => crate::refimpl::attrs::Kind::MessageIntegritySha256, SealSpec::Fp => crate::refimpl::attrs::Kind::Fingerprint };
                typed.push((k.name(), imp::impl_msg_attribute(k, &m).map(|o| o.map(|o| o.to_raw().value.to_vec()))));
            }
            let attrs = (attrs, typed);
            (class_num(m.class()), m.method(), imp::tid_to_bytes(m.transaction_id()), attrs, m.validate_integrity(&imp::to_impl_creds(&p.creds)).map_err(|e| format!("{e:?}")))
        })
    });
    match rb {
        Err(pn) => ctx.violation("C03", "readback-no-panic", "Message::from_bytes", "", w, "Ok".into(), format!("panic: {} at {}", pn.msg, pn.loc)),
        Ok(Err(e)) => ctx.violation("C03", "readback-parses", "Message::from_bytes", via.trim_start_matches(','), w, "Ok".into(), format!("Err({e:?}) on {}", hex(&bytes[..bytes.len().min(160)]))),
        Ok(Ok((c, m, tid, (attrs, typed), val))) => {
            for (name, got) in typed {
                let code = crate::refimpl::attrs::Kind::from_name(name).map(|k| k.code()).unwrap_or(0);
                let want = expected.iter().find(|a| a.0 == code).map(|a| a.1.clone());
                match (&got, &want) {
                    (Ok(Some(g)), Some(w_)) if g == w_ => ctx.count("typed-lookup-readback-equal"),
                    _ => ctx.violation(
                        "C03",
                        "readback-typed-lookup",
                        "Message::attribute",
                        &format!("{name}{via}"),
                        w,
                        format!("{:?}", want.map(|v| hex(&v[..v.len().min(48)]))),
                        format!("{:?}", got.map(|o| o.map(|v| hex(&v[..v.len().min(48)])))),
                    ),
                }
            }
            if c != p.class || m != p.method || tid != p.tid {
                ctx.violation(
                    "C03",
                    "readback-header",
                    "Message::{class,method,transaction_id}",
                    "",
                    w,
                    format!("class {} method {:#x} tid {}", p.class, p.method, hex(&p.tid)),
                    format!("class {c} method {m:#x} tid {}", hex(&tid)),
                );
            }
            if attrs.as_slice() != expected {
                let tail = p.seals.iter().map(|s| s.name()).collect::<Vec<_>>().join(",");
                ctx.violation(
                    "C03",
                    "readback-attributes",
                    "iter_attributes",
                    &format!("seals={tail}{via}"),
                    w,
                    format!("{:?}", expected.iter().map(|a| format!("{:#06x}/{}", a.0, a.1.len())).collect::<Vec<_>>()),
                    format!("{:?}", attrs.iter().map(|a| format!("{:#06x}/{}", a.0, a.1.len())).collect::<Vec<_>>()),
                );
            }
            // typed values read back equal
            for a in &p.attrs {
                if let AttrSpec::Typed(k, v) = a {
                    if let Some((_, val)) = attrs.iter().find(|x| x.0 == k.code()) {
                        let raw = RawAttribute::new(AttributeType::new(k.code()), val);
                        let got = guard(|| imp::impl_decode(*k, &raw, &p.tid).map(|d| d.val));
                        match got {
                            Ok(Ok(g)) if &g == v => ctx.count("typed-readback-equal"),
                            other => ctx.violation(
                                "C03",
                                "readback-typed-value",
                                "AttributeFromRaw::from_raw",
                                k.name(),
                                w,
                                format!("{v:?}"),
                                format!("{other:?}"),
                            ),
                        }
                    }
                }
            }
            // sealed messages validate under the credentials used
            let has_int = p.seals.iter().any(|s| matches!(s, SealSpec::Sha1 | SealSpec::Sha256));
            match (has_int, &val) {
                (true, Ok(_)) => ctx.count("sealed-validates"),
                (false, Err(e)) if e.contains("MissingAttribute") => {}
                (x, y) => ctx.violation(
                    "C04",
                    "sealed-validates",
                    "Message::validate_integrity",
                    &format!("seals={}{via}", p.seals.iter().map(|s| s.name()).collect::<Vec<_>>().join(",")),
                    w,
                    if x { "Ok".into() } else { "Err(MissingAttribute)".into() },
                    format!("{y:?}"),
                ),
            }
        }
    }
}

/// Two builders of the same shape (class, method, id, attribute types, lengths) whose contents or
/// credentials differ, sealed in lockstep: A gets its first seal, B gets its first seal, A its second ...
/// Each must serialise to the reference bytes of its own program: nothing one builder computed while
/// sealing may show up in the other.
pub fn check_lockstep(ctx: &mut Ctx, p: &Program, rng: &mut crate::prng::Rng) {
    if p.seals.is_empty() {
        return;
    }
    ctx.eval();
    let q = twin_of(p, rng);
    check_lockstep_pair(ctx, p, &q);
}

/// A program of the same shape as `p` (class, method, id, attribute types and lengths, seals) whose
/// raw values and / or credentials differ.
pub fn twin_of(p: &Program, rng: &mut crate::prng::Rng) -> Program {
    let mut q = p.clone();
    let mut differs = false;
    for a in q.attrs.iter_mut() {
        if let AttrSpec::Raw(_, v) = a {
            if !v.is_empty() && rng.chance(2, 3) {
                let k = rng.usize(v.len());
                v[k] ^= 1 + rng.below(255) as u8;
                differs = true;
            }
        }
    }
    if !differs || rng.chance(1, 3) {
        q.creds = match &p.creds {
            RefCreds::Short(pw) => RefCreds::Short(format!("{pw}x")),
            RefCreds::Long(u, r, pw) => RefCreds::Long(u.clone(), r.clone(), format!("{pw}x")),
        };
    }
    q
}

pub fn check_lockstep_pair(ctx: &mut Ctx, p: &Program, q: &Program) {
    let q = q.clone();
    let w = || {
        let mut v = p.to_json();
        v["lockstep_twin"] = q.to_json();
        v
    };
    let r = guard(|| {
        let (oa, ob) = (make_objs(p)?, make_objs(&q)?);
        let mut sp = p.clone();
        sp.seals.clear();
        let mut sq = q.clone();
        sq.seals.clear();
        let mut a = apply_program(&sp, &oa)?;
        let mut b = apply_program(&sq, &ob)?;
        let (ca, cb) = (imp::to_impl_creds(&p.creds), imp::to_impl_creds(&q.creds));
        for s_ in &p.seals {
            for (bld, c) in [(&mut a, &ca), (&mut b, &cb)] {
                match s_ {
                    SealSpec::Sha1 => bld.add_message_integrity(c, stun_types::message::IntegrityAlgorithm::Sha1).map_err(|e| format!("{e:?}"))?,
                    SealSpec::Sha256 => bld.add_message_integrity(c, stun_types::message::IntegrityAlgorithm::Sha256).map_err(|e| format!("{e:?}"))?,
                    SealSpec::Fp => bld.add_fingerprint().map_err(|e| format!("{e:?}"))?,
                }
            }
        }
        Ok::<_, String>((a.build(), b.build()))
    });
    match r {
        Err(pn) => ctx.violation("C03", "build-no-panic", "MessageBuilder", "lockstep", w, "bytes".into(), format!("panic: {} at {}", pn.msg, pn.loc)),
        Ok(Err(e)) => ctx.violation("C03", "in-limit-accepted", "MessageBuilder::add_*", "lockstep", w, "every operation of an in-limit program succeeds".into(), e),
        Ok(Ok((ba, bb))) => {
            for (which, got, prog) in [("first", &ba, p), ("second", &bb, &q)] {
                let want = prog.reference_bytes();
                if *got != want {
                    let first = got.iter().zip(want.iter()).position(|(x, y)| x != y).unwrap_or(got.len().min(want.len()));
                    ctx.violation(
                        "C03",
                        "matches-reference-encoding",
                        "MessageBuilder::build",
                        &format!("two-builders-sealed-in-lockstep,{which}"),
                        w,
                        format!("{} bytes: ..{}", want.len(), hex(&want[first.saturating_sub(8)..want.len().min(first + 40)])),
                        format!("{} bytes: ..{} (first difference at offset {first})", got.len(), hex(&got[first.saturating_sub(8).min(got.len())..got.len().min(first + 40)])),
                    );
                    return;
                }
            }
            ctx.count("lockstep-twins-sealed");
        }
    }
}

/// A program sized so that the total lands near the 16-bit boundary.
fn gen_big_program(rng: &mut crate::prng::Rng) -> Program {
    let target = 65_400 + 4 * rng.usize(39); // <= 65 552
    let p = gen_program(rng, 2, false);
    let seals = p.seals.clone();
    big_program_exact(rng, target, &seals)
}

/// A program whose serialisation is exactly `target` bytes (a multiple of four, <= 65 552) with the
/// given seals: a few small typed attributes, then raw filler.
pub fn big_program_exact(rng: &mut crate::prng::Rng, target: usize, seals: &[SealSpec]) -> Program {
    let mut p = gen_program(rng, 2, false);
    p.seals = seals.to_vec();
    p.attrs.retain(|a| matches!(a, AttrSpec::Typed(..)));
    let seal_len: usize = p.seals.iter().map(|s| match s { SealSpec::Sha1 => 24, SealSpec::Sha256 => 36, SealSpec::Fp => 8 }).sum();
    let base: usize = 20 + p.attrs.iter().map(|a| 4 + (a.wire_value(&p.tid).len() + 3) / 4 * 4).sum::<usize>() + seal_len;
    let mut left = target.saturating_sub(base) & !3usize;
    let mut t = 0xc100u16;
    while left >= 4 {
        let l = (left - 4).min(60_000) & !3usize;
        p.attrs.push(AttrSpec::Raw(t, vec![0x77; l]));
        t += 1;
        left -= 4 + l;
    }
    p
}

pub fn run(ctx: &mut Ctx) {
    let quick = ctx.tier == Tier::Quick;
    let n = ctx.n(1_000_000, 12_000_000);
    let mut rng = ctx.rng("programs", 0);
    for i in 0..n {
        let p = gen_program(&mut rng, 8, i % 16 == 15);
        check_program(ctx, &p);
        if i % 8 == 3 {
            check_lockstep(ctx, &p, &mut rng);
        }
        if i < 3 {
            ctx.sample("program", || p.to_json());
        }
    }
    // raw attribute lengths 0..=763 over every padding residue, each sealing combination
    let mut idx = 0u64;
    let seal_sets: [&[SealSpec]; 8] = [
        &[],
        &[SealSpec::Sha1],
        &[SealSpec::Sha256],
        &[SealSpec::Fp],
        &[SealSpec::Sha1, SealSpec::Sha256],
        &[SealSpec::Sha1, SealSpec::Fp],
        &[SealSpec::Sha256, SealSpec::Fp],
        &[SealSpec::Sha1, SealSpec::Sha256, SealSpec::Fp],
    ];
    for len in 0..=763usize {
        for (si, seals) in seal_sets.iter().enumerate() {
            idx += 1;
            if !ctx.mine(idx) || (quick && (len + si) % 4 != 0 && len > 40) {
                continue;
            }
            let mut r2 = ctx.rng("raw-len", idx);
            let p = Program {
                class: (idx % 4) as u8,
                method: (idx % 0x1000) as u16,
                tid: crate::gen::msg::gen_tid(&mut r2),
                attrs: vec![AttrSpec::Raw(0x7f10, r2.bytes(len)), AttrSpec::Raw(0xff10, r2.bytes(len % 5))],
                seals: seals.to_vec(),
                creds: crate::gen::vals::gen_creds_small(&mut r2),
            };
            check_program(ctx, &p);
            ctx.count("raw-length-sweep");
        }
    }
    // all classes x boundary methods
    for c in 0..4u8 {
        for m in [0u16, 1, 2, 0xf, 0x10, 0x7f, 0x80, 0xff, 0x100, 0x7ff, 0x800, 0xffe, 0xfff] {
            idx += 1;
            if ctx.mine(idx) {
                let p = Program { class: c, method: m, tid: [0xab; 12], attrs: vec![], seals: vec![SealSpec::Fp], creds: RefCreds::Short("x".into()) };
                check_program(ctx, &p);
            }
        }
    }
    // totals near the 16-bit boundary
    let nb = ctx.n(800, 8_000);
    for _ in 0..nb {
        let p = gen_big_program(&mut rng);
        check_program(ctx, &p);
        ctx.count("near-64k-programs");
    }
    // every total 65 500..=65 552 x every sealing set: the last attributes straddle offset 65 536
    {
        let mut gi = 0u64;
        for total in (65_500..=65_552usize).step_by(4) {
            for seals in seal_sets.iter() {
                gi += 1;
                if !ctx.mine(gi) {
                    continue;
                }
                let mut r2 = ctx.rng("exact-64k", gi);
                let p = big_program_exact(&mut r2, total, seals);
                check_program(ctx, &p);
                ctx.count("exact-64k-boundary-programs");
            }
        }
    }
    // many attributes: counts around the 8- and 16-bit boundaries (255 / 256 / 257 / 1000 / 4097 tiny raw
    // attributes), every sealing set
    {
        let mut gi = 0u64;
        for count in [255usize, 256, 257, 300, 1000, 4097] {
            for seals in seal_sets.iter() {
                gi += 1;
                if !ctx.mine(gi) || (quick && count > 1000 && seals.len() != 3) {
                    continue;
                }
                let mut r2 = ctx.rng("many-attrs", gi);
                let p = Program {
                    class: (gi % 4) as u8,
                    method: (gi * 97 % 0x1000) as u16,
                    tid: crate::gen::msg::gen_tid(&mut r2),
                    attrs: (0..count).map(|i| AttrSpec::Raw(0x4000 + i as u16, vec![i as u8; i % 6])).collect(),
                    seals: seals.to_vec(),
                    creds: RefCreds::Short("many".into()),
                };
                check_program(ctx, &p);
                super::c12::check_builder_paths(ctx, &p, false);
                ctx.count("many-attribute-programs");
            }
        }
    }
    ctx.require("many-attribute-programs", 16);
    ctx.require("typed-readback-equal", 10_000);
    ctx.require("typed-lookup-readback-equal", 10_000);
    ctx.require("lockstep-twins-sealed", 5_000);
    ctx.require("sealed-validates", 5_000);
    ctx.require("seals:sha1+sha256+fingerprint", 500);
    ctx.require("programs-over-16-attributes", 200);
    ctx.require("near-64k-programs", 50);
    ctx.require("raw-length-sweep", 500);
}

pub fn replay(ctx: &mut Ctx, w: &Value) -> Result<(), String> {
    let p = Program::from_json(w).ok_or("bad program")?;
    if let Some(q) = w.get("lockstep_twin").and_then(Program::from_json) {
        check_lockstep_pair(ctx, &p, &q);
        return Ok(());
    }
    check_program(ctx, &p);
    Ok(())
}
