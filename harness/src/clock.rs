//! Counters fed by the clock interposers defined in the *binary* crate (src/main.rs).
use std::sync::atomic::{AtomicBool, AtomicU64, Ordering};

pub static CLOCK_READS_ARMED: AtomicU64 = AtomicU64::new(0);
pub static CLOCK_READS_TOTAL: AtomicU64 = AtomicU64::new(0);
pub static ARMED: AtomicBool = AtomicBool::new(false);
thread_local! {
    /// per-thread arming so that concurrent replays on other threads do not pollute each other
    pub static T_ARMED: std::cell::Cell<bool> = const { std::cell::Cell::new(false) };
    pub static T_READS: std::cell::Cell<u64> = const { std::cell::Cell::new(0) };
}

#[inline]
pub fn on_clock_read() {
    CLOCK_READS_TOTAL.fetch_add(1, Ordering::Relaxed);
    if ARMED.load(Ordering::Relaxed) {
        CLOCK_READS_ARMED.fetch_add(1, Ordering::Relaxed);
    }
    // `try_with`: the interposer can run during thread teardown
    let _ = T_ARMED.try_with(|a| {
        if a.get() {
            let _ = T_READS.try_with(|r| r.set(r.get() + 1));
        }
    });
}

pub static ENV_READS_TOTAL: AtomicU64 = AtomicU64::new(0);

/// An environment-variable read (getenv interposer): counted like a clock read while armed.
#[inline]
pub fn on_env_read() {
    ENV_READS_TOTAL.fetch_add(1, Ordering::Relaxed);
    let _ = T_ARMED.try_with(|a| {
        if a.get() {
            let _ = T_READS.try_with(|r| r.set(r.get() + 1));
        }
    });
}

/// Is the getenv interposer live?  (`std::env::var_os` must be seen.)
pub fn probe_env() -> bool {
    let (_, n) = trapped(|| std::env::var_os("STUNMON_PROBE_ENV"));
    n > 0
}

/// Run `f` with the calling thread's clock trap armed; returns (result, clock reads seen).
pub fn trapped<T>(f: impl FnOnce() -> T) -> (T, u64) {
    let before = T_READS.with(|r| r.get());
    T_ARMED.with(|a| a.set(true));
    let v = f();
    T_ARMED.with(|a| a.set(false));
    let after = T_READS.with(|r| r.get());
    (v, after - before)
}

/// Is the interposer live in this process?  (`Instant::now()` must be seen.)
pub fn probe() -> bool {
    let (_, n) = trapped(std::time::Instant::now);
    n > 0
}
