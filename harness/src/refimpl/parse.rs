//! Reference STUN decoder (DESIGN.md appendix A), exposure rule (C10) and integrity validation
//! (RFC 8489 §14.5/14.6, §9).  Independent of /repo: raw byte arithmetic only.

use super::crypto::{crc32_fast, hmac_sha1, hmac_sha256, md5};

pub const MI: u16 = 0x0008;
pub const MI256: u16 = 0x001C;
pub const FP: u16 = 0x8028;
pub const COOKIE: [u8; 4] = [0x21, 0x12, 0xA4, 0x42];
pub const FP_XOR: u32 = 0x5354_554e;

#[derive(Clone, Debug, PartialEq, Eq)]
pub struct RefAttr {
    pub ty: u16,
    /// offset of the attribute header in the buffer
    pub off: usize,
    /// declared value length
    pub len: usize,
}

impl RefAttr {
    pub fn value<'a>(&self, b: &'a [u8]) -> &'a [u8] {
        &b[self.off + 4..self.off + 4 + self.len]
    }
    pub fn padded_end(&self) -> usize {
        self.off + 4 + self.len + (4 - self.len % 4) % 4
    }
}

#[derive(Clone, Debug, PartialEq, Eq)]
pub enum Cause {
    NotStun,
    /// `actual` must be reported exactly; `expected` anywhere in `exp_lo..=exp_hi`
    Truncated { exp_lo: usize, exp_hi: usize, actual: usize },
    AfterIntegrity(u16),
    AfterFingerprint(u16),
    FingerprintMismatch,
    /// FINGERPRINT whose value is not 4 bytes: any error variant is acceptable
    MalformedFingerprint,
}

#[derive(Clone, Debug)]
pub struct RefParse {
    pub causes: Vec<Cause>,
    pub class: u8,
    pub method: u16,
    pub tid: [u8; 12],
    pub declared: usize,
    /// 20 + declared length
    pub end: usize,
    /// bytes beyond `end` in the caller's buffer
    pub excess: usize,
    /// attributes walked inside the declared length (complete only if no structural cause)
    pub attrs: Vec<RefAttr>,
}

impl RefParse {
    pub fn accepted(&self) -> bool {
        self.causes.is_empty()
    }
}

pub fn class_of(t: u16) -> u8 {
    (((t >> 4) & 1) | ((t >> 7) & 2)) as u8
}
pub fn method_of(t: u16) -> u16 {
    (t & 0x000f) | ((t & 0x00e0) >> 1) | ((t & 0x3e00) >> 2)
}
pub fn type_field(class: u8, method: u16) -> u16 {
    let c = class as u16;
    (method & 0x000f) | ((method & 0x0070) << 1) | ((method & 0x0f80) << 2) | ((c & 1) << 4) | ((c & 2) << 7)
}

fn be16(b: &[u8], o: usize) -> usize {
    ((b[o] as usize) << 8) | b[o + 1] as usize
}

/// CRC input for a FINGERPRINT whose header is at `off`: the message up to the attribute with the
/// length field covering the attribute.
pub fn fingerprint_value(b: &[u8], off: usize) -> u32 {
    let mut v = b[..off].to_vec();
    let l = (off + 8 - 20) as u16;
    v[2] = (l >> 8) as u8;
    v[3] = l as u8;
    crc32_fast(&v) ^ FP_XOR
}

pub fn ref_parse(b: &[u8]) -> RefParse {
    let n = b.len();
    let mut r = RefParse {
        causes: vec![],
        class: 0,
        method: 0,
        tid: [0; 12],
        declared: 0,
        end: 0,
        excess: 0,
        attrs: vec![],
    };
    if n < 20 {
        r.causes.push(Cause::Truncated { exp_lo: 20, exp_hi: 20, actual: n });
    }
    if n >= 1 && b[0] & 0xC0 != 0 {
        r.causes.push(Cause::NotStun);
    }
    if n >= 8 && b[4..8] != COOKIE {
        r.causes.push(Cause::NotStun);
    }
    if !r.causes.is_empty() {
        return r;
    }
    let t = be16(b, 0) as u16;
    r.class = class_of(t);
    r.method = method_of(t);
    r.tid.copy_from_slice(&b[8..20]);
    r.declared = be16(b, 2);
    r.end = 20 + r.declared;
    if r.end > n {
        r.causes.push(Cause::Truncated { exp_lo: r.end, exp_hi: r.end, actual: n });
        return r;
    }
    r.excess = n - r.end;
    let end = r.end;
    let mut off = 20;
    let mut ints: Vec<u16> = vec![];
    let mut fp_seen = false;
    while off < end {
        let rem = end - off;
        if rem < 4 {
            r.causes.push(Cause::Truncated { exp_lo: end + 1, exp_hi: off + 8, actual: end });
            break;
        }
        let ty = be16(b, off) as u16;
        let l = be16(b, off + 2);
        let pad = (4 - l % 4) % 4;
        let order = order_cause(fp_seen, &ints, ty);
        if 4 + l > rem || 4 + l + pad > rem {
            // structural defect (value or padding overruns the body).  If the attribute is also
            // out of order an implementation may name either defect: both are true of the buffer.
            if let Some(c) = order {
                r.causes.push(c);
            }
            r.causes.push(Cause::Truncated { exp_lo: end + 1, exp_hi: off + 4 + l + pad, actual: end });
            break;
        }
        if let Some(c) = order {
            r.causes.push(c);
        }
        if ty == FP {
            if l != 4 {
                r.causes.push(Cause::MalformedFingerprint);
            } else {
                let want = fingerprint_value(b, off);
                let got = u32::from_be_bytes([b[off + 4], b[off + 5], b[off + 6], b[off + 7]]);
                if want != got {
                    r.causes.push(Cause::FingerprintMismatch);
                }
            }
            fp_seen = true;
        }
        if ty == MI || ty == MI256 {
            ints.push(ty);
        }
        r.attrs.push(RefAttr { ty, off, len: l });
        off += 4 + l + pad;
    }
    r
}

fn order_cause(fp_seen: bool, ints: &[u16], ty: u16) -> Option<Cause> {
    if fp_seen {
        Some(Cause::AfterFingerprint(ty))
    } else if !ints.is_empty() && (!(ty == MI || ty == MI256 || ty == FP) || ints.contains(&ty)) {
        Some(Cause::AfterIntegrity(ty))
    } else {
        None
    }
}

/// C10 exposure rule over the attributes of an accepted message: indices into `attrs`.
pub fn expose(attrs: &[RefAttr]) -> Vec<usize> {
    let first = attrs.iter().position(|a| a.ty == MI || a.ty == MI256);
    let Some(i) = first else {
        return (0..attrs.len()).collect();
    };
    let mut out: Vec<usize> = (0..=i).collect();
    if attrs[i].ty == MI && i + 1 < attrs.len() && attrs[i + 1].ty == MI256 {
        out.push(i + 1);
    }
    if let Some(f) = attrs.iter().position(|a| a.ty == FP) {
        if f > i && !out.contains(&f) {
            out.push(f);
        }
    }
    out
}

// ---------------------------------------------------------------------------------------------
// credentials and integrity

#[derive(Clone, Debug, PartialEq, Eq)]
pub enum RefCreds {
    Short(String),
    /// user, realm, password
    Long(String, String, String),
}

impl RefCreds {
    pub fn key(&self) -> Vec<u8> {
        match self {
            RefCreds::Short(p) => p.as_bytes().to_vec(),
            RefCreds::Long(u, r, p) => {
                let mut d = Vec::new();
                d.extend_from_slice(u.as_bytes());
                d.push(b':');
                d.extend_from_slice(r.as_bytes());
                d.push(b':');
                d.extend_from_slice(p.as_bytes());
                md5(&d).to_vec()
            }
        }
    }
    pub fn to_json(&self) -> serde_json::Value {
        match self {
            RefCreds::Short(p) => serde_json::json!({"st": p}),
            RefCreds::Long(u, r, p) => serde_json::json!({"lt": [u, r, p]}),
        }
    }
    pub fn from_json(v: &serde_json::Value) -> Option<RefCreds> {
        if let Some(p) = v.get("st").and_then(|x| x.as_str()) {
            return Some(RefCreds::Short(p.to_string()));
        }
        let a = v.get("lt")?.as_array()?;
        Some(RefCreds::Long(
            a.first()?.as_str()?.to_string(),
            a.get(1)?.as_str()?.to_string(),
            a.get(2)?.as_str()?.to_string(),
        ))
    }
}

/// Two keys are the same HMAC key when their block-normalised forms agree (RFC 2104: keys
/// shorter than the 64-byte block are zero-padded, longer ones are hashed first).  "x" and "x\0"
/// are therefore not "another key".
pub fn hmac_equivalent(k1: &[u8], k2: &[u8]) -> bool {
    let norm = |k: &[u8], h: &dyn Fn(&[u8]) -> Vec<u8>| -> Vec<u8> {
        let mut v = if k.len() > 64 { h(k) } else { k.to_vec() };
        v.resize(64, 0);
        v
    };
    let s1 = |d: &[u8]| super::crypto::sha1(d).to_vec();
    let s2 = |d: &[u8]| super::crypto::sha256(d).to_vec();
    norm(k1, &s1) == norm(k2, &s1) || norm(k1, &s2) == norm(k2, &s2)
}

/// HMAC text for an integrity attribute whose header is at `off` with value length `len`.
pub fn integrity_text(b: &[u8], off: usize, len: usize) -> Vec<u8> {
    let mut v = b[..off].to_vec();
    let l = (off + 4 + len - 20) as u16;
    v[2] = (l >> 8) as u8;
    v[3] = l as u8;
    v
}

/// Is the integrity attribute `a` of message `b` correct under `key`?
pub fn integrity_attr_correct(b: &[u8], a: &RefAttr, key: &[u8]) -> bool {
    let text = integrity_text(b, a.off, a.len);
    let val = a.value(b);
    match a.ty {
        MI => a.len == 20 && hmac_sha1(key, &text)[..] == *val,
        MI256 => {
            (16..=32).contains(&a.len) && a.len % 4 == 0 && hmac_sha256(key, &text)[..a.len] == *val
        }
        _ => false,
    }
}

#[derive(Clone, Debug, PartialEq, Eq)]
pub struct RefIntegrity {
    /// (attribute index, type, correct under the key)
    pub attrs: Vec<(usize, u16, bool)>,
}

impl RefIntegrity {
    pub fn none_present(&self) -> bool {
        self.attrs.is_empty()
    }
    pub fn all_correct(&self) -> bool {
        !self.attrs.is_empty() && self.attrs.iter().all(|x| x.2)
    }
    pub fn none_correct(&self) -> bool {
        self.attrs.iter().all(|x| !x.2)
    }
    pub fn correct(&self, ty: u16) -> bool {
        self.attrs.iter().any(|x| x.1 == ty && x.2)
    }
    pub fn present(&self, ty: u16) -> bool {
        self.attrs.iter().any(|x| x.1 == ty)
    }
    /// correctness of the integrity attribute at attribute index `idx`
    pub fn correct_at(&self, idx: usize) -> Option<bool> {
        self.attrs.iter().find(|x| x.0 == idx).map(|x| x.2)
    }
}

/// Index of the last *exposed* integrity attribute (C10 rule): the one RFC 8489 s9 makes
/// authoritative when both are present (MESSAGE-INTEGRITY-SHA256 directly after
/// MESSAGE-INTEGRITY), and the end of the tamper range of C04.
pub fn last_exposed_integrity(attrs: &[RefAttr]) -> Option<usize> {
    expose(attrs).into_iter().rev().find(|i| attrs[*i].ty == MI || attrs[*i].ty == MI256)
}

pub fn ref_integrity(b: &[u8], attrs: &[RefAttr], creds: &RefCreds) -> RefIntegrity {
    let key = creds.key();
    let mut out = vec![];
    for (i, a) in attrs.iter().enumerate() {
        if a.ty == MI || a.ty == MI256 {
            out.push((i, a.ty, integrity_attr_correct(b, a, &key)));
        }
    }
    RefIntegrity { attrs: out }
}

// ---------------------------------------------------------------------------------------------
// reference encoder (never goes through MessageBuilder)

#[derive(Clone, Debug)]
pub struct Tlv {
    pub ty: u16,
    pub value: Vec<u8>,
    /// declared length if different from value.len()
    pub declared: Option<u16>,
    /// padding bytes to use (non-zero padding is legal on the wire)
    pub pad_byte: u8,
}

impl Tlv {
    pub fn new(ty: u16, value: Vec<u8>) -> Tlv {
        Tlv { ty, value, declared: None, pad_byte: 0 }
    }
}

pub fn encode_header(class: u8, method: u16, tid: &[u8; 12], body_len: usize) -> Vec<u8> {
    let mut v = Vec::with_capacity(20 + body_len);
    let t = type_field(class, method);
    v.extend_from_slice(&t.to_be_bytes());
    v.extend_from_slice(&(body_len as u16).to_be_bytes());
    v.extend_from_slice(&COOKIE);
    v.extend_from_slice(tid);
    v
}

pub fn push_tlv(out: &mut Vec<u8>, t: &Tlv) {
    out.extend_from_slice(&t.ty.to_be_bytes());
    let l = t.declared.unwrap_or(t.value.len() as u16);
    out.extend_from_slice(&l.to_be_bytes());
    out.extend_from_slice(&t.value);
    while out.len() % 4 != 0 {
        out.push(t.pad_byte);
    }
}

pub fn set_len(b: &mut [u8], body_len: usize) {
    let l = body_len as u16;
    b[2] = (l >> 8) as u8;
    b[3] = l as u8;
}

/// Plain encoding: header + TLVs, length field = actual body length.
pub fn encode(class: u8, method: u16, tid: &[u8; 12], tlvs: &[Tlv]) -> Vec<u8> {
    let mut v = encode_header(class, method, tid, 0);
    for t in tlvs {
        push_tlv(&mut v, t);
    }
    let l = v.len() - 20;
    set_len(&mut v, l);
    v
}

#[derive(Clone, Copy, Debug, PartialEq, Eq)]
pub enum Seal {
    Sha1,
    /// truncated length (16, 20, 24, 28, 32)
    Sha256(usize),
    Fingerprint,
    /// SHA-1 with one bit of the HMAC flipped
    BadSha1,
    BadSha256(usize),
    BadFingerprint,
    /// an integrity attribute of the given type whose value has an impossible length (the genuine
    /// HMAC cut or zero-extended to `len` bytes): accepted by the parser, never valid
    OddLen(u16, usize),
}

/// Append a sealing attribute computed by the reference over the current buffer; fixes the length.
pub fn seal(b: &mut Vec<u8>, s: Seal, key: &[u8]) {
    let off = b.len();
    match s {
        Seal::Sha1 | Seal::BadSha1 => {
            let text = integrity_text_for_append(b, 20);
            let mut h = hmac_sha1(key, &text).to_vec();
            if s == Seal::BadSha1 {
                h[7] ^= 0x10;
            }
            push_tlv(b, &Tlv::new(MI, h));
        }
        Seal::Sha256(n) | Seal::BadSha256(n) => {
            let text = integrity_text_for_append(b, n);
            let mut h = hmac_sha256(key, &text)[..n].to_vec();
            if matches!(s, Seal::BadSha256(_)) {
                h[3] ^= 0x01;
            }
            push_tlv(b, &Tlv::new(MI256, h));
        }
        Seal::OddLen(ty, n) => {
            let text = integrity_text_for_append(b, n);
            let mut h = if ty == MI { hmac_sha1(key, &text).to_vec() } else { hmac_sha256(key, &text).to_vec() };
            h.resize(n, 0);
            push_tlv(b, &Tlv::new(ty, h));
        }
        Seal::Fingerprint | Seal::BadFingerprint => {
            let mut tmp = b.clone();
            set_len(&mut tmp, off + 8 - 20);
            let mut c = crc32_fast(&tmp) ^ FP_XOR;
            if s == Seal::BadFingerprint {
                c ^= 0x0000_0400;
            }
            push_tlv(b, &Tlv::new(FP, c.to_be_bytes().to_vec()));
        }
    }
    let l = b.len() - 20;
    set_len(b, l);
}

fn integrity_text_for_append(b: &[u8], vlen: usize) -> Vec<u8> {
    let mut v = b.to_vec();
    let l = b.len() + 4 + vlen - 20;
    set_len(&mut v, l);
    v
}
