//! Reference codecs for the 19 built-in attribute types, written from RFC 8489 §14 and
//! RFC 8445 §7.1 / §16.1.  Values are plain data (`RefVal`), independent of the crate's types.

#[derive(Clone, Copy, Debug, PartialEq, Eq, Hash, PartialOrd, Ord)]
pub enum Kind {
    Username,
    MessageIntegrity,
    ErrorCode,
    UnknownAttributes,
    Realm,
    Nonce,
    MessageIntegritySha256,
    PasswordAlgorithm,
    Userhash,
    XorMappedAddress,
    PasswordAlgorithms,
    AlternateDomain,
    Software,
    AlternateServer,
    Fingerprint,
    Priority,
    UseCandidate,
    IceControlled,
    IceControlling,
}

pub const ALL_KINDS: [Kind; 19] = [
    Kind::Username,
    Kind::MessageIntegrity,
    Kind::ErrorCode,
    Kind::UnknownAttributes,
    Kind::Realm,
    Kind::Nonce,
    Kind::MessageIntegritySha256,
    Kind::PasswordAlgorithm,
    Kind::Userhash,
    Kind::XorMappedAddress,
    Kind::PasswordAlgorithms,
    Kind::AlternateDomain,
    Kind::Software,
    Kind::AlternateServer,
    Kind::Fingerprint,
    Kind::Priority,
    Kind::UseCandidate,
    Kind::IceControlled,
    Kind::IceControlling,
];

/// The 16 kinds that may be added to a builder through `add_attribute`.
pub fn ordinary_kinds() -> Vec<Kind> {
    ALL_KINDS
        .iter()
        .copied()
        .filter(|k| !matches!(k, Kind::MessageIntegrity | Kind::MessageIntegritySha256 | Kind::Fingerprint))
        .collect()
}

impl Kind {
    /// IANA / RFC type code (not taken from the crate)
    pub fn code(self) -> u16 {
        match self {
            Kind::Username => 0x0006,
            Kind::MessageIntegrity => 0x0008,
            Kind::ErrorCode => 0x0009,
            Kind::UnknownAttributes => 0x000A,
            Kind::Realm => 0x0014,
            Kind::Nonce => 0x0015,
            Kind::MessageIntegritySha256 => 0x001C,
            Kind::PasswordAlgorithm => 0x001D,
            Kind::Userhash => 0x001E,
            Kind::XorMappedAddress => 0x0020,
            Kind::PasswordAlgorithms => 0x8002,
            Kind::AlternateDomain => 0x8003,
            Kind::Software => 0x8022,
            Kind::AlternateServer => 0x8023,
            Kind::Fingerprint => 0x8028,
            Kind::Priority => 0x0024,
            Kind::UseCandidate => 0x0025,
            Kind::IceControlled => 0x8029,
            Kind::IceControlling => 0x802A,
        }
    }
    pub fn name(self) -> &'static str {
        match self {
            Kind::Username => "USERNAME",
            Kind::MessageIntegrity => "MESSAGE-INTEGRITY",
            Kind::ErrorCode => "ERROR-CODE",
            Kind::UnknownAttributes => "UNKNOWN-ATTRIBUTES",
            Kind::Realm => "REALM",
            Kind::Nonce => "NONCE",
            Kind::MessageIntegritySha256 => "MESSAGE-INTEGRITY-SHA256",
            Kind::PasswordAlgorithm => "PASSWORD-ALGORITHM",
            Kind::Userhash => "USERHASH",
            Kind::XorMappedAddress => "XOR-MAPPED-ADDRESS",
            Kind::PasswordAlgorithms => "PASSWORD-ALGORITHMS",
            Kind::AlternateDomain => "ALTERNATE-DOMAIN",
            Kind::Software => "SOFTWARE",
            Kind::AlternateServer => "ALTERNATE-SERVER",
            Kind::Fingerprint => "FINGERPRINT",
            Kind::Priority => "PRIORITY",
            Kind::UseCandidate => "USE-CANDIDATE",
            Kind::IceControlled => "ICE-CONTROLLED",
            Kind::IceControlling => "ICE-CONTROLLING",
        }
    }
    pub fn from_code(c: u16) -> Option<Kind> {
        ALL_KINDS.iter().copied().find(|k| k.code() == c)
    }
    pub fn from_name(n: &str) -> Option<Kind> {
        ALL_KINDS.iter().copied().find(|k| k.name() == n)
    }
    /// maximum byte length of a text value, if the kind is a text kind
    pub fn text_limit(self) -> Option<usize> {
        match self {
            Kind::Username => Some(513),
            Kind::Realm | Kind::Nonce | Kind::Software => Some(763),
            // the crate documents a deliberate leniency (FIXME) for ALTERNATE-DOMAIN: no limit
            // the crate documents "no limit" (FIXME in alternate.rs): lenient at every length, also for
            // in-memory raw attributes larger than the 16-bit wire maximum
            Kind::AlternateDomain => Some(usize::MAX),
            _ => None,
        }
    }
}

#[derive(Clone, Debug, PartialEq, Eq)]
pub struct RefAddr {
    pub v6: bool,
    /// IPv4 uses ip[0..4]
    pub ip: [u8; 16],
    pub port: u16,
}

impl RefAddr {
    pub fn to_std(&self) -> std::net::SocketAddr {
        if self.v6 {
            std::net::SocketAddr::new(std::net::IpAddr::V6(std::net::Ipv6Addr::from(self.ip)), self.port)
        } else {
            std::net::SocketAddr::new(
                std::net::IpAddr::V4(std::net::Ipv4Addr::new(self.ip[0], self.ip[1], self.ip[2], self.ip[3])),
                self.port,
            )
        }
    }
    pub fn from_std(a: &std::net::SocketAddr) -> RefAddr {
        match a {
            std::net::SocketAddr::V4(a) => {
                let mut ip = [0u8; 16];
                ip[..4].copy_from_slice(&a.ip().octets());
                RefAddr { v6: false, ip, port: a.port() }
            }
            std::net::SocketAddr::V6(a) => RefAddr { v6: true, ip: a.ip().octets(), port: a.port() },
        }
    }
    /// RFC 8489 §14.2 transform (an involution): port ^ cookie[0..2], ip ^ cookie || tid
    pub fn xor(&self, tid: &[u8; 12]) -> RefAddr {
        let mut pad = [0u8; 16];
        pad[..4].copy_from_slice(&[0x21, 0x12, 0xA4, 0x42]);
        pad[4..].copy_from_slice(tid);
        let mut ip = [0u8; 16];
        let n = if self.v6 { 16 } else { 4 };
        for i in 0..n {
            ip[i] = self.ip[i] ^ pad[i];
        }
        RefAddr { v6: self.v6, ip, port: self.port ^ 0x2112 }
    }
    pub fn to_json(&self) -> serde_json::Value {
        serde_json::json!({"v6": self.v6, "ip": super::crypto::hex(&self.ip[..if self.v6 {16} else {4}]), "port": self.port})
    }
    pub fn from_json(v: &serde_json::Value) -> Option<RefAddr> {
        let v6 = v.get("v6")?.as_bool()?;
        let b = super::crypto::unhex(v.get("ip")?.as_str()?)?;
        let mut ip = [0u8; 16];
        if b.len() != if v6 { 16 } else { 4 } {
            return None;
        }
        ip[..b.len()].copy_from_slice(&b);
        Some(RefAddr { v6, ip, port: v.get("port")?.as_u64()? as u16 })
    }
}

#[derive(Clone, Debug, PartialEq, Eq)]
pub enum RefVal {
    Text(String),
    Bytes(Vec<u8>),
    U32(u32),
    U64(u64),
    Empty,
    Error { code: u16, reason: String },
    TypeList(Vec<u16>),
    /// plain address (ALTERNATE-SERVER) or, for XOR-MAPPED-ADDRESS, the *un-xored* address
    Addr(RefAddr),
    Algo(u16),
    Algos(Vec<u16>),
}

fn be16(b: &[u8], o: usize) -> u16 {
    ((b[o] as u16) << 8) | b[o + 1] as u16
}

fn decode_addr(v: &[u8]) -> Option<RefAddr> {
    if v.len() < 4 {
        return None;
    }
    let port = be16(v, 2);
    match v[1] {
        1 if v.len() == 8 => {
            let mut ip = [0u8; 16];
            ip[..4].copy_from_slice(&v[4..8]);
            Some(RefAddr { v6: false, ip, port })
        }
        2 if v.len() == 20 => {
            let mut ip = [0u8; 16];
            ip.copy_from_slice(&v[4..20]);
            Some(RefAddr { v6: true, ip, port })
        }
        _ => None,
    }
}

fn encode_addr(a: &RefAddr) -> Vec<u8> {
    let mut v = vec![0u8, if a.v6 { 2 } else { 1 }];
    v.extend_from_slice(&a.port.to_be_bytes());
    v.extend_from_slice(&a.ip[..if a.v6 { 16 } else { 4 }]);
    v
}

fn decode_algos(v: &[u8], exactly_one: bool) -> Option<Vec<u16>> {
    if v.len() < 4 || v.len() % 4 != 0 {
        return None;
    }
    let mut out = vec![];
    let mut i = 0;
    while i < v.len() {
        let alg = be16(v, i);
        let plen = be16(v, i + 2);
        // only MD5 (1) and SHA-256 (2) are defined, both with empty parameters
        if plen != 0 || !(alg == 1 || alg == 2) {
            return None;
        }
        out.push(alg);
        i += 4;
    }
    if exactly_one && out.len() != 1 {
        return None;
    }
    Some(out)
}

/// Decode value bytes `v` for `kind`; `tid` is used by XOR-MAPPED-ADDRESS only.
/// `None` = the RFCs do not allow this encoding.
pub fn ref_decode(kind: Kind, v: &[u8], tid: &[u8; 12]) -> Option<RefVal> {
    match kind {
        Kind::Username | Kind::Realm | Kind::Nonce | Kind::Software | Kind::AlternateDomain => {
            if v.len() > kind.text_limit().unwrap() {
                return None;
            }
            std::str::from_utf8(v).ok().map(|s| RefVal::Text(s.to_string()))
        }
        Kind::MessageIntegrity => (v.len() == 20).then(|| RefVal::Bytes(v.to_vec())),
        Kind::MessageIntegritySha256 => {
            ((16..=32).contains(&v.len()) && v.len() % 4 == 0).then(|| RefVal::Bytes(v.to_vec()))
        }
        Kind::Userhash => (v.len() == 32).then(|| RefVal::Bytes(v.to_vec())),
        Kind::Fingerprint => {
            // the typed value is the CRC, i.e. the wire value with the XOR removed
            (v.len() == 4).then(|| RefVal::Bytes(vec![v[0] ^ 0x53, v[1] ^ 0x54, v[2] ^ 0x55, v[3] ^ 0x4e]))
        }
        Kind::Priority => (v.len() == 4).then(|| RefVal::U32(u32::from_be_bytes([v[0], v[1], v[2], v[3]]))),
        Kind::UseCandidate => v.is_empty().then_some(RefVal::Empty),
        Kind::IceControlled | Kind::IceControlling => (v.len() == 8).then(|| {
            let mut b = [0u8; 8];
            b.copy_from_slice(v);
            RefVal::U64(u64::from_be_bytes(b))
        }),
        Kind::ErrorCode => {
            if v.len() < 4 || v.len() > 763 + 4 {
                return None;
            }
            let class = (v[2] & 0x07) as u16;
            let number = v[3] as u16;
            if !(3..=6).contains(&class) || number > 99 {
                return None;
            }
            let reason = std::str::from_utf8(&v[4..]).ok()?;
            Some(RefVal::Error { code: class * 100 + number, reason: reason.to_string() })
        }
        Kind::UnknownAttributes => {
            if v.len() % 2 != 0 {
                return None;
            }
            Some(RefVal::TypeList(v.chunks(2).map(|c| be16(c, 0)).collect()))
        }
        Kind::AlternateServer => decode_addr(v).map(RefVal::Addr),
        Kind::XorMappedAddress => decode_addr(v).map(|a| RefVal::Addr(a.xor(tid))),
        Kind::PasswordAlgorithm => decode_algos(v, true).map(|a| RefVal::Algo(a[0])),
        Kind::PasswordAlgorithms => decode_algos(v, false).map(RefVal::Algos),
    }
}

/// RFC wire value for `val`.  `None` if `val` is not a value of `kind`.
pub fn ref_encode(kind: Kind, val: &RefVal, tid: &[u8; 12]) -> Option<Vec<u8>> {
    Some(match (kind, val) {
        (
            Kind::Username | Kind::Realm | Kind::Nonce | Kind::Software | Kind::AlternateDomain,
            RefVal::Text(s),
        ) => s.as_bytes().to_vec(),
        (Kind::MessageIntegrity | Kind::MessageIntegritySha256 | Kind::Userhash, RefVal::Bytes(b)) => b.clone(),
        (Kind::Fingerprint, RefVal::Bytes(b)) if b.len() == 4 => {
            vec![b[0] ^ 0x53, b[1] ^ 0x54, b[2] ^ 0x55, b[3] ^ 0x4e]
        }
        (Kind::Priority, RefVal::U32(x)) => x.to_be_bytes().to_vec(),
        (Kind::UseCandidate, RefVal::Empty) => vec![],
        (Kind::IceControlled | Kind::IceControlling, RefVal::U64(x)) => x.to_be_bytes().to_vec(),
        (Kind::ErrorCode, RefVal::Error { code, reason }) => {
            let mut v = vec![0, 0, (code / 100) as u8, (code % 100) as u8];
            v.extend_from_slice(reason.as_bytes());
            v
        }
        (Kind::UnknownAttributes, RefVal::TypeList(l)) => l.iter().flat_map(|t| t.to_be_bytes()).collect(),
        (Kind::AlternateServer, RefVal::Addr(a)) => encode_addr(a),
        (Kind::XorMappedAddress, RefVal::Addr(a)) => encode_addr(&a.xor(tid)),
        (Kind::PasswordAlgorithm, RefVal::Algo(a)) => {
            let mut v = a.to_be_bytes().to_vec();
            v.extend_from_slice(&[0, 0]);
            v
        }
        (Kind::PasswordAlgorithms, RefVal::Algos(l)) => {
            l.iter().flat_map(|a| [(a >> 8) as u8, *a as u8, 0, 0]).collect()
        }
        _ => return None,
    })
}

impl RefVal {
    pub fn to_json(&self) -> serde_json::Value {
        use serde_json::json;
        match self {
            RefVal::Text(s) => json!({"text": s}),
            RefVal::Bytes(b) => json!({"bytes": super::crypto::hex(b)}),
            RefVal::U32(x) => json!({"u32": x}),
            RefVal::U64(x) => json!({"u64": x.to_string()}),
            RefVal::Empty => json!({"empty": true}),
            RefVal::Error { code, reason } => json!({"code": code, "reason": reason}),
            RefVal::TypeList(l) => json!({"types": l}),
            RefVal::Addr(a) => json!({"addr": a.to_json()}),
            RefVal::Algo(a) => json!({"algo": a}),
            RefVal::Algos(l) => json!({"algos": l}),
        }
    }
    pub fn from_json(v: &serde_json::Value) -> Option<RefVal> {
        if let Some(s) = v.get("text") {
            return Some(RefVal::Text(s.as_str()?.to_string()));
        }
        if let Some(s) = v.get("bytes") {
            return Some(RefVal::Bytes(super::crypto::unhex(s.as_str()?)?));
        }
        if let Some(s) = v.get("u32") {
            return Some(RefVal::U32(s.as_u64()? as u32));
        }
        if let Some(s) = v.get("u64") {
            return Some(RefVal::U64(s.as_str()?.parse().ok()?));
        }
        if v.get("empty").is_some() {
            return Some(RefVal::Empty);
        }
        if let Some(c) = v.get("code") {
            return Some(RefVal::Error {
                code: c.as_u64()? as u16,
                reason: v.get("reason")?.as_str()?.to_string(),
            });
        }
        if let Some(l) = v.get("types") {
            return Some(RefVal::TypeList(l.as_array()?.iter().filter_map(|x| x.as_u64().map(|x| x as u16)).collect()));
        }
        if let Some(a) = v.get("addr") {
            return Some(RefVal::Addr(RefAddr::from_json(a)?));
        }
        if let Some(a) = v.get("algo") {
            return Some(RefVal::Algo(a.as_u64()? as u16));
        }
        if let Some(l) = v.get("algos") {
            return Some(RefVal::Algos(l.as_array()?.iter().filter_map(|x| x.as_u64().map(|x| x as u16)).collect()));
        }
        None
    }
}
