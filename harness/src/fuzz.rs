//! Entry point shared by the cargo-fuzz target and the `fuzz-witness` sub-command.
//!
//! Input layout: byte 0 selects the credentials, byte 1 the policing sets, the rest is the buffer.

use crate::ctx::{Ctx, Tier};
use crate::mon::codec::{check_buffer, wit_bytes, Opts};
use crate::refimpl::parse::{ref_parse, RefCreds};
use std::cell::RefCell;

thread_local! {
    static CTX: RefCell<Option<Ctx>> = const { RefCell::new(None) };
}

pub fn decode(data: &[u8]) -> (Vec<u8>, Opts) {
    let (sel, buf) = if data.len() >= 2 { (&data[..2], &data[2..]) } else { (&[0u8, 0u8][..], &data[0..0]) };
    let creds = match sel[0] % 4 {
        0 => RefCreds::Short("password".into()),
        1 => RefCreds::Long("user".into(), "realm".into(), "pass".into()),
        2 => RefCreds::Short(String::new()),
        _ => RefCreds::Long("ü:ser".into(), "".into(), "\u{0}".into()),
    };
    // policing only for requests: policing of non-requests is a listed finding exercised (and
    // reported as KNOWN-FINDING) by the plain workload; here it would stop the fuzzer at once
    let rp = ref_parse(buf);
    let police = if rp.causes.is_empty() && rp.class == 0 {
        let mut types: Vec<u16> = rp.attrs.iter().map(|a| a.ty).collect();
        types.dedup();
        match sel[1] % 4 {
            0 => vec![(vec![], vec![])],
            1 => vec![(types.clone(), vec![0x0006])],
            2 => vec![(types.iter().copied().step_by(2).collect(), types.clone())],
            _ => vec![(types, vec![])],
        }
    } else {
        vec![]
    };
    (buf.to_vec(), Opts { creds: vec![creds], police, deep: true, typed: true })
}

pub fn entry(data: &[u8]) {
    if data.len() > 70_002 {
        return;
    }
    let (buf, o) = decode(data);
    CTX.with(|c| {
        let mut c = c.borrow_mut();
        let ctx = c.get_or_insert_with(|| Ctx::new_quiet("C01", Tier::Thorough, 0, 0, 1));
        let before = ctx.violations.len();
        check_buffer(ctx, &buf, &o);
        if ctx.violations.len() > before {
            let v = ctx.violations[before].clone();
            // leave the default panic behaviour to libFuzzer: print and abort
            eprintln!("C01 violation under the fuzzer: {} :: {}", v["signature"], v["observed"]);
            std::process::abort();
        }
    });
}

pub fn witness(data: &[u8]) -> serde_json::Value {
    let (buf, o) = decode(data);
    wit_bytes("fuzz", &buf, &o)
}
