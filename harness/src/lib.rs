//! stunmon — runtime monitors for ystreet/stun-proto (see /verif/DESIGN.md).
#![allow(clippy::too_many_arguments, clippy::type_complexity, clippy::needless_range_loop)]

pub mod clock;
pub mod ctx;
pub mod fuzz;
pub mod gen;
pub mod imp;
pub mod prng;
pub mod refimpl {
    pub mod attrs;
    pub mod crypto;
    pub mod parse;
}
pub mod mon;
pub mod trace_sub;
