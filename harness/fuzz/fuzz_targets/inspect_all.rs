#![no_main]
//! Structure-aware libFuzzer + ASan target for C01: decode, then inspect everything, through the
//! same monitor code as the plain harness (stunmon::fuzz::entry panics on a C01 violation).
use libfuzzer_sys::fuzz_target;

fuzz_target!(|data: &[u8]| {
    stunmon::fuzz::entry(data);
});
