#!/usr/bin/env python3
"""Regenerate /verif/MANIFEST.json from tools/props_meta.py and properties.jsonl."""
import json, os, sys
HERE = os.path.dirname(os.path.dirname(os.path.abspath(__file__)))
sys.path.insert(0, os.path.join(HERE, "tools"))
from props_meta import PROPS
try:
    from props_meta import NOT_APPLICABLE
except ImportError:
    NOT_APPLICABLE = {}
try:
    from props_meta import HOOK_COMMITS
except ImportError:
    HOOK_COMMITS = []

ids = [json.loads(l)["id"] for l in open(os.path.join(HERE, "properties.jsonl"))]
checks = []
for pid in ids:
    if pid not in PROPS:
        continue
    m = PROPS[pid]
    checks.append({
        "property_id": pid,
        "quick_cmd": "./check run %s quick" % pid,
        "thorough_cmd": "./check run %s thorough" % pid,
        "evidence_file": "evidence/%s.json" % pid,
        "replay_cmd_template": "./check replay {path}",
        "engine": m.get("engine", "stunmon"),
        "level_claimed": {"category": m["level"], "text": m["level_text"], "design_ref": m.get("design_ref", "DESIGN.md section 4")},
        "level_note": m["level_note"],
        "technique": m["technique"],
    })
na = []
for pid in ids:
    if pid not in PROPS:
        na.append({"property_id": pid, "reason": NOT_APPLICABLE.get(pid, "check not built yet in this round (planned, see DESIGN.md section 4); not claimed until it runs clean")})
man = {
    "version": 1,
    "setup_cmd": "./check setup",
    "hooks": {
        "guard": "stun_proto_verif",
        "enable": "none needed: every property is observed at the public API; the cfg name is reserved (RUSTFLAGS=\"--cfg stun_proto_verif\") and no source commit uses it",
        "baseline_off_cmd": "cd /repo && (cargo nextest run --workspace --no-fail-fast --test-threads 8 --offline || cargo test --workspace --no-fail-fast --offline)",
        "source_commits": HOOK_COMMITS,
        "add_only": True,
    },
    "engines": [
        {"name": "stunmon", "path": "harness/", "serves_properties": [c["property_id"] for c in checks],
         "kind_free_text": "Rust harness linking /repo's two crates by path: reference-model monitors, fault enumeration, panic capture, watchdog, clock interposer; driven and merged by the python3 driver ./check"},
    ],
    "checks": checks,
    "not_applicable": na,
    "notes": "Exit codes of every command: 0 held (KNOWN-FINDING lines allowed), 1 VIOLATION, 2 INCONCLUSIVE (harness fault, reach threshold missed, build failure). VERIF_SEED selects the random streams; systematic enumerations do not depend on it. VERIF_BUDGET scales case counts.",
}
json.dump(man, open(os.path.join(HERE, "MANIFEST.json"), "w"), indent=1)
print("MANIFEST.json: %d checks, %d not_applicable" % (len(checks), len(na)))
