#!/bin/bash
# import finished sub-agent outputs /tmp/seedgen/<id>/out/<X>/ into /verif/seeded/<id>-<X>/
cd /verif
for d in /tmp/seedgen/C*/out/*; do
  [ -f "$d/patch.diff" ] && [ -f "$d/demo.rs" ] && [ -f "$d/meta.json" ] || continue
  id=$(basename $(dirname $(dirname $d))); x=$(basename $d)
  dst=seeded/$id-$x
  [ -d "$dst" ] && continue
  mkdir -p $dst && cp $d/patch.diff $d/demo.rs $d/meta.json $dst/ && echo imported $dst
done
