#!/usr/bin/env python3
"""Offline checker over recorded StunAgent call histories (DESIGN.md section 11.3).

The agent engine records, for a sample of the histories it runs, every call made on the real
StunAgent together with the reply it gave and the observations taken after the call
(request_transaction / is_validated_peer over the whole universe).  This script re-judges each
recorded history with an independently written model of appendix B (Python, hashlib/hmac for the
integrity decision, its own TLV walker) and compares its verdict per history with the verdict of the
online Rust monitor:

  histories                histories read
  events                   events read
  python_only              Python reports a violation the Rust monitor did not  -> harness fault (inconclusive)
  rust_only                the Rust monitor failed the history, Python sees nothing wrong (informational:
                           the online verdict stands; Rust stops recording at its first failed assertion)
  both                     both report a violation
  completions              {delivered, timed-out, cancelled} counted by the Python model
  conservation_ok          started == delivered + timed-out + cancelled + still-outstanding, per history

Prints one JSON line.
"""
import hashlib
import hmac
import json
import sys

MI, MI256, FP = 0x0008, 0x001C, 0x8028
COOKIE = bytes([0x21, 0x12, 0xA4, 0x42])


class Bad(Exception):
    pass


def walk(b):
    """minimal TLV walk of a well-formed message: (class, tid, attrs[(type, off, len)])"""
    if len(b) < 20 or b[0] & 0xC0 or b[4:8] != COOKIE:
        raise Bad("harness handed a non-STUN buffer to the agent")
    ty = int.from_bytes(b[0:2], "big")
    cls = ((ty >> 4) & 1) | ((ty >> 7) & 2)
    end = 20 + int.from_bytes(b[2:4], "big")
    if len(b) - 20 > 0xFFFF:
        # a message handed to send() with more attribute bytes than the 16-bit length field can express
        # (the builder serialises it, the field wraps): its attributes are what the buffer holds
        end = len(b)
    off, attrs = 20, []
    while off + 4 <= end and end <= len(b):
        t = int.from_bytes(b[off:off + 2], "big")
        l = int.from_bytes(b[off + 2:off + 4], "big")
        attrs.append((t, off, l))
        off += 4 + l + (4 - l % 4) % 4
    return cls, bytes(b[8:20]), attrs


def key_of(cred):
    if "st" in cred:
        return cred["st"].encode("utf-8")
    u, r, p = cred["lt"]
    return hashlib.md5((u + ":" + r + ":" + p).encode("utf-8")).digest()


def attr_correct(b, a, key):
    t, off, l = a
    pre = bytearray(b[:off])
    pre[2:4] = (off + 4 + l - 20).to_bytes(2, "big")
    val = b[off + 4:off + 4 + l]
    if t == MI:
        return l == 20 and hmac.new(key, bytes(pre), hashlib.sha1).digest() == val
    if t == MI256:
        return 16 <= l <= 32 and l % 4 == 0 and hmac.new(key, bytes(pre), hashlib.sha256).digest()[:l] == val
    return False


class Tx:
    __slots__ = ("bytes", "to", "sealed", "k", "last", "iv", "fin", "send_cancelled", "recv_cancelled")

    def due(self):
        """(earliest, latest, action)"""
        if self.recv_cancelled:
            return 0, 0, "cancelled"
        # instants (last, now, WaitUntil) are recorded in microseconds; intervals are whole milliseconds
        if self.k < len(self.iv):
            e = self.last + self.iv[self.k] * 1000
            if self.send_cancelled:
                return e, self.last + (sum(self.iv[self.k:]) + self.fin) * 1000, "quiet"
            return e, e, "retransmit"
        e = self.last + self.fin * 1000
        return e, e, "timedout"


class Model:
    def __init__(self, begin):
        self.tcp = begin["tcp"]
        self.local = begin["local"]
        self.transport = "TCP" if self.tcp else "UDP"
        self.remote = begin.get("remote0")
        self.txs = {}
        self.validated = set()
        self.last_wait = None
        self.started = 0
        self.done = {"delivered": 0, "timed-out": 0, "cancelled": 0}

    def need(self, cond, what):
        if not cond:
            raise Bad(what)

    def check_tx(self, tx, want_bytes, want_to, what):
        self.need(tx["data"] == want_bytes, what + ": transmitted bytes differ from the message handed to send")
        self.need(tx["from"] == self.local and tx["to"] == want_to and tx["transport"] == self.transport, what + ": addressing")

    def step(self, ev):
        op = ev["op"]
        if op == "send":
            self.last_wait = None
            cls, tid, attrs = walk(bytes.fromhex(ev["bytes"]))
            tidh = tid.hex()
            is_req = cls == 0
            if ev["res"] == "ok":
                self.need(not (is_req and tidh in self.txs), "send: duplicate outstanding id accepted")
                self.check_tx(ev["tx"], ev["bytes"], ev["to"], "send")
                if is_req:
                    tx = Tx()
                    tx.bytes, tx.to = ev["bytes"], ev["to"]
                    tx.sealed = any(a[0] in (MI, MI256) for a in attrs)
                    tx.k, tx.last = 0, ev["t"]
                    tx.iv, tx.fin = ([], 39500) if self.tcp else ([500, 1000, 2000, 4000, 8000, 16000], 8000)
                    tx.send_cancelled = tx.recv_cancelled = False
                    self.txs[tidh] = tx
                    self.started += 1
            elif ev["res"] == "inprogress":
                self.need(is_req and tidh in self.txs, "send: AlreadyInProgress for an id that is not outstanding")
            else:
                raise Bad("send: unexpected error " + str(ev["res"]))
        elif op == "poll":
            now = ev["t"]
            must, lo, hi = [], None, None
            for tidh, tx in self.txs.items():
                e, l, act = tx.due()
                if l <= now:
                    must.append((tidh, act))
                lo = e if lo is None else min(lo, e)
                hi = l if hi is None else min(hi, l)
            r = ev["res"]
            if r == "wait":
                w = ev["until"]
                self.need(not must, "poll: WaitUntil although a transaction is due: %s" % (must[:1],))
                if self.txs:
                    lo2 = min(max(lo, now + 1), hi)
                    self.need(lo2 <= w <= hi, "poll: WaitUntil(%d) outside [%d, %d] at %d" % (w, lo2, hi, now))
                    if self.last_wait is not None:
                        self.need(not (now < self.last_wait and w != self.last_wait), "poll: WaitUntil changed when polled early")
                        self.need(now < self.last_wait, "poll: WaitUntil at/after the announced instant")
                    self.last_wait = w
                else:
                    self.last_wait = None
            elif r == "send":
                self.last_wait = None
                data = bytes.fromhex(ev["tx"]["data"])
                self.need(len(data) >= 20, "poll: transmission shorter than a header")
                tidh = data[8:20].hex()
                self.need(tidh in self.txs, "poll: transmission for a transaction that is not outstanding")
                tx = self.txs[tidh]
                e, _l, act = tx.due()
                self.need(act == "retransmit", "poll: transmission while none is scheduled (%s)" % act)
                self.need(e <= now, "poll: retransmission before it is due (%d < %d)" % (now, e))
                self.check_tx(ev["tx"], tx.bytes, tx.to, "poll")
                tx.k += 1
                tx.last = now
            else:
                self.last_wait = None
                tidh = ev["tid"]
                self.need(tidh in self.txs, "poll: completion event for a transaction that is not outstanding")
                tx = self.txs[tidh]
                e, _l, act = tx.due()
                cancelled = r == "cancelled"
                if act == "cancelled":
                    ok = cancelled
                elif act == "timedout":
                    ok = (not cancelled) and e <= now
                elif act == "quiet":
                    ok = e <= now
                else:
                    ok = False
                self.need(ok, "poll: %s at %d not admitted (model: %s due %d)" % (r, now, act, e))
                del self.txs[tidh]
                self.done["cancelled" if cancelled else "timed-out"] += 1
        elif op == "handle":
            b = bytes.fromhex(ev["buf"])
            cls, tid, attrs = walk(b)
            tidh = tid.hex()
            r = ev["res"]
            if cls < 2:
                self.need(r == "incoming" and ev.get("rtid") == tidh and ev.get("rclass") == cls, "handle: request/indication not handed back")
                self.validated.add(ev["from"])
                return
            self.last_wait = None
            tx = self.txs.get(tidh)
            if tx is None:
                self.need(r == "drop", "handle: response for an unknown or finished transaction not dropped")
                return
            if not tx.sealed:
                must_deliver, must_drop = True, False
            elif self.remote is None:
                must_deliver, must_drop = False, True
            else:
                key = key_of(self.remote)
                ints = [a for a in attrs if a[0] in (MI, MI256)]
                oks = [attr_correct(b, a, key) for a in ints]
                must_deliver = bool(oks) and all(oks)
                # the authoritative attribute: MI-SHA256 directly after a first MI, else the first one
                last = None
                if ints:
                    i0 = attrs.index(ints[0])
                    last = ints[0]
                    if ints[0][0] == MI and i0 + 1 < len(attrs) and attrs[i0 + 1][0] == MI256:
                        last = attrs[i0 + 1]
                must_drop = not any(oks) or not attr_correct(b, last, key)
            delivered = r == "response"
            self.need(r in ("response", "drop"), "handle: reply kind")
            if not tx.recv_cancelled:
                self.need(not (delivered and must_drop), "handle: unauthenticated response delivered")
                self.need(not ((not delivered) and must_deliver), "handle: authentic response dropped")
            if delivered:
                self.need(ev.get("rtid") == tidh and ev.get("rclass") == cls, "handle: delivered message is not the one handed in")
                del self.txs[tidh]
                self.validated.add(ev["from"])
                self.done["delivered"] += 1
        elif op in ("cancel", "cancel_retrans"):
            self.last_wait = None
            tx = self.txs.get(ev["tid"])
            self.need(ev["found"] == (tx is not None), op + ": found disagrees with outstanding-ness")
            if tx is not None:
                tx.send_cancelled = True
                if op == "cancel":
                    tx.recv_cancelled = True
        elif op == "configure":
            self.last_wait = None
            tx = self.txs.get(ev["tid"])
            self.need(ev["found"] == (tx is not None), "configure: found disagrees with outstanding-ness")
            if tx is not None:
                # durations are recorded in microseconds; the agent keeps whole milliseconds:
                # interval i = floor(rto * 2^i), TCP total = floor(last + sum)
                iv_us = [ev["rto_us"] << i for i in range(ev["n"])]
                if self.tcp:
                    tx.iv, tx.fin = [], (ev["last_us"] + sum(iv_us)) // 1000
                else:
                    tx.iv, tx.fin = [x // 1000 for x in iv_us], ev["last_us"] // 1000
        elif op == "set_remote":
            self.remote = ev["cred"]
        elif op == "observe":
            got = {t: a for t, a in ev["outstanding"]}
            want = {t: tx.to for t, tx in self.txs.items()}
            self.need(set(got) == set(want), "observe: outstanding set %s != model %s" % (sorted(got), sorted(want)))
            self.need(got == want, "observe: peer_address differs")
            self.need(set(ev["validated"]) == self.validated, "observe: validated peers %s != model %s" % (sorted(ev["validated"]), sorted(self.validated)))
        elif op == "quiescent":
            # after the bounded-progress drain: nothing outstanding, and a poll far in the future gave no event
            self.need(not self.txs, "end: transactions still outstanding after the drain")
            self.need(ev["late_poll"] == "wait", "end: event long after everything completed")
        else:
            raise Bad("unknown op " + op)


def main():
    out = {"histories": 0, "events": 0, "python_only": 0, "rust_only": 0, "both": 0,
           "completions": {"delivered": 0, "timed-out": 0, "cancelled": 0}, "started": 0, "conservation_ok": 0}
    examples = []
    for path in sys.argv[1:]:
        try:
            f = open(path)
        except OSError:
            continue
        model, py_bad, n_ev = None, None, 0
        for line in f:
            line = line.strip()
            if not line:
                continue
            try:
                ev = json.loads(line)
            except Exception:
                continue  # a line cut short by the recording limit
            if ev.get("k") != "agent":
                continue
            out["events"] += 1
            if ev["op"] == "begin":
                model, py_bad, n_ev = Model(ev), None, 0
                continue
            if model is None:
                continue
            if ev["op"] == "end":
                out["histories"] += 1
                rust_bad = bool(ev.get("rust_failed"))
                if py_bad and rust_bad:
                    out["both"] += 1
                elif py_bad:
                    out["python_only"] += 1
                    if len(examples) < 3:
                        examples.append({"python": py_bad, "history_events": n_ev, "file": path.split("/")[-1]})
                elif rust_bad:
                    out["rust_only"] += 1
                if not py_bad:
                    for k, v in model.done.items():
                        out["completions"][k] += v
                    out["started"] += model.started
                    if model.started == sum(model.done.values()) + len(model.txs):
                        out["conservation_ok"] += 1
                model = None
                continue
            n_ev += 1
            if py_bad is None:
                try:
                    model.step(ev)
                except Bad as e:
                    py_bad = "%s (event %d: %s)" % (e, n_ev, json.dumps(ev)[:160])
                except (KeyError, ValueError, TypeError) as e:
                    py_bad = "malformed event %d: %r" % (n_ev, e)
    if examples:
        out["examples"] = examples
    print(json.dumps(out))


if __name__ == "__main__":
    main()
