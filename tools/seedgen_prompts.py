#!/usr/bin/env python3
"""Write the prompt files and scratch worktrees for one round of seeded changes.

  seedgen_prompts.py <X> <Y>     e.g. G H: for every property create /tmp/seedgen/<id>/{wt,out/X,out/Y,prompt.txt}

The prompt holds only the property (text + anchors), the scratch paths, and one-line summaries of
the changes that already exist for that property (so that they are not duplicated) - nothing about
/verif's machinery.  Each prompt is then handed to a fresh sub-agent; tools/import_seeds.sh collects
the results into /verif/seeded/.
"""
import json, os, subprocess, sys
X, Y = sys.argv[1], sys.argv[2]
props = {}
for l in open('/verif/properties.jsonl'):
    p = json.loads(l)
    props[p['id']] = p
for pid, p in props.items():
    d = '/tmp/seedgen/%s' % pid
    os.makedirs(d + '/out/' + X, exist_ok=True)
    os.makedirs(d + '/out/' + Y, exist_ok=True)
    if not os.path.isdir(d + '/wt'):
        subprocess.run(['git', '-C', '/repo', 'worktree', 'add', '-q', '--detach', d + '/wt', 'HEAD'], check=True)
    used = []
    for n in sorted(os.listdir('/verif/seeded')):
        if n.startswith(pid + '-') and not n.endswith('-S'):
            m = json.load(open('/verif/seeded/%s/meta.json' % n))
            used.append(' '.join(m['summary'].split())[:200])
    anchors = p.get('anchors') or {}
    mech = '; '.join('%s (%s)' % (x['name'], x['where']) for x in anchors.get('mechanism', []))
    ul = '\n'.join(' - ' + u for u in used)
    prompt = f"""You are working alone in a scratch git worktree of the Rust repository ystreet/stun-proto at {d}/wt (a Sans-IO STUN implementation: crates `stun-types` = message/attribute codec, `stun-proto` = request/retransmission agent). There is no network: always build and test with `--offline` (e.g. `cargo test --workspace --offline`). Work ONLY inside {d}/ — never read or write /repo, /verif or any other directory.

The following semantic property of the library is supposed to hold for EVERY input / call history:

Property {pid} — {p.get('title','')}
{p.get('statement','')}
Code it is anchored in: files {', '.join(anchors.get('files',[]))}. Mechanisms: {mech}

Your task: produce TWO independent source changes (call them {X} and {Y}) to the library code (not to its tests), each of which BREAKS this property while
 (1) the workspace still compiles,
 (2) the existing test suite, unedited, still passes (`cargo test --workspace --offline`, including doc tests),
 (3) the change looks like something a maintainer could plausibly merge (a refactor, optimisation, 'robustness' tweak, or well-meant bug fix), and
 (4) the breakage needs something SPECIFIC to manifest: a particular multi-step sequence of calls, a particular interleaving of events in time, an unusual or boundary input, a rarely used public entry point or trait method, a large count or size, state carried over from earlier calls, or two cooperating sites that each look fine alone. NOT something that ordinary use or a single obvious call would expose at once.
Be inventive: the changes below already exist, and a tester has already hardened their checks against everything resembling them. Look for a genuinely different angle — a clause of the property nobody has attacked yet, a different public entry point reaching the same code, a dimension of the input space (length, count, order, repetition, timing, value ranges, combinations of features) that the others did not use.
{X} and {Y} must use different mechanisms from each other and from these existing changes (do not duplicate them or trivial variations of them):
{ul}

For each change X in ({X}, {Y}) write into {d}/out/X/ :
 - patch.diff : `git diff` against HEAD, made from the worktree root, that applies cleanly with `git apply` on a clean checkout;
 - demo.rs    : a self-contained Rust integration-test file (uses only the public API of the crate; it will be copied to <crate>/tests/seed_demo.rs) containing one or more #[test] functions that FAIL with the change applied and PASS on the unmodified code;
 - meta.json  : {{"property": "{pid}", "summary": "<what was changed and why it breaks the property>", "needs": "<what is required for the breakage to manifest>", "crate": "stun-types" or "stun-proto" (the crate whose tests/ directory demo.rs belongs in), "ran": "<the commands you ran and what they showed>"}}.
You must verify all of this yourself before finishing: with the patch applied the whole suite passes and the demo fails; without the patch the demo passes. When you are done leave the worktree clean (`git checkout -- .`, delete any test file you added) so that only the files under {d}/out remain. Finish with a three-line report per change."""
    open(d + '/prompt.txt', 'w').write(prompt)
print('prompts written for', len(props), 'properties')
