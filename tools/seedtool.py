#!/usr/bin/env python3
"""Seeded-break bookkeeping (DESIGN.md section 8).

  seedtool.py confirm <dir> [...]   in a scratch worktree of /repo (outside /repo and /verif): the patch
                                    applies, the repository's own suite still passes with it, the
                                    demonstration fails with it and passes without it
  seedtool.py detect <dir> [...]    apply the patch to /repo, run the quick check of the targeted
                                    property (and any extra ones named in meta.json "also"), undo it
  seedtool.py pdetect [--all] [--workers=N] [--frozen] <dir> [...]   (--frozen: from a snapshot of HEAD)
                                    the same detection in scratch copies (worktree of /repo + copy of /verif whose
                                    harness points at it), N seeds in parallel; --all runs every property's check
  seedtool.py table                 print the detection table from the recorded results

<dir> is /verif/seeded/<name>/ holding patch.diff, demo.rs, meta.json.  Results are written back
into meta.json ("confirmed", "detection").
"""
import json
import os
import subprocess
import sys
import time

HERE = os.path.dirname(os.path.dirname(os.path.abspath(__file__)))
REPO = "/repo"
SCRATCH = os.environ.get("STUNMON_SCRATCH", "/tmp/stunmon-seed-confirm")
ENV = dict(os.environ, CARGO_NET_OFFLINE="true")


def sh(cmd, cwd=None, timeout=3600):
    p = subprocess.run(cmd, cwd=cwd, env=ENV, stdout=subprocess.PIPE, stderr=subprocess.STDOUT, text=True, timeout=timeout)
    return p.returncode, p.stdout


def load_meta(d):
    return json.load(open(os.path.join(d, "meta.json")))


def save_meta(d, m):
    json.dump(m, open(os.path.join(d, "meta.json"), "w"), indent=1)


def confirm(d):
    m = load_meta(d)
    patch = os.path.abspath(os.path.join(d, "patch.diff"))
    demo = os.path.abspath(os.path.join(d, "demo.rs"))
    crate = m.get("crate", "stun-types")
    if not os.path.isdir(SCRATCH):
        rc, out = sh(["git", "-C", REPO, "worktree", "add", "-q", "--detach", SCRATCH, "HEAD"])
        if rc != 0:
            print(out)
            return False
    sh(["git", "-C", SCRATCH, "checkout", "-q", "--detach", subprocess.run(["git", "-C", REPO, "rev-parse", "HEAD"], stdout=subprocess.PIPE, text=True).stdout.strip()])
    sh(["git", "-C", SCRATCH, "checkout", "--", "."])
    sh(["git", "-C", SCRATCH, "clean", "-fdq", "-e", "target"])
    res = {"at": time.strftime("%Y-%m-%d %H:%M:%S"), "repo_head": subprocess.run(["git", "-C", REPO, "rev-parse", "--short", "HEAD"], stdout=subprocess.PIPE, text=True).stdout.strip()}
    rc, out = sh(["git", "-C", SCRATCH, "apply", "--check", patch])
    res["applies"] = rc == 0
    if rc != 0:
        res["error"] = out[-400:]
        m["confirmed"] = res
        save_meta(d, m)
        return False
    tdir = os.path.join(SCRATCH, crate, "tests")
    os.makedirs(tdir, exist_ok=True)
    tfile = os.path.join(tdir, "seed_demo.rs")
    # without the patch: the demonstration passes
    open(tfile, "w").write(open(demo).read())
    demo_cmd = ["cargo", "test", "-p", crate, "--test", "seed_demo", "--offline"]
    if m.get("demo_runner") == "miri":
        # sanitizer-layer seeds: behaviour is unchanged natively, the demonstration runs under Miri
        demo_cmd = ["cargo", "+nightly", "miri", "test", "-p", crate, "--test", "seed_demo", "--offline"]
    rc, out = sh(demo_cmd, cwd=SCRATCH)
    res["demo_passes_without_patch"] = rc == 0
    # with the patch: the suite still passes, the demonstration fails
    sh(["git", "-C", SCRATCH, "apply", patch])
    rc, out = sh(demo_cmd, cwd=SCRATCH)
    res["demo_fails_with_patch"] = rc != 0
    os.remove(tfile)
    rc, out = sh(["cargo", "test", "--workspace", "--offline"], cwd=SCRATCH)
    res["suite_passes_with_patch"] = rc == 0
    if rc != 0:
        res["suite_output"] = out[-600:]
    sh(["git", "-C", SCRATCH, "checkout", "--", "."])
    sh(["git", "-C", SCRATCH, "clean", "-fdq", "-e", "target"])
    res["ok"] = all(res.get(k) for k in ("applies", "demo_passes_without_patch", "demo_fails_with_patch", "suite_passes_with_patch"))
    m["confirmed"] = res
    save_meta(d, m)
    print("%-28s confirm: %s" % (os.path.basename(d.rstrip("/")), json.dumps({k: v for k, v in res.items() if k not in ("at", "suite_output")})))
    return res["ok"]


def repo_clean():
    rc, out = sh(["git", "-C", REPO, "status", "--porcelain", "--untracked-files=no"])
    return out.strip() == ""


def detect(d, extra_props=None, tier="quick"):
    m = load_meta(d)
    patch = os.path.abspath(os.path.join(d, "patch.diff"))
    props = [m["property"]] + list(m.get("also", [])) + list(extra_props or [])
    props = list(dict.fromkeys(props))
    if not repo_clean():
        print("refusing: /repo has uncommitted changes")
        return None
    rc, out = sh(["git", "-C", REPO, "apply", patch])
    if rc != 0:
        print("patch does not apply to /repo: %s" % out[-300:])
        return None
    det = {}
    try:
        for p in props:
            t0 = time.time()
            rc, out = sh([os.path.join(HERE, "check"), "run", p, tier], cwd=HERE, timeout=7200)
            sigs = [l.split("signature:")[1].strip() for l in out.splitlines() if "signature:" in l]
            det[p] = {"exit": rc, "fired": rc == 1 and "VIOLATION property=%s" % p in out, "signatures": sigs[:6], "seconds": round(time.time() - t0, 1),
                      "inconclusive": [l for l in out.splitlines() if l.startswith("INCONCLUSIVE")][:3]}
    finally:
        sh(["git", "-C", REPO, "checkout", "--", "."])
    m["detection"] = {"at": time.strftime("%Y-%m-%d %H:%M:%S"), "tier": tier, "verif_commit": subprocess.run(["git", "-C", HERE, "rev-parse", "--short", "HEAD"], stdout=subprocess.PIPE, text=True).stdout.strip(), "checks": det}
    save_meta(d, m)
    print("%-28s detect: %s" % (os.path.basename(d.rstrip("/")), ", ".join("%s=%s%s" % (p, "FIRED" if r["fired"] else "missed", "(%s)" % r["signatures"][0] if r["signatures"] else "") for p, r in det.items())))
    return det


def _worker_dir(w):
    return "%s%s" % (os.environ.get("STUNMON_WORKER_PREFIX", "/tmp/stunmon-seed-w"), w)


def pdetect_one(w, d, props, tier):
    """Detection in a scratch copy (parallel-safe): worktree of /repo with the patch applied + a copy
    of /verif whose harness path dependencies point at that worktree.  The registered MANIFEST
    commands never use this indirection; it only speeds up the seeded-change matrix."""
    wd = _worker_dir(w)
    repo_w, verif_w = os.path.join(wd, "repo"), os.path.join(wd, "verif")
    os.makedirs(wd, exist_ok=True)
    if not os.path.isdir(repo_w):
        rc, out = sh(["git", "-C", REPO, "worktree", "add", "-q", "--detach", repo_w, "HEAD"])
        if rc != 0:
            return {"error": out[-300:]}
    sh(["git", "-C", repo_w, "checkout", "-q", "--detach", subprocess.run(["git", "-C", REPO, "rev-parse", "HEAD"], stdout=subprocess.PIPE, text=True).stdout.strip()])
    sh(["git", "-C", repo_w, "checkout", "--", "."])
    sh(["rsync", "-a", "--delete", "--exclude", ".git", "--exclude", "target", "--exclude", "evidence", "--exclude", "seeded", SRC[0] + "/", verif_w + "/"])
    ct = os.path.join(verif_w, "harness", "Cargo.toml")
    txt = open(ct).read().replace("/repo/", repo_w + "/")
    open(ct, "w").write(txt)
    m = load_meta(d)
    patch = os.path.abspath(os.path.join(d, "patch.diff"))
    rc, out = sh(["git", "-C", repo_w, "apply", patch])
    if rc != 0:
        return {"error": "patch does not apply: " + out[-300:]}
    det = {}
    for p in props:
        t0 = time.time()
        rc, out = sh([os.path.join(verif_w, "check"), "run", p, tier], cwd=verif_w, timeout=7200)
        sigs = [l.split("signature:")[1].strip() for l in out.splitlines() if "signature:" in l]
        det[p] = {"exit": rc, "fired": rc == 1 and "VIOLATION property=%s" % p in out, "signatures": sigs[:6], "seconds": round(time.time() - t0, 1),
                  "inconclusive": [l[:300] for l in out.splitlines() if l.startswith("INCONCLUSIVE")][:3]}
    sh(["git", "-C", repo_w, "checkout", "--", "."])
    return det


SRC = [HERE]
FROZEN_COMMIT = [None]


def freeze():
    """Work from a snapshot of /verif's HEAD (under the worker prefix) instead of the live tree, so
    that the harness can be edited while a long detection run is going."""
    dst = _worker_dir("frozen")
    sh(["rm", "-rf", dst])
    os.makedirs(dst)
    subprocess.run("git -C %s archive HEAD | tar -x -C %s" % (HERE, dst), shell=True, check=True)
    SRC[0] = dst
    FROZEN_COMMIT[0] = subprocess.run(["git", "-C", HERE, "rev-parse", "--short", "HEAD"], stdout=subprocess.PIPE, text=True).stdout.strip()


def pdetect(dirs, nworkers, which, tier="quick"):
    import concurrent.futures
    import queue
    sys.path.insert(0, os.path.join(HERE, "tools"))
    from props_meta import PROPS
    free = queue.Queue()
    for w in range(nworkers):
        free.put(w)

    def job(d):
        w = free.get()
        try:
            m = load_meta(d)
            if which == "all":
                props = [m["property"]] + [p for p in sorted(PROPS) if p != m["property"]]
            else:
                props = list(dict.fromkeys([m["property"]] + list(m.get("also", []))))
            det = pdetect_one(w, d, props, tier)
            if "error" in det:
                print("%-10s ERROR %s" % (os.path.basename(d.rstrip("/")), det["error"]), flush=True)
                return
            m = load_meta(d)
            m["detection"] = {"at": time.strftime("%Y-%m-%d %H:%M:%S"), "tier": tier, "mode": "scratch copy (seedtool pdetect)",
                              "verif_commit": FROZEN_COMMIT[0] or (subprocess.run(["git", "-C", HERE, "rev-parse", "--short", "HEAD"], stdout=subprocess.PIPE, text=True).stdout.strip() + "+wip"),
                              "checks": det}
            save_meta(d, m)
            fired = [p for p, r in det.items() if r["fired"]]
            inc = [p for p, r in det.items() if r["exit"] == 2]
            print("%-10s target %s %s; fired: %s%s" % (os.path.basename(d.rstrip("/")), m["property"], "FIRED" if det[m["property"]]["fired"] else "missed",
                                                      ",".join(fired) or "-", ("; inconclusive: " + ",".join(inc)) if inc else ""), flush=True)
        finally:
            free.put(w)

    with concurrent.futures.ThreadPoolExecutor(max_workers=nworkers) as ex:
        list(ex.map(job, dirs))
    for w in range(nworkers):
        wd = _worker_dir(w)
        sh(["git", "-C", REPO, "worktree", "remove", "--force", os.path.join(wd, "repo")])
        sh(["rm", "-rf", wd])


def table(write=False):
    base = os.path.join(HERE, "seeded")
    lines = ["| change | property | what it needs to manifest | target check (quick) | first signature | other checks that also fire |",
             "|---|---|---|---|---|---|"]
    nfired = ntotal = 0
    for name in sorted(os.listdir(base)):
        d = os.path.join(base, name)
        if not os.path.isfile(os.path.join(d, "meta.json")):
            continue
        m = load_meta(d)
        t = m.get("property")
        det = m.get("detection", {}).get("checks", {})
        tr = det.get(t, {})
        others = sorted(p for p, r in det.items() if p != t and r.get("fired"))
        allrun = len(det) > 3
        needs = " ".join(m.get("needs", "").split())
        if len(needs) > 150:
            needs = needs[:147] + "..."
        sig = (tr.get("signatures") or ["-"])[0].replace("|", "¦")
        status = "FIRED" if tr.get("fired") else "silent"
        if m.get("detection_layers"):
            dl = m["detection_layers"]
            status += "; thorough layers: " + ", ".join("%s %s" % (k, "FIRED" if str(dl.get(k, "")).startswith("FIRED") else "silent") for k in ("miri", "asan") if k in dl)
        ntotal += 1
        nfired += 1 if tr.get("fired") else 0
        lines.append("| %s | %s | %s | %s | `%s` | %s |" % (name, t, needs.replace("|", "/"), status, sig, (", ".join(others) if others else ("-" if allrun else "(not run)"))))
    lines.append("")
    lines.append("%d of %d changes are caught by the quick check of the property they target." % (nfired, ntotal))
    text = "\n".join(lines)
    if write:
        dp = os.path.join(HERE, "DESIGN.md")
        s = open(dp).read()
        b0, b1 = "<!-- SEEDED-TABLE-BEGIN -->", "<!-- SEEDED-TABLE-END -->"
        if b0 in s and b1 in s:
            s = s[:s.index(b0) + len(b0)] + "\n" + text + "\n" + s[s.index(b1):]
            open(dp, "w").write(s)
            print("DESIGN.md table rewritten (%d rows)" % ntotal)
            return
    print(text)


def main():
    if len(sys.argv) < 2:
        print(__doc__)
        return 64
    cmd = sys.argv[1]
    if cmd == "confirm":
        ok = True
        for d in sys.argv[2:]:
            ok = confirm(d) and ok
        return 0 if ok else 1
    if cmd == "detect":
        for d in sys.argv[2:]:
            detect(d)
        return 0
    if cmd == "pdetect":
        args = sys.argv[2:]
        nworkers, which = 4, "target"
        while args and args[0].startswith("--"):
            if args[0] == "--all":
                which = "all"
            elif args[0].startswith("--workers="):
                nworkers = int(args[0].split("=")[1])
            elif args[0] == "--frozen":
                freeze()
            args = args[1:]
        pdetect(args, nworkers, which)
        if SRC[0] != HERE:
            sh(["rm", "-rf", SRC[0]])
        return 0
    if cmd == "table":
        table(write="--write" in sys.argv[2:])
        return 0
    if cmd == "cleanup":
        sh(["git", "-C", REPO, "worktree", "remove", "--force", SCRATCH])
        return 0
    print(__doc__)
    return 64


if __name__ == "__main__":
    sys.exit(main())
