"""Per-property metadata for the driver and for MANIFEST.json generation (tools/gen_manifest.py)."""

COMMON_ASSUME = [
    "the harness's own reference implementations (self-tested against published vectors at start-up) are the trusted base",
    "held = held on the executions produced by this run (both a checked build with overflow checks and debug assertions, and a release build), not a proof",
]

PROPS = {}

PROPS["C19"] = {
    "title": "Message type and transaction id fields are encoded bijectively per the RFC",
    "level": "exploration",
    "technique": "runtime monitor: exhaustive enumeration of the 16-bit type field and all (class, method) pairs against an independently computed RFC bit layout; sampled 128-bit ids",
    "design_ref": "DESIGN.md section 4, C19",
    "rule": "every 16-bit type-field value decoded from slices of 2, 3, 4, 20 and (strided) 70000 bytes; every (class, method) in 4x4096 encoded and decoded; transaction ids = 522 boundary patterns + seeded random u128 (half with bits above 96 set); generate() sampled. distinct = distinct (kind, value) cases, capped at 2^18 per shard.",
    "exhaustive": False,
    "exhaustive_note": "the finite part (65536 type-field values, 16384 class/method pairs) is enumerated completely in both tiers; the transaction-id part is sampled",
    "assumptions": COMMON_ASSUME + ["transaction ids are sampled (boundary patterns + random), not enumerated"],
    "level_text": "Complete enumeration of the finite type-field domain against an independent statement of the RFC 8489 s5 bit layout, plus boundary and random sampling of 128-bit inputs for the 96-bit id handling; the finite part is decided exhaustively, the id part is exploration.",
    "level_note": "trusted: 15 lines of bit arithmetic in harness/src/refimpl/parse.rs (class_of/method_of/type_field)",
}
