"""Per-property metadata for the driver and for MANIFEST.json generation (tools/gen_manifest.py)."""

COMMON_ASSUME = [
    "the harness's own reference implementations (self-tested against published vectors at start-up) are the trusted base",
    "held = held on the executions produced by this run (both a checked build with overflow checks and debug assertions, and a release build), not a proof",
]

PROPS = {}

PROPS["C19"] = {
    "title": "Message type and transaction id fields are encoded bijectively per the RFC",
    "level": "exploration",
    "technique": "runtime monitor: exhaustive enumeration of the 16-bit type field and all (class, method) pairs against an independently computed RFC bit layout; sampled 128-bit ids",
    "design_ref": "DESIGN.md section 4, C19",
    "rule": "every 16-bit type-field value decoded from slices of 2, 3, 4, 20 and (strided) 70000 bytes; every (class, method) in 4x4096 encoded and decoded; transaction ids = 522 boundary patterns + seeded random u128 (half with bits above 96 set); generate() sampled. distinct = distinct (kind, value) cases, capped at 2^18 per shard.",
    "exhaustive": False,
    "exhaustive_note": "the finite part (65536 type-field values, 16384 class/method pairs) is enumerated completely in both tiers; the transaction-id part is sampled",
    "assumptions": COMMON_ASSUME + ["transaction ids are sampled (boundary patterns + random), not enumerated"],
    "level_text": "Complete enumeration of the finite type-field domain against an independent statement of the RFC 8489 s5 bit layout, plus boundary and random sampling of 128-bit inputs for the 96-bit id handling; the finite part is decided exhaustively, the id part is exploration.",
    "level_note": "trusted: 15 lines of bit arithmetic in harness/src/refimpl/parse.rs (class_of/method_of/type_field)",
}


def _p(pid, title, level, technique, rule, level_text, level_note, extra_assume=None, **kw):
    d = {"title": title, "level": level, "technique": technique, "rule": rule, "level_text": level_text,
         "level_note": level_note, "assumptions": COMMON_ASSUME + (extra_assume or []),
         "design_ref": "DESIGN.md section 4, %s" % pid}
    d.update(kw)
    PROPS[pid] = d

_BYTES_RULE = ("buffers come from (a) a grammar generator that encodes bytes with the harness's own encoder (19 built-in attribute types with valid and invalid values, unknown types, duplicates, arbitrary padding, every order/subset/repetition of MESSAGE-INTEGRITY / MESSAGE-INTEGRITY-SHA256 (16..32 bytes) / FINGERPRINT tails with good and bad HMAC/CRC), (b) 16 mutators applied to them (bit flips, bursts, header/attribute length edits, retagging, truncation, extension with garbage or well-formed attributes, duplication, splicing), (c) the exhaustive skeleton enumeration (all attribute sequences up to length L over 7 attribute classes x 5 value-length residues x 6 declared-length perturbations), (d) exhaustive short-slice sweeps, (e) messages straddling the 16-bit length boundary. distinct = distinct (accept/reject, attribute-type skeleton, length residues, first 64 bytes) keys, capped at 2^18 per shard.")

_p("C01", "Decoding and inspection never panic or hang, whatever the bytes", "exploration",
   "runtime monitor: every decoder and read-only operation run under catch_unwind + watchdog on generated/mutated/enumerated buffers, checked and release builds; Miri and libFuzzer+ASan layers in the thorough tier",
   _BYTES_RULE + " Every buffer goes through Message/MessageHeader/MessageType/RawAttribute::from_bytes; accepted messages through iteration (bounded, continued after None), lookups, 19 typed extractions, all typed decoders on every attribute, validate_integrity under several credentials, check_attribute_types for all four classes, Display/Debug, and a second pass under a tracing subscriber that formats every field.",
   "Observes panics (as events), aborts and hangs (two-stage watchdog + isolated replay) over ~10^5 (quick) to ~10^8 (thorough) buffers up to 70 000 bytes in two builds; a sanitizer/interpreter layer (Miri, ASan+libFuzzer) covers dependency unsafe code in the thorough tier. Termination is decided in its bounded restatement (iterator item bound; 10 s / 60 s wall-clock watchdog with >= 10^5 x margin, first stage inconclusive).",
   "trusted: catch_unwind + panic hook; the watchdog; a hang is reported only if it reproduces in an isolated replay",
   ["inputs longer than 70 000 bytes are not generated", "a shard killed without a reproducible witness is inconclusive, not a violation"],
   layers=["miri", "fuzz"], timeout={"quick": 1500, "thorough": 10800})

_p("C02", "The parser accepts exactly the well-formed messages and exposes them faithfully", "exploration",
   "runtime monitor: differential checking of Message::from_bytes against an independently written reference decoder (accept/reject, cause and byte counts, header fields, attribute sequence, first-match lookups); offline re-judgement of sampled events by a Python walker",
   _BYTES_RULE + " plus a declared-length sweep (declared - actual in -8..=+8 and extremes) and an excess-byte sweep (1..=12 garbage or attribute-shaped bytes) over valid messages.",
   "Two independent decoders compared on 10^5..10^8 buffers including an exhaustive small-scope enumeration of attribute skeletons; a disagreement is a concrete witness buffer. Agreement is evidence relative to the reference's reading of RFC 8489 and of the property text (DESIGN.md appendix A).",
   "trusted: harness/src/refimpl/parse.rs (reference decoder, ~150 lines) audited offline by tools/logcheck.py on a sample of the run's own events",
   ["where the first defective element of a buffer is defective in several ways any applicable cause is accepted"],
   logcheck=True)

_p("C03", "Whatever the builder serialises, the parser reads back identically", "exploration",
   "runtime monitor: generated builder programs executed on MessageBuilder, output compared byte-for-byte with an independent reference encoder (incl. HMAC and CRC) and read back through the parser",
   "programs = (class, method, 96-bit id, 0..=24 attributes with distinct types drawn from the 16 ordinary built-in types via their constructors (values at and around every limit) and raw unknown types (lengths 0..=763, every padding residue), one of the 8 sealing combinations, short- or long-term credentials over arbitrary UTF-8); plus a raw-length sweep 0..=763 x 8 sealing sets, all classes x boundary methods, and programs sized to land the total in 65400..=65552 bytes. distinct = distinct (attribute count, seals, length, first 40 bytes).",
   "Every program's serialisation is checked for shape, equality with the reference encoding, parse, header fields, full attribute sequence, typed values and integrity validation: 10^5 (quick) to 10^7 (thorough) programs.",
   "trusted: reference encoder + reference HMAC/CRC (self-tested); attribute implementations outside the crate are out of scope",
   layers=["miri"])

_p("C04", "Integrity: sealed messages verify, anything else does not", "fault_enumeration",
   "runtime monitor with fault enumeration: for each sealed message every single-bit flip and byte substitutions in the covered range plus near-miss alternative credentials, judged with an independent HMAC-SHA1/SHA256/MD5 implementation",
   "base messages are builder-sealed (compared byte-for-byte with the reference HMAC) and reference-sealed (SHA-1, SHA-256 truncated to 16/20/24/28/32 bytes, both attributes in both orders, with/without FINGERPRINT, 1..=6 ordinary attributes, short- and long-term credentials). For each: validation under K, under ~10..30 alternative credentials whose HMAC key differs (HMAC-equivalent keys such as a trailing NUL are filtered), every single-bit flip in [0, end of the last exposed integrity attribute), all 255 substitutions at the structural bytes and sampled substitutions everywhere. Plus generated messages with wrong / partly wrong / missing integrity, and a few messages near 64 KiB. distinct = distinct base messages.",
   "Exhaustive single-bit fault enumeration over every generated sealed message (the tamper-evidence claim) plus differential checking of the HMAC input and key derivation against an independent implementation.",
   "trusted: harness SHA-1/SHA-256/MD5/HMAC (self-tested against FIPS/RFC vectors); cryptographic strength of HMAC is assumed, not tested",
   ["multi-byte forgeries and timing side channels are out of reach"])

_AGENT_RULE = ("histories over {send request/indication/response (8 ids, 5 destinations, unsealed/SHA-1/SHA-256/both, 2000 payload variants), poll at/before/half-way/after the last WaitUntil or arbitrarily late, responses (success/error; unsigned, valid under the remote or another key, SHA-1 / SHA-256 truncated / both, corrupted HMAC, partly valid; with/without FINGERPRINT; from any of 5 addresses), incoming requests/indications, cancel, cancel_retransmissions, configure_timeout, set_remote_credentials, time advance} executed on a real StunAgent in lock-step with a sequential reference model over virtual time; after every call request_transaction/peer_address for all ids and is_validated_peer for all addresses are compared; every history ends with a bounded-progress drain and a poll 2*10^7 ms later. Workloads: systematic small-scope enumeration (every history up to the depth bound over a reduced alphabet, UDP and TCP), long random histories, hand-shaped stress histories (simultaneous due instants replayed on fresh agents, late polls, response between cancel and poll, id reuse, reconfiguration below the retransmissions already sent, forged responses at every point of the schedule). distinct = distinct histories.")

_p("C05", "Every request transaction completes exactly once", "exploration",
   "runtime monitor: lock-step conformance of StunAgent with a sequential reference model (admissible-set oracle for simultaneously due transactions), systematic small-scope history enumeration + long random histories + bounded-progress drain",
   _AGENT_RULE,
   "Exactly-once completion, outstanding-ness, duplicate-id refusal, drop of unknown/late responses and absence of ghost events are asserted after every call over ~10^5 enumerated and ~10^3..10^5 random histories; 'completes' is decided in its bounded restatement (drain within a step bound).",
   "trusted: the reference agent model (DESIGN.md appendix B, harness/src/mon/agent.rs), audited offline by tools/agentcheck.py on a sample of the run's own histories; `now` is monotone in generated histories",
   agentcheck=True, exhaustive_note="the small-scope part enumerates every history up to the depth bound over the 15-operation alphabet for both transports; the rest is sampled")

_p("C06", "Retransmission timing follows the configured RFC 8489 schedule exactly", "exploration",
   "runtime monitor: due-time arithmetic of a reference model in integer milliseconds checked against every poll reply over virtual time, plus the model-free WaitUntil self-consistency rule; configuration grid, poll-schedule sweep, small-scope enumeration",
   _AGENT_RULE + " C06 emphasis: configurations rto in {1,2,499,500,501,1000,59999,60000,random} x retransmits 0..=8 x last timeout {0,1,8000,60000,random}, 1..=4 overlapping schedules, poll styles exact / 1 ms early / late by 1 ms..hours / half-way / random, reconfiguration and cancel_retransmissions in between; default schedule instants asserted literally.",
   "Every retransmission, timeout and WaitUntil instant of ~10^5..10^7 schedules is compared with the model (exact for ordinary transactions; a window for transactions whose retransmissions were cancelled, whose completion instant the property leaves open).",
   "trusted: reference agent model (audited offline by tools/agentcheck.py); durations are whole milliseconds (the API truncates sub-millisecond parts)", agentcheck=True)

_p("C07", "Responses to authenticated requests are accepted only with valid integrity", "exploration",
   "runtime monitor: the delivery decision of every response is predicted by an independent integrity validator inside the reference agent model; timing and later completion after a drop checked by the same model",
   _AGENT_RULE + " C07 emphasis: authentication alphabet (sealed/unsealed requests, 8 response kinds, credentials set/unset/changed mid-transaction) enumerated to the depth bound with remote credentials initially unset and set; forged responses (incl. integrity attributes of impossible length: MESSAGE-INTEGRITY of 0/16/19/24 bytes, MESSAGE-INTEGRITY-SHA256 of 12/18/36 bytes) injected at every point of the schedule; after every such drop the transaction is followed to its completion and any lifecycle / timing / payload disagreement is reported under C07.",
   "deliver iff not sealed or (remote credentials present and the response validates under them, by the harness's own HMAC); where the integrity attributes of a response are only partly valid either reply is admitted. Unchanged timing after a drop is checked by the C06 arithmetic.",
   "trusted: reference agent model + reference HMAC (both audited offline by tools/agentcheck.py with hashlib/hmac)", agentcheck=True)

_p("C08", "Each built-in attribute decodes exactly the RFC encodings and round-trips", "exploration",
   "runtime monitor: 19 typed decoders/encoders compared with reference codecs written from RFC 8489 s14 / RFC 8445; length sweeps, exhaustive small domains, random structured values",
   "decode side: for each of the 19 types every value length 0..=800 x 7 content classes (zero, 0xff, valid/invalid UTF-8, address/error-shaped, algorithm-list-shaped, random); all 65536 ERROR-CODE (class, number) byte pairs; all 256 address-family bytes x lengths 0..=24; algorithm ids (all in thorough, strided in quick) x parameter lengths x value lengths; all lengths 0..=40 for every type; every type against every other type's tag; mutated valid encodings. encode side: all codes 300..=699, text at limit-2..limit+37, random in-limit values of every type through the public constructors: wire layout vs reference, decode(encode(v)) = v, re-encode stability. distinct = distinct (type, length, validity, first 8 bytes).",
   "Accept/reject agreement, field equality and wire-layout equality against independent codecs over ~10^6 (quick) to ~10^8 (thorough) values, with the small domains enumerated completely.",
   "trusted: harness/src/refimpl/attrs.rs; where the crate documents a deliberate leniency (reserved bits ignored, ALTERNATE-DOMAIN unbounded) the reference is lenient too; an empty PASSWORD-ALGORITHMS list is outside 'in-limit'")

_p("C09", "FINGERPRINT is the RFC CRC; corrupting a fingerprinted message gets it rejected", "fault_enumeration",
   "runtime monitor with fault enumeration: every single-bit flip, every burst pattern <= 8 bits at every position, sampled bursts <= 32 bits and byte substitutions of fingerprinted messages, each mutant judged by the reference decoder with an independent CRC-32",
   "base messages: builder-made and reference-made fingerprinted messages of 28..~300 bytes with and without integrity attributes, plus a few near 64 KiB; mutants: all single-bit flips of the whole buffer, all burst patterns of length 2..=8 (2..=5 in quick) at every bit position, random bursts of 9..=32 bits, all 255 substitutions at every header / TLV-header / CRC byte and sampled ones elsewhere. The builder's FINGERPRINT value is compared with the reference on 10^4..10^6 random programs. distinct = distinct base messages + builder programs.",
   "Systematic fault enumeration around every generated fingerprinted message; a mutant that still carries a FINGERPRINT inconsistent with its bytes must be rejected, one whose FINGERPRINT dissolved follows the reference's verdict.",
   "trusted: bitwise CRC-32 (check value 0xCBF43926 self-tested) and the reference decoder")

_p("C10", "Only authenticated attributes are exposed after an integrity attribute", "exploration",
   "runtime monitor: exposed attribute sequence (iterator driven to None and four calls beyond, lookups) compared with the reference exposure rule on all tail arrangements, generated/mutated buffers and tail-replacement pairs",
   "every sequence of up to 3 (quick) / 4 (thorough) sealing attributes over {MI, MI-SHA256 with 32/16/24-byte values, FINGERPRINT} x 0..=5 ordinary attributes in front, random content; for each accepted one the tail after the first integrity attribute is replaced by 4 other accepted tails and the exposed prefix compared; plus the grammar/mutation stream and the skeleton enumeration. " + _BYTES_RULE,
   "Exposure equality against the rule in the property text for 10^5..10^7 accepted messages covering every order and subset of the three sealing attributes; also checks that exposed ordinary attributes lie before the attribute validate_integrity reports.",
   "trusted: reference decoder + 12-line exposure rule (DESIGN.md appendix A)", logcheck=True)

_p("C11", "Builder ordering rules hold and refused operations leave no trace", "exploration",
   "runtime monitor: every builder operation sequence up to the depth bound checked step by step against a reference model of the rule table, with full state snapshots (build, byte_len, has_attribute over the type universe) before and after each refused call",
   "all sequences up to length 6 (quick) / 7 (thorough) over {add typed x3, add raw, add raw of the reserved type 0x0000, add duplicate (through both entry points), SHA-1, SHA-256, fingerprint, into_owned, clone} = 2*10^6 / 2*10^7 sequences, plus random sequences of 8..=40 operations over 19 typed and 33 raw types (unknown types, the extremes 0x0000 / 0xffff / 0x7fff / 0x8000 and the neighbours of the sealing types; SmallVec spill). After each sequence the serialisation is walked by the reference decoder and validated. distinct = distinct operation sequences.",
   "Small-scope exhaustive enumeration of operation sequences with a state-equality oracle: a refused operation must leave every observable of the builder unchanged.",
   "trusted: 30-line rule-table model; operations documented to panic (sealing types through add_attribute) are not driven",
   layers=["miri"], exhaustive_note="all sequences up to the depth bound over the 11-operation alphabet are enumerated; longer ones are sampled")

_p("C12", "All serialisation paths produce identical bytes", "exploration",
   "runtime monitor: pairwise byte equality of all serialisation paths into sentinel-filled (dirty) destinations, every too-short destination size",
   "for every attribute value: write_into into 0xA5-filled buffers of padded+0/+1/+16 bytes vs to_raw().to_bytes(), declared length, zero padding, untouched tail, and every destination shorter than the padded length (all sizes for <= 64 bytes, boundary sizes above); values: raw attributes of every length 0..=763, text attributes at every byte length up to their limit, ERROR-CODE reasons 0..=763, lists 0..=64, random values of all 19 types. Builders as in C03: build vs write_into exact/+1/+16/+300 vs clone vs into_owned, every destination size 0..len-1 for messages <= 600 bytes. distinct = distinct (type, length, first bytes).",
   "Direct equality oracle over 10^5..10^7 values and builders with exhaustive short-destination sweeps.",
   "trusted: none beyond byte comparison; dirty destinations are essential because build() starts from a zeroed vector")

_p("C13", "XOR-MAPPED-ADDRESS returns the address that was put in", "exploration",
   "runtime monitor: XorMappedAddress new/addr/to_raw/from_raw/message trip compared with a 10-line reference transform over boundary patterns, all ports, per-octet walks and sampled addresses",
   "all 65536 ports x 6 boundary addresses (all-zero, all-one, cookie-equal; IPv4 and IPv6) x rotating ids; every octet position x every value 0..=255 for IPv4 and IPv6 x 3 ids; every single-bit transaction id x boundary addresses through a real message; every RFC 6890 special-purpose IPv6 prefix (IPv4-mapped, IPv4-compatible, NAT64, 6to4, Teredo, link-local, ULA, multicast, documentation, discard, SIIT) x 14 embedded special IPv4 addresses, and the addresses whose XOR image is one of those; a strided sweep of 2^20 (quick) / 2^26 (thorough) IPv4 addresses; 2^19 / 10^8 random IPv6 addresses x random ids; IPv6 decoded under a different id must differ, IPv4 must not depend on the id. distinct = distinct (address, port, id) keys (capped).",
   "Sampling plus structural walks of a bytewise XOR; the unsampled bulk of 2^144 / 2^240 inputs is covered only by the argument that the transform is bytewise.",
   "trusted: RefAddr::xor in harness/src/refimpl/attrs.rs; socket addresses carry flowinfo/scope 0")

_p("C14", "TCP framing buffer returns exactly the frames that were sent", "exploration",
   "runtime monitor: push/pull event stream of TcpBuffer checked against a reference de-framer; frames carry unique ids; every chunk composition of short streams, random chunkings of long ones",
   "every frame-size sequence whose encoded stream is <= 12 (quick, sampled above 9) / 14 (thorough) bytes x every composition of the stream into chunks x 4 pull patterns (after every push / only at the end / alternating); random cases with frame sizes {0,1,2,3,255,256,257,65534,65535,random}, up to 40 frames / 2 MB, chunking styles 1-byte drip, 0..3-byte (incl. empty), huge, boundary-sized, and streams ending in an incomplete frame. distinct = distinct (sequence, composition) pairs.",
   "Exhaustive small-scope enumeration of chunkings with an exact oracle (pull returns Some iff a complete frame is buffered, and then exactly the next frame), plus random long streams.",
   "trusted: 20-line reference de-framer", layers=["miri"], exhaustive_note="all compositions of every enumerated short stream are covered; long streams are sampled")

_p("C15", "A peer is validated only by a STUN message accepted from it, and stays validated", "exploration",
   "runtime monitor: is_validated_peer for the whole address universe compared with the reference model's set after every call of every agent history",
   _AGENT_RULE + " C15 emphasis: sources drawn from 5 addresses (IPv4/IPv6, same IP with another port) plus two addresses never handed to the agent.",
   "The validated set must equal the model's (grows exactly on IncomingStun and on delivered responses) after every one of ~10^6..10^8 calls: monotonicity, no validation on send or drop, no cross-address leakage.",
   "trusted: reference agent model (audited offline by tools/agentcheck.py)", agentcheck=True)

_p("C16", "Attribute policing returns exactly the RFC 8489 s6.3.1 verdict", "exploration",
   "runtime monitor: check_attribute_types compared with reference policing over the reference exposure for all supported/required subsets; generated responses re-parsed by the reference decoder; comprehension_required exhaustively",
   "requests from the grammar generator (duplicates, hidden tails, FINGERPRINT, integrity) x all subsets of (exposed types + 1 absent required + 1 absent optional) for both lists when <= 5 types are exposed (strided in quick for the 7-element pools), random subsets otherwise, plus lists with duplicates; comprehension_required for all 65536 types. distinct = distinct requests.",
   "Verdict (420 + list in message order modulo duplicates / 400 / none), and shape of the generated response (class, method, id, ERROR-CODE, parses) compared with an independent computation for ~10^6..10^8 (request, supported, required) triples.",
   "trusted: reference decoder/exposure + ERROR-CODE / UNKNOWN-ATTRIBUTES reference codecs; only requests are policed here (non-requests are C01's concern)")

_p("C17", "A prefix of a message is reported as truncated with the length still needed", "exploration",
   "runtime monitor: every cut point of well-formed messages parsed and compared with the exact expected Truncated counts; MessageHeader decoder compared with the reference and with the full parser",
   "well-formed messages 20..=2000 bytes (two thirds reference-made, one third builder-made) x every cut 0..len; messages up to 65552 bytes with the first 40, the last 9 and 200 random cuts; header sweeps: 4 top-bit combinations x 33 cookie variants x random rest, also on short slices. distinct = distinct messages.",
   "Exact oracle (expected = 20 below 20 bytes, len(m) from 20 on; actual = cut) over 10^6..10^8 prefixes.",
   "trusted: reference decoder for well-formedness of the base messages")

_p("C18", "Every transmission is the unmodified request, addressed as asked", "exploration",
   "runtime monitor: every Transmit returned by send and poll compared byte-for-byte and address-for-address with what the reference model recorded at send time; peer_address observed after every call",
   _AGENT_RULE + " C18 emphasis: message contents vary in method, attributes, length (0..1400-byte payload attribute), sealing and FINGERPRINT; several concurrent requests carry different payloads so that a mix-up between transactions is visible.",
   "Byte equality of the initial transmission with the builder's own build() output and of every retransmission with that same record; from/to/transport; non-requests leave no transaction.",
   "trusted: reference agent model (audited offline by tools/agentcheck.py); the bytes compared against are the builder's own serialisation taken before the message is handed over", agentcheck=True)

_p("C20", "The agent is a pure function of its inputs (sans-IO)", "exploration",
   "runtime monitor: clock reads trapped by symbol interposition (clock_gettime/gettimeofday/time defined in the harness binary) around every agent call; normalised reply logs compared between a base run and shifted / second-instance / noisy / threaded replays; Miri data-race detection in the thorough tier",
   "random histories (20..=600 operations, 4 ids, general/timing/auth emphasis) and the enumerated small scope, each replayed: base; every instant shifted by 1 ms / 1 s / 1 h / 10^9 ms / random; a second instance; with unrelated agents created and driven between every two steps; every 16th also on a spawned thread and on four threads concurrently. Polls drain (repeat at the same instant until WaitUntil) and each drain is compared as a multiset because simultaneously due transactions may be served in any order. distinct = distinct histories.",
   "Direct observation of ambient clock reads (must be 0; the interposer is probed live in every process) plus metamorphic replay equality over ~10^4..10^6 runs.",
   "trusted: symbol interposition sees libc clock entry points only; other ambient channels (environment, files) would show up only if they influence replies",
   layers=["miri"])

# Additions made after the seeded-change rounds (DESIGN.md 11.5): appended to the rule texts.
_ADD = {
    "C01": " Also requests with 16..1000 distinct unknown types under policing; every buffer also through the TryFrom entry points; values that look like nested STUN.",
    "C02": " Also: every built-in type repeated two or three times in every valid/invalid combination (typed lookups answer with the first occurrence); TryFrom entry points agree with from_bytes; every 257th buffer the last eight are decoded again in reverse order as the first calls of a fresh thread and must give the same answers; values that look like nested STUN / sealing attributes.",
    "C03": " Also: every total 65500..=65552 x every sealing set; programs with 255/256/257/300/1000/4097 attributes; every program also serialised into 0xA5/0xFF-filled destinations.",
    "C04": " Also near-miss HMAC inputs (length not rewritten / excluding the attribute / total size / to end of buffer / zero, text including the attribute header, empty key, password or MD5(password) as key) and replay constructions ([.., X(h) at the genuine offset, forged.., MI(h)]).",
    "C08": " Also in-memory raw values of 65536..196640 bytes for every type except ALTERNATE-DOMAIN (no limit documented by the crate).",
    "C09": " Also eleven near-miss CRC relations substituted into ~4*10^5 messages (length not covering the attribute / total / zero, no XOR, byte orders, CRC-32C, body only, including own header, complemented, without the previous attribute), and every total 65500..=65552 builder- and reference-made.",
    "C10": " Also: skip/nth/step_by/last/count/fold/by_ref adaptors must agree with next(); the exposure rule on every message the implementation accepts (also wrongly); HMAC replay constructions with the assertion that a successful validation means the exposed integrity attribute is correct over everything before it.",
    "C11": " Also: every sequence up to length 4 starting from builder_success / builder_error / bad_request / unknown_attributes; the final state serialised through write_into (dirty destinations), clone, into_owned().write_into.",
    "C12": " Also write_header / write_header_unchecked, to_raw().into_owned(), a second to_raw(), the raw attribute re-parsed from its own bytes; UnknownAttributes mutated between serialisations.",
    "C13": " Also special-purpose ranges and XOR images (see DESIGN 11.5), repeated addr() calls under alternating ids on one object and its clone, in-place writes into reused buffers, boundary pairs as the first call of a fresh thread, scoped / flow-labelled IPv6 inputs (ip and port come back).",
    "C16": " Also requests with 1..=120 distinct types (nothing / everything / every second / all but one supported).",
    "C17": " Also the header decoder against the parser's own verdict on arbitrary headers (any length field), and every prefix through Message::try_from.",
    "C19": " Also: bytes 0..2 of built messages (build and write_into) with bodies of 4..131072 bytes; every (class, method) built, decoded by the header decoder and the parser, and answered through builder_success / builder_error / bad_request / unknown_attributes; at least 70000 generate() calls on one thread.",
}
_AGENT_ADD = (" Additions: virtual time in microseconds (sub-millisecond advances and configure_timeout durations), clock rewinds (stale instants), an address universe of 8192 with IPv4-mapped twins in the core eight, bursts of up to 6000 peers and 1500 concurrent transactions, schedules extended after their last transmission, staggered service of simultaneously due transactions, responses with integrity attributes of impossible length, local credentials set.")
for _k in ("C05", "C06", "C07", "C15", "C18"):
    PROPS[_k]["rule"] += _AGENT_ADD
PROPS["C20"]["rule"] += (" Additions: the observed outstanding / validated sets are part of the compared reply log; a variant with a tracing subscriber installed; each history also run without draining under the model and, if the model fails, on its single-transaction projections (interference); shapes: staggered service, many peers, many transactions, extended schedules, stale instants; environment reads (getenv) trapped like clock reads.")
_ADD6 = {
    "C01": " In-memory raw attributes of 65536..131076 bytes into every typed decoder and Display.",
    "C02": " Every buffer of up to 64 bytes is also digested under a tracing subscriber that formats every event (reach threshold on events received).",
    "C03": " Every program is also applied to a builder observed between every two additions (byte_len, build, write_into, clone); its final serialisation is read back too.",
    "C09": " Every mutant goes through Message::from_bytes and TryFrom<&[u8]>; an accepted mutant that the independent decoder refuses for any reason is a violation (accepted only if the corruption dissolved the FINGERPRINT into well-formed attributes).",
    "C10": " Every sealing tail up to length 3 also at totals 65480..=65552 (sealing attributes at or beyond byte 65536).",
    "C14": " Payload styles: magic cookie at header offsets, payloads that are STUN messages with consistent / inflated length, cookies everywhere, payloads that look like length-prefixed frames, all-ones, all-zeros.",
    "C15": " Messages handed to the agent name addresses of the observed universe (ALTERNATE-SERVER next to every named error code, XOR-MAPPED-ADDRESS, RESPONSE-ORIGIN, OTHER-ADDRESS, XOR-PEER-ADDRESS).",
    "C17": " Prefixes are also parsed under a tracing subscriber that formats every event (reach threshold on events received).",
}
_ADD7 = {
    "C01": " Iterator consumers that ask for size_hint between elements; realistic messages (attributes that repeat each other's information, nested messages) and their mutants.",
    "C02": " Realistic messages and their mutants.",
    "C03": " One raw value in six carries bytes that look like a sealing attribute or a header, aligned at its end or start.",
    "C04": " HMAC primitives (MessageIntegrity{,Sha256}::{compute,verify}) against the independent HMACs with keys of 0..200 bytes; passwords of 55..200 bytes, near-miss credentials sharing the first 64 bytes; realistic messages as bases of the tamper enumeration.",
    "C05": " When the agent's timing disagrees with the schedule, a completion probe drives it far beyond every deadline: every outstanding request is reported timed out / cancelled exactly once and is gone.",
    "C06": " A lifecycle disagreement while a transaction is due and unserved is reported as the due event never being produced.",
    "C07": " Remote credentials are passwords of 70 bytes sharing their first 66 bytes.",
    "C09": " Fingerprint::{compute,new,to_raw,write_into,write_into_unchecked} against the independent CRC; realistic messages (MAPPED-ADDRESS and XOR-MAPPED-ADDRESS naming one address, ICE checks, error responses with their usual attributes, a relayed fingerprinted message) as bases of the full fault enumeration.",
    "C10": " Realistic messages and their mutants.",
    "C11": " Every class x short-term and long-term credentials x every sequence up to length 3; operation clone_from (into a longer sealed builder / an empty one) in every sequence up to length 4 and in the random ones.",
    "C12": " Raw attributes edited through their public fields (header and value disagree): every path still serialises them identically.",
    "C13": " XorSocketAddr / MappedSocketAddr helper types under any attribute type; addresses whose wire image holds bytes that look like STUN structure at every aligned offset; companion attributes whose types share low bits with 0x0020.",
    "C15": " Special source addresses (wildcards, port 0, multicast, broadcast, loopback, link-local, IPv4-mapped, all-ones, the agent's own address) through every accept and drop path; 255..70000 accepted messages in a row from one address.",
    "C17": " Every one of the 16384 message types, header-only and with one attribute, every cut.",
    "C18": " Most messages handed to send carry an attribute with a registered type code (36 of them) of its usual size.",
}
_ADD8 = {
    "C01": " Text values ending in UTF-8 edge cases, reason phrases with a valid ERROR-CODE header, the RFC 8489 nonce cookie; mutations that frame a message as other layers do, put attributes behind the advertised size, add long material after sealing attributes, very many attributes, other protocols' first bytes, near-miss FINGERPRINT values.",
    "C02": " The same mutations (framing, attributes behind the advertised size, long tails after sealing, very many attributes, near-miss FINGERPRINT values).",
    "C04": " Every verdict is taken through Message::from_bytes and TryFrom<&[u8]>; they must agree.",
    "C05": " A request / indication that consumes an outstanding transaction with its id is a violation; shape 'answered between two polls of one instant'.",
    "C07": " One request in 200 carries more attribute bytes than the 16-bit length field can express.",
    "C08": " ALTERNATE-DOMAIN / UNKNOWN-ATTRIBUTES of 65526..65535 bytes; every family byte x the sizes around 8 and 20 for the address decoders.",
    "C09": " Attribute values that begin with the magic cookie; one program in four on a builder observed between additions.",
    "C10": " MESSAGE-INTEGRITY of other sizes than 20 bytes in every tail up to length 3; every tail up to length 2 behind 256 / 1022..1025 attributes.",
    "C11": " The same operations on a second builder that is not looked at in between give the same message.",
    "C12": " The unchecked in-place writer called directly on a larger destination; raw attributes made through new_owned and the data wrappers.",
    "C13": " The owned copy of a builder that borrows the attribute; messages of 65540..65552 bytes.",
    "C14": " 400 connections abandoned in the middle of a 64 KiB frame before anything else (process-wide state).",
    "C16": " The generated response is read back through the typed API as well: what it reports is what the wire holds.",
    "C17": " Whatever the parser accepts has the size its header declares and no accepted strict prefix; a sealing attribute behind the advertised size among the inputs.",
    "C19": " has_method / has_class answer true for exactly one method and one class (16-bit arguments beyond the 12-bit range included).",
    "C20": " Shape 'answered between two polls of one instant'; the monitor's mutable-handle observation is made in every other history only.",
}
_ADD12 = {
    "C01": " A hang anywhere in the inspection of a buffer (not only inside the instrumented calls) is attributed to the buffer and replayed alone; small requests policed with 16..5000 absent required types.",
    "C03": " Every attribute is also looked up by type (raw_attribute / has_attribute / attribute::<T>()); attribute counts 9..=40; a twin program of the same shape sealed in lockstep with the program; refused additions (duplicate raw / typed type, additions after a seal) leave byte_len / build / write_into unchanged.",
    "C05": " Calls routed through a request handle followed by cancel / cancel_retransmissions / configure_timeout on the same handle; a call that does not return is attributed to the history and replayed alone.",
    "C06": " Schedules of signed and unsigned requests with bystander calls in between (credentials set and changed, peers' messages, stray and forged responses, datagrams and non-requests sent, other transactions started / answered / cancelled, refused duplicates, calls through handles); initial RTO of 0, an hour, a day; a poll routed through a handle and the same handle then reconfigures / cancels.",
    "C07": " Error responses that are the 401 / 438 challenge as servers send it (REALM, NONCE, PASSWORD-ALGORITHMS; signed or not); long-term local credentials in the enumerated alphabet (17 operations); the model takes 'signed' from the calls that signed the request.",
    "C09": " Right after a fingerprinted builder a twin of the same shape (type, id, attribute types, lengths; other contents) is built on the same thread.",
    "C18": " One destination in six is a special address (wildcards, port 0, multicast, broadcast, IPv4-mapped, zoned, flow-labelled); a request, an indication and a response to each of the 24 special addresses, the request followed and answered from exactly that address.",
    "C19": " Copies made with clone_from (directly and through Option / Vec) into builders that exist; ids that differ in any one of the 96 bits, in two bits at distances 1..64, or by swapped words are different under == and hashing, bits above 96 are ignored.",
    "C20": " Stale-instant histories whose first instant is the late one (a request answered / cancelled late, or an idle poll, then a request started earlier).",
}
_ADD12["C04"] = " Texts (passwords, names, realms) contain characters that string preparation, normalisation or case folding would change; near-miss credentials include what such a step would make of the text."
_ADD12["C11"] = " Large raw attributes of unaligned length (257..16385 bytes) next to small ones, in both orders, in front of every sealing set."
for _k, _t in _ADD12.items():
    PROPS[_k]["rule"] += _t
for _k, _t in _ADD.items():
    PROPS[_k]["rule"] += _t
for _k, _t in _ADD8.items():
    PROPS[_k]["rule"] += _t
for _k, _t in _ADD7.items():
    PROPS[_k]["rule"] += _t
for _k, _t in _ADD6.items():
    PROPS[_k]["rule"] += _t

# Every thorough run also executes the property's quick workload (another seed) on an
# AddressSanitizer build of the harness (tools/layers.py, layer "asan").
for _k, _v in PROPS.items():
    _v["layers"] = ["asan"] + [l for l in _v.get("layers", []) if l != "asan"]
    _extra = "AddressSanitizer build of the same workload" + (", Miri" if "miri" in _v["layers"] else "") + (", libFuzzer+ASan" if "fuzz" in _v["layers"] else "")
    if "thorough tier" not in _v["technique"]:
        _v["technique"] += "; thorough tier adds: " + _extra
    elif "AddressSanitizer build" not in _v["technique"]:
        _v["technique"] += " and an AddressSanitizer build of the same workload"
