"""Sanitizer / interpreter layers of the thorough tier (DESIGN.md section 5).

  miri : the property's small Miri workload in 16 shard processes under `cargo +nightly miri run`
         (UB and data races in dependency unsafe code reached from the crates, and the threaded
         C20 variant)
  asan : the property's quick workload (another seed) on an AddressSanitizer build of the harness
         (the two crates and all their dependencies instrumented), 16 shards
  fuzz : libFuzzer + ASan target harness/fuzz (inspect_all), forked over the cores, corpus seeded
         from the grammar generator; an artefact counts only if it reproduces in the plain harness
"""
import glob
import json
import os
import shutil
import subprocess
import time

NCPU = 16


def setup(HERE, HARNESS, ENV):
    """Nothing is pre-built: both layers build lazily the first time a thorough check needs them."""
    return None


def _miri(prop, seed, HERE, HARNESS, ENV):
    env = dict(ENV)
    env["MIRIFLAGS"] = "-Zmiri-disable-isolation"
    out = {"summary": {}, "violations": [], "inconclusive": [], "evaluations": 0}
    sdir = os.path.join(HERE, "evidence", "shards", "miri-%s-%d" % (prop, os.getpid()))
    shutil.rmtree(sdir, ignore_errors=True)
    os.makedirs(sdir, exist_ok=True)
    t0 = time.time()
    # build once (a trivial run), then start the shards
    b = subprocess.run(["cargo", "+nightly", "miri", "run", "--offline", "--", "merge-keys"], cwd=HARNESS, env=env,
                       stdout=subprocess.PIPE, stderr=subprocess.STDOUT, text=True)
    if b.returncode != 0:
        out["inconclusive"].append("miri build failed: %s" % b.stdout[-600:].replace("\n", " "))
        return out
    nsh = int(os.environ.get("VERIF_MIRI_SHARDS", NCPU))
    procs = []
    for i in range(nsh):
        o = os.path.join(sdir, "miri-%d.json" % i)
        cmd = ["cargo", "+nightly", "miri", "run", "--offline", "--", "run", prop, "--tier", "thorough", "--seed", str(seed),
               "--shard", "%d/%d" % (i, nsh), "--out", o]
        procs.append((i, o, subprocess.Popen(cmd, cwd=HARNESS, env=env, stdout=subprocess.PIPE, stderr=subprocess.PIPE)))
    evals = 0
    ub_reports = 0
    done = 0
    for i, o, p in procs:
        try:
            so, se = p.communicate(timeout=3600)
        except subprocess.TimeoutExpired:
            p.kill()
            so, se = p.communicate()
            out["inconclusive"].append("miri shard %d timed out" % i)
            continue
        se = se.decode("utf-8", "replace")
        res = None
        if os.path.exists(o):
            try:
                res = json.load(open(o))
            except Exception:
                res = None
        if "Undefined Behavior" in se or "error: unsupported operation" in se or "Data race detected" in se:
            ub_reports += 1
            kind = "data-race" if "Data race detected" in se else ("undefined-behaviour" if "Undefined Behavior" in se else "unsupported-operation")
            lines = [l for l in se.splitlines() if l.startswith("error")]
            if kind == "unsupported-operation":
                out["inconclusive"].append("miri shard %d: %s" % (i, (lines or [""])[0][:300]))
            else:
                out["violations"].append({
                    "property": prop, "signature": "%s|miri|%s|%s" % (prop, kind, "shard"), "assertion": "miri", "entry": kind, "feature": "shard",
                    "expected": "no undefined behaviour / data race under Miri", "observed": "\n".join(lines[:3])[:600] + " ... " + se[-1500:],
                    "build": "miri", "seed": seed, "tier": "thorough", "shard": i,
                    "witness": {"kind": "miri-shard", "property": prop, "seed": seed, "shard": "%d/%d" % (i, nsh)}})
            continue
        if res is None:
            out["inconclusive"].append("miri shard %d produced no result (rc %s): %s" % (i, p.returncode, se[-300:].replace("\n", " ")))
            continue
        done += 1
        evals += res.get("evaluations", 0)
        for v in res.get("violations", []):
            v["build"] = "miri"
            out["violations"].append(v)
        for n in res.get("inconclusive", []):
            out["inconclusive"].append("miri: " + n)
        if res.get("harness_fault"):
            out["inconclusive"].append("miri harness fault: %s" % res["harness_fault"])
    out["evaluations"] = evals
    out["summary"] = {"shards_completed": done, "shards": nsh, "cases_interpreted": evals, "ub_or_race_reports": ub_reports,
                      "wall_s": round(time.time() - t0, 1), "flags": env["MIRIFLAGS"]}
    shutil.rmtree(sdir, ignore_errors=True)
    return out


ASAN_TARGET = "x86_64-unknown-linux-gnu"


def _asan(prop, seed, HERE, HARNESS, ENV):
    """The property's quick-tier workload (other seed) on a harness built with AddressSanitizer: the
    repository's crates and every dependency (smallvec, byteorder, digest/sha1/sha2/md-5/hmac, crc,
    tracing) are instrumented; std is the prebuilt one.  A report aborts the shard; the report text
    and the input the shard was working on are the witness."""
    out = {"summary": {}, "violations": [], "inconclusive": [], "evaluations": 0}
    env = dict(ENV)
    env["RUSTFLAGS"] = "-Zsanitizer=address -Cforce-frame-pointers=yes --cfg stunmon_asan"
    env["CARGO_TARGET_DIR"] = os.path.join(HARNESS, "target", "asan")
    t0 = time.time()
    b = subprocess.run(["cargo", "+nightly", "build", "--release", "--offline", "--target", ASAN_TARGET], cwd=HARNESS, env=env,
                       stdout=subprocess.PIPE, stderr=subprocess.STDOUT, text=True)
    if b.returncode != 0:
        out["inconclusive"].append("asan build failed: %s" % b.stdout[-600:].replace("\n", " "))
        return out
    binp = os.path.join(HARNESS, "target", "asan", ASAN_TARGET, "release", "stunmon")
    sdir = os.path.join(HERE, "evidence", "shards", "asan-%s-%d" % (prop, os.getpid()))
    shutil.rmtree(sdir, ignore_errors=True)
    os.makedirs(sdir, exist_ok=True)
    renv = dict(ENV)
    renv["ASAN_OPTIONS"] = "halt_on_error=1:abort_on_error=0:exitcode=66:detect_leaks=0:detect_stack_use_after_return=1:strict_string_checks=1:symbolize=1"
    renv["ASAN_SYMBOLIZER_PATH"] = shutil.which("llvm-symbolizer") or shutil.which("llvm-symbolizer-14") or ""
    renv["VERIF_BUDGET"] = os.environ.get("VERIF_ASAN_BUDGET", "0.5")
    procs = []
    for i in range(NCPU):
        o = os.path.join(sdir, "asan-%d.json" % i)
        cmd = [binp, "run", prop, "--tier", "quick", "--seed", str(seed + 1000), "--shard", "%d/%d" % (i, NCPU), "--out", o]
        procs.append((i, o, subprocess.Popen(cmd, cwd=HERE, env=renv, stdout=subprocess.PIPE, stderr=subprocess.PIPE)))
    evals = done = reports = 0
    for i, o, p in procs:
        try:
            so, se = p.communicate(timeout=3600)
        except subprocess.TimeoutExpired:
            p.kill()
            so, se = p.communicate()
            out["inconclusive"].append("asan shard %d timed out" % i)
            continue
        se = se.decode("utf-8", "replace")
        if "ERROR: AddressSanitizer" in se:
            reports += 1
            lines = se[se.index("ERROR: AddressSanitizer"):].splitlines()
            kind = (lines[0].split("AddressSanitizer:")[1].split()[0] if "AddressSanitizer:" in lines[0] else "report")
            frames = [l.strip() for l in lines if l.strip().startswith("#")]
            inrepo = next((f for f in frames if "stun-types" in f or "stun-proto" in f or "stun_types" in f or "stun_proto" in f), frames[0] if frames else "?")
            fn = inrepo.split(" in ")[1].split(" ")[0] if " in " in inrepo else inrepo
            wit = {"kind": "asan-shard", "property": prop, "seed": seed + 1000, "shard": "%d/%d" % (i, NCPU)}
            cpath = o + ".crash"
            if os.path.exists(cpath):
                raw = open(cpath, "rb").read()
                if len(raw) >= 2:
                    ll = raw[1]
                    wit = {"kind": "bytes", "entry": raw[2:2 + ll].decode("utf-8", "replace"), "buf": raw[2 + ll:].hex()}
            out["violations"].append({
                "property": prop, "signature": "%s|asan|%s|%s" % (prop, kind, fn), "assertion": "asan", "entry": fn, "feature": kind,
                "expected": "no AddressSanitizer report", "observed": "\n".join(lines[:14])[:1800],
                "build": "asan", "seed": seed + 1000, "tier": "thorough", "shard": i, "witness": wit})
            continue
        res = None
        if os.path.exists(o):
            try:
                res = json.load(open(o))
            except Exception:
                res = None
        if res is None:
            out["inconclusive"].append("asan shard %d produced no result (rc %s): %s" % (i, p.returncode, se[-300:].replace("\n", " ")))
            continue
        done += 1
        evals += res.get("evaluations", 0)
        for v in res.get("violations", []):
            v["build"] = "asan"
            out["violations"].append(v)
        if res.get("harness_fault"):
            out["inconclusive"].append("asan harness fault: %s" % res["harness_fault"])
    out["evaluations"] = evals
    out["summary"] = {"shards_completed": done, "shards": NCPU, "cases_under_asan": evals, "asan_reports": reports,
                      "options": renv["ASAN_OPTIONS"], "wall_s": round(time.time() - t0, 1)}
    shutil.rmtree(sdir, ignore_errors=True)
    return out


def _fuzz(prop, seed, HERE, HARNESS, ENV):
    out = {"summary": {}, "violations": [], "inconclusive": [], "evaluations": 0}
    fdir = os.path.join(HARNESS, "fuzz")
    t0 = time.time()
    secs = int(os.environ.get("VERIF_FUZZ_SECONDS", "180"))
    b = subprocess.run(["cargo", "+nightly", "fuzz", "build", "inspect_all"], cwd=fdir, env=ENV, stdout=subprocess.PIPE, stderr=subprocess.STDOUT, text=True)
    if b.returncode != 0:
        out["inconclusive"].append("cargo fuzz build failed: %s" % b.stdout[-600:].replace("\n", " "))
        return out
    corpus = os.path.join(fdir, "corpus", "inspect_all")
    arts = os.path.join(fdir, "artifacts", "inspect_all")
    shutil.rmtree(corpus, ignore_errors=True)
    shutil.rmtree(arts, ignore_errors=True)
    os.makedirs(corpus, exist_ok=True)
    binp = os.path.join(HARNESS, "target", "release", "stunmon")
    subprocess.run([binp, "gen-corpus", corpus, "600", str(seed)], check=False)
    cmd = ["cargo", "+nightly", "fuzz", "run", "inspect_all", "--", "-max_total_time=%d" % secs, "-fork=%d" % NCPU, "-timeout=10",
           "-rss_limit_mb=4096", "-max_len=70002", "-len_control=0", "-ignore_crashes=1", "-ignore_timeouts=1", "-ignore_ooms=1", "-seed=%d" % (seed + 1)]
    p = subprocess.run(cmd, cwd=fdir, env=ENV, stdout=subprocess.PIPE, stderr=subprocess.STDOUT, text=True)
    log = p.stdout
    execs = 0
    cov = 0
    for line in log.splitlines():
        if line.startswith("#") and " cov: " in line:
            try:
                execs = max(execs, int(line.split()[0][1:].rstrip(":")))
                cov = max(cov, int(line.split(" cov: ")[1].split()[0]))
            except Exception:
                pass
    found = sorted(glob.glob(os.path.join(arts, "*")))
    reproduced = 0
    for a in found[:40]:
        w = subprocess.run([binp, "fuzz-witness", a], stdout=subprocess.PIPE, text=True)
        try:
            rec = json.loads(w.stdout)
        except Exception:
            out["inconclusive"].append("could not decode fuzz artefact %s" % os.path.basename(a))
            continue
        import importlib
        chk = importlib.import_module("__main__")
        outcome, res = chk.isolated_replay(rec, "checked", 60)
        if outcome == "violation":
            reproduced += 1
            for v in res.get("violations", []):
                out["violations"].append(v)
        elif outcome in ("hang", "crash"):
            reproduced += 1
            wit = rec["witness"]
            out["violations"].append({"property": prop, "signature": "%s|%s|fuzz|%s" % (prop, "terminates" if outcome == "hang" else "no-abort", outcome),
                                      "assertion": outcome, "entry": "fuzz", "feature": outcome, "expected": "returns",
                                      "observed": "libFuzzer artefact %s reproduces as %s in the plain harness" % (os.path.basename(a), outcome),
                                      "build": "checked", "seed": seed, "tier": "thorough", "shard": 0, "witness": wit})
        else:
            out["inconclusive"].append("fuzz artefact %s (%s) did not reproduce in the plain harness" % (os.path.basename(a), os.path.basename(a).split("-")[0]))
    out["evaluations"] = execs
    out["summary"] = {"executions": execs, "coverage_edges": cov, "artefacts": len(found), "artefacts_reproduced": reproduced,
                      "seconds": secs, "sanitizer": "address", "wall_s": round(time.time() - t0, 1),
                      "corpus_files_after": len(glob.glob(os.path.join(corpus, "*")))}
    shutil.rmtree(corpus, ignore_errors=True)
    return out


def replay_shard(wit, HERE, HARNESS, ENV):
    """Re-run one Miri / ASan shard named by a witness {"kind": "miri-shard"|"asan-shard", property, seed, shard}.
    Returns (outcome, text): outcome in {"violation", "clean", "inconclusive"}."""
    prop, seed, shard = wit["property"], int(wit["seed"]), wit["shard"]
    if wit["kind"] == "miri-shard":
        env = dict(ENV)
        env["MIRIFLAGS"] = "-Zmiri-disable-isolation"
        cmd = ["cargo", "+nightly", "miri", "run", "--offline", "--", "run", prop, "--tier", "thorough", "--seed", str(seed), "--shard", shard]
        p = subprocess.run(cmd, cwd=HARNESS, env=env, stdout=subprocess.PIPE, stderr=subprocess.PIPE, text=True)
        se = p.stderr
        if "Undefined Behavior" in se or "Data race detected" in se:
            return "violation", "\n".join(l for l in se.splitlines() if l.startswith("error"))[:800]
        if "error: unsupported operation" in se or (p.returncode not in (0, 1, 2)):
            return "inconclusive", se[-400:]
        return "clean", ""
    env = dict(ENV)
    env["RUSTFLAGS"] = "-Zsanitizer=address -Cforce-frame-pointers=yes --cfg stunmon_asan"
    env["CARGO_TARGET_DIR"] = os.path.join(HARNESS, "target", "asan")
    b = subprocess.run(["cargo", "+nightly", "build", "--release", "--offline", "--target", ASAN_TARGET], cwd=HARNESS, env=env,
                       stdout=subprocess.PIPE, stderr=subprocess.STDOUT, text=True)
    if b.returncode != 0:
        return "inconclusive", "asan build failed"
    renv = dict(ENV)
    renv["ASAN_OPTIONS"] = "halt_on_error=1:abort_on_error=0:exitcode=66:detect_leaks=0:detect_stack_use_after_return=1:symbolize=1"
    renv["VERIF_BUDGET"] = os.environ.get("VERIF_ASAN_BUDGET", "0.5")
    binp = os.path.join(HARNESS, "target", "asan", ASAN_TARGET, "release", "stunmon")
    p = subprocess.run([binp, "run", prop, "--tier", "quick", "--seed", str(seed), "--shard", shard], cwd=HERE, env=renv,
                       stdout=subprocess.PIPE, stderr=subprocess.PIPE, text=True)
    if "ERROR: AddressSanitizer" in p.stderr:
        return "violation", p.stderr[p.stderr.index("ERROR: AddressSanitizer"):][:800]
    return "clean", ""


def run_layer(name, prop, seed, HERE, HARNESS, ENV):
    if name == "miri":
        return _miri(prop, seed, HERE, HARNESS, ENV)
    if name == "fuzz":
        return _fuzz(prop, seed, HERE, HARNESS, ENV)
    if name == "asan":
        return _asan(prop, seed, HERE, HARNESS, ENV)
    return {"summary": {"error": "unknown layer"}, "violations": [], "inconclusive": ["unknown layer %s" % name], "evaluations": 0}
