"""Sanitizer / interpreter layers of the thorough tier (DESIGN.md section 5).

  miri : the property's small Miri workload in 16 shard processes under `cargo +nightly miri run`
         (UB and data races in dependency unsafe code reached from the crates, and the threaded
         C20 variant)
  fuzz : libFuzzer + ASan target harness/fuzz (inspect_all), forked over the cores, corpus seeded
         from the grammar generator; an artefact counts only if it reproduces in the plain harness
"""
import glob
import json
import os
import shutil
import subprocess
import time

NCPU = 16


def setup(HERE, HARNESS, ENV):
    """Nothing is pre-built: both layers build lazily the first time a thorough check needs them."""
    return None


def _miri(prop, seed, HERE, HARNESS, ENV):
    env = dict(ENV)
    env["MIRIFLAGS"] = "-Zmiri-disable-isolation"
    out = {"summary": {}, "violations": [], "inconclusive": [], "evaluations": 0}
    sdir = os.path.join(HERE, "evidence", "shards", "miri-%s-%d" % (prop, os.getpid()))
    shutil.rmtree(sdir, ignore_errors=True)
    os.makedirs(sdir, exist_ok=True)
    t0 = time.time()
    # build once (a trivial run), then start the shards
    b = subprocess.run(["cargo", "+nightly", "miri", "run", "--offline", "--", "merge-keys"], cwd=HARNESS, env=env,
                       stdout=subprocess.PIPE, stderr=subprocess.STDOUT, text=True)
    if b.returncode != 0:
        out["inconclusive"].append("miri build failed: %s" % b.stdout[-600:].replace("\n", " "))
        return out
    nsh = int(os.environ.get("VERIF_MIRI_SHARDS", NCPU))
    procs = []
    for i in range(nsh):
        o = os.path.join(sdir, "miri-%d.json" % i)
        cmd = ["cargo", "+nightly", "miri", "run", "--offline", "--", "run", prop, "--tier", "thorough", "--seed", str(seed),
               "--shard", "%d/%d" % (i, nsh), "--out", o]
        procs.append((i, o, subprocess.Popen(cmd, cwd=HARNESS, env=env, stdout=subprocess.PIPE, stderr=subprocess.PIPE)))
    evals = 0
    ub_reports = 0
    done = 0
    for i, o, p in procs:
        try:
            so, se = p.communicate(timeout=3600)
        except subprocess.TimeoutExpired:
            p.kill()
            so, se = p.communicate()
            out["inconclusive"].append("miri shard %d timed out" % i)
            continue
        se = se.decode("utf-8", "replace")
        res = None
        if os.path.exists(o):
            try:
                res = json.load(open(o))
            except Exception:
                res = None
        if "Undefined Behavior" in se or "error: unsupported operation" in se or "Data race detected" in se:
            ub_reports += 1
            kind = "data-race" if "Data race detected" in se else ("undefined-behaviour" if "Undefined Behavior" in se else "unsupported-operation")
            lines = [l for l in se.splitlines() if l.startswith("error")]
            if kind == "unsupported-operation":
                out["inconclusive"].append("miri shard %d: %s" % (i, (lines or [""])[0][:300]))
            else:
                out["violations"].append({
                    "property": prop, "signature": "%s|miri|%s|%s" % (prop, kind, "shard"), "assertion": "miri", "entry": kind, "feature": "shard",
                    "expected": "no undefined behaviour / data race under Miri", "observed": "\n".join(lines[:3])[:600] + " ... " + se[-1500:],
                    "build": "miri", "seed": seed, "tier": "thorough", "shard": i,
                    "witness": {"kind": "miri-shard", "property": prop, "seed": seed, "shard": "%d/%d" % (i, nsh)}})
            continue
        if res is None:
            out["inconclusive"].append("miri shard %d produced no result (rc %s): %s" % (i, p.returncode, se[-300:].replace("\n", " ")))
            continue
        done += 1
        evals += res.get("evaluations", 0)
        for v in res.get("violations", []):
            v["build"] = "miri"
            out["violations"].append(v)
        for n in res.get("inconclusive", []):
            out["inconclusive"].append("miri: " + n)
        if res.get("harness_fault"):
            out["inconclusive"].append("miri harness fault: %s" % res["harness_fault"])
    out["evaluations"] = evals
    out["summary"] = {"shards_completed": done, "shards": nsh, "cases_interpreted": evals, "ub_or_race_reports": ub_reports,
                      "wall_s": round(time.time() - t0, 1), "flags": env["MIRIFLAGS"]}
    shutil.rmtree(sdir, ignore_errors=True)
    return out


def _fuzz(prop, seed, HERE, HARNESS, ENV):
    out = {"summary": {}, "violations": [], "inconclusive": [], "evaluations": 0}
    fdir = os.path.join(HARNESS, "fuzz")
    t0 = time.time()
    secs = int(os.environ.get("VERIF_FUZZ_SECONDS", "180"))
    b = subprocess.run(["cargo", "+nightly", "fuzz", "build", "inspect_all"], cwd=fdir, env=ENV, stdout=subprocess.PIPE, stderr=subprocess.STDOUT, text=True)
    if b.returncode != 0:
        out["inconclusive"].append("cargo fuzz build failed: %s" % b.stdout[-600:].replace("\n", " "))
        return out
    corpus = os.path.join(fdir, "corpus", "inspect_all")
    arts = os.path.join(fdir, "artifacts", "inspect_all")
    shutil.rmtree(corpus, ignore_errors=True)
    shutil.rmtree(arts, ignore_errors=True)
    os.makedirs(corpus, exist_ok=True)
    binp = os.path.join(HARNESS, "target", "release", "stunmon")
    subprocess.run([binp, "gen-corpus", corpus, "600", str(seed)], check=False)
    cmd = ["cargo", "+nightly", "fuzz", "run", "inspect_all", "--", "-max_total_time=%d" % secs, "-fork=%d" % NCPU, "-timeout=10",
           "-rss_limit_mb=4096", "-max_len=70002", "-len_control=0", "-ignore_crashes=1", "-ignore_timeouts=1", "-ignore_ooms=1", "-seed=%d" % (seed + 1)]
    p = subprocess.run(cmd, cwd=fdir, env=ENV, stdout=subprocess.PIPE, stderr=subprocess.STDOUT, text=True)
    log = p.stdout
    execs = 0
    cov = 0
    for line in log.splitlines():
        if line.startswith("#") and " cov: " in line:
            try:
                execs = max(execs, int(line.split()[0][1:].rstrip(":")))
                cov = max(cov, int(line.split(" cov: ")[1].split()[0]))
            except Exception:
                pass
    found = sorted(glob.glob(os.path.join(arts, "*")))
    reproduced = 0
    for a in found[:40]:
        w = subprocess.run([binp, "fuzz-witness", a], stdout=subprocess.PIPE, text=True)
        try:
            rec = json.loads(w.stdout)
        except Exception:
            out["inconclusive"].append("could not decode fuzz artefact %s" % os.path.basename(a))
            continue
        import importlib
        chk = importlib.import_module("__main__")
        outcome, res = chk.isolated_replay(rec, "checked", 60)
        if outcome == "violation":
            reproduced += 1
            for v in res.get("violations", []):
                out["violations"].append(v)
        elif outcome in ("hang", "crash"):
            reproduced += 1
            wit = rec["witness"]
            out["violations"].append({"property": prop, "signature": "%s|%s|fuzz|%s" % (prop, "terminates" if outcome == "hang" else "no-abort", outcome),
                                      "assertion": outcome, "entry": "fuzz", "feature": outcome, "expected": "returns",
                                      "observed": "libFuzzer artefact %s reproduces as %s in the plain harness" % (os.path.basename(a), outcome),
                                      "build": "checked", "seed": seed, "tier": "thorough", "shard": 0, "witness": wit})
        else:
            out["inconclusive"].append("fuzz artefact %s (%s) did not reproduce in the plain harness" % (os.path.basename(a), os.path.basename(a).split("-")[0]))
    out["evaluations"] = execs
    out["summary"] = {"executions": execs, "coverage_edges": cov, "artefacts": len(found), "artefacts_reproduced": reproduced,
                      "seconds": secs, "sanitizer": "address", "wall_s": round(time.time() - t0, 1),
                      "corpus_files_after": len(glob.glob(os.path.join(corpus, "*")))}
    shutil.rmtree(corpus, ignore_errors=True)
    return out


def run_layer(name, prop, seed, HERE, HARNESS, ENV):
    if name == "miri":
        return _miri(prop, seed, HERE, HARNESS, ENV)
    if name == "fuzz":
        return _fuzz(prop, seed, HERE, HARNESS, ENV)
    return {"summary": {"error": "unknown layer"}, "violations": [], "inconclusive": ["unknown layer %s" % name], "evaluations": 0}
