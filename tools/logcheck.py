#!/usr/bin/env python3
"""Offline audit of the event log recorded by the byte-level monitors (DESIGN.md 3.2, appendix C).

Re-judges every recorded event with Python's hashlib / hmac / zlib and an independent ~60-line TLV
walker.  Prints one JSON line:
  events                     events read
  reference_disagreements    Python verdict != verdict of the Rust reference  (harness fault -> inconclusive)
  implementation_disagreements  Python verdict != what the implementation did (already reported online)
"""
import hashlib
import hmac
import json
import sys
import zlib

MI, MI256, FP = 0x0008, 0x001C, 0x8028
COOKIE = bytes([0x21, 0x12, 0xA4, 0x42])


def walk(b):
    """returns (causes, attrs[(type, off, len)], excess)"""
    n = len(b)
    causes = []
    if n < 20:
        causes.append("Truncated")
    if n >= 1 and b[0] & 0xC0:
        causes.append("NotStun")
    if n >= 8 and b[4:8] != COOKIE:
        causes.append("NotStun")
    if causes:
        return causes, [], 0
    end = 20 + int.from_bytes(b[2:4], "big")
    if end > n:
        return ["Truncated"], [], 0
    excess = n - end
    off, attrs, ints, fp = 20, [], [], False
    while off < end:
        rem = end - off
        if rem < 4:
            causes.append("Truncated")
            break
        t = int.from_bytes(b[off:off + 2], "big")
        l = int.from_bytes(b[off + 2:off + 4], "big")
        pad = (4 - l % 4) % 4
        order = None
        if fp:
            order = "AttributeAfterFingerprint"
        elif ints and (t not in (MI, MI256, FP) or t in ints):
            order = "AttributeAfterIntegrity"
        if 4 + l + pad > rem:
            if order:
                causes.append(order)
            causes.append("Truncated")
            break
        if order:
            causes.append(order)
        if t == FP:
            if l != 4:
                causes.append("MalformedFingerprint")
            else:
                pre = bytearray(b[:off])
                pre[2:4] = (off + 8 - 20).to_bytes(2, "big")
                want = (zlib.crc32(bytes(pre)) & 0xFFFFFFFF) ^ 0x5354554E
                if want != int.from_bytes(b[off + 4:off + 8], "big"):
                    causes.append("FingerprintMismatch")
            fp = True
        if t in (MI, MI256):
            ints.append(t)
        attrs.append((t, off, l))
        off += 4 + l + pad
    return causes, attrs, excess


def expose(attrs):
    first = next((i for i, a in enumerate(attrs) if a[0] in (MI, MI256)), None)
    if first is None:
        return list(range(len(attrs)))
    out = list(range(first + 1))
    if attrs[first][0] == MI and first + 1 < len(attrs) and attrs[first + 1][0] == MI256:
        out.append(first + 1)
    f = next((i for i, a in enumerate(attrs) if a[0] == FP), None)
    if f is not None and f > first and f not in out:
        out.append(f)
    return out


def key_of(cred):
    if "st" in cred:
        return cred["st"].encode("utf-8")
    u, r, p = cred["lt"]
    return hashlib.md5((u + ":" + r + ":" + p).encode("utf-8")).digest()


def attr_correct(b, a, key):
    t, off, l = a
    pre = bytearray(b[:off])
    pre[2:4] = (off + 4 + l - 20).to_bytes(2, "big")
    val = b[off + 4:off + 4 + l]
    if t == MI:
        return l == 20 and hmac.new(key, bytes(pre), hashlib.sha1).digest() == val
    if t == MI256:
        return 16 <= l <= 32 and l % 4 == 0 and hmac.new(key, bytes(pre), hashlib.sha256).digest()[:l] == val
    return False


def main():
    events = ref_dis = impl_dis = 0
    examples = []
    for path in sys.argv[1:]:
        try:
            lines = open(path).read().splitlines()
        except OSError:
            continue
        for line in lines:
            if not line.strip():
                continue
            try:
                ev = json.loads(line)
            except Exception:
                continue
            events += 1
            b = bytes.fromhex(ev["buf"])
            causes, attrs, excess = walk(b)
            py_ok = not causes and excess == 0
            if ev["k"] == "parse":
                if py_ok != ev["ref_ok"] or (not ev["ref_ok"] and excess == 0 and sorted(set(causes)) != sorted(set(ev["ref_causes"]))):
                    ref_dis += 1
                    if len(examples) < 3:
                        examples.append({"kind": "parse-verdict", "buf": ev["buf"][:200], "python": causes, "rust_reference": ev["ref_causes"]})
                    continue
                if "ref_exposed" in ev and not causes:
                    py_exp = [[attrs[i][0], b[attrs[i][1] + 4:attrs[i][1] + 4 + attrs[i][2]].hex()] for i in expose(attrs)]
                    if py_exp != ev["ref_exposed"]:
                        ref_dis += 1
                        if len(examples) < 3:
                            examples.append({"kind": "exposure", "buf": ev["buf"][:200], "python": py_exp, "rust_reference": ev["ref_exposed"]})
                        continue
                    if py_ok and ev["ok"] and py_exp != ev["exposed"]:
                        impl_dis += 1
                if py_ok != ev["ok"] and excess == 0:
                    impl_dis += 1
            elif ev["k"] == "validate":
                key = key_of(ev["cred"])
                py = [[i, a[0], attr_correct(b, a, key)] for i, a in enumerate(attrs) if a[0] in (MI, MI256)]
                if py != ev["ref"]:
                    ref_dis += 1
                    if len(examples) < 3:
                        examples.append({"kind": "integrity", "buf": ev["buf"][:200], "python": py, "rust_reference": ev["ref"]})
                    continue
                res = ev["res"]
                if res in ("Sha1", "Sha256"):
                    t = MI if res == "Sha1" else MI256
                    if not any(x[1] == t and x[2] for x in py):
                        impl_dis += 1
                elif py and all(x[2] for x in py):
                    impl_dis += 1
    out = {"events": events, "reference_disagreements": ref_dis, "implementation_disagreements": impl_dis}
    if examples:
        out["examples"] = examples
    print(json.dumps(out))


if __name__ == "__main__":
    main()
